"""C19 — chain tracing partitions particles into simple, distance-respecting chains (DESIGN.md section 4, C19).

case = {"gen": kind, "max": M, "min": m, "split": bool, "rows": [[tomo_id, subtomo_id, ex,ey,ez, xx,xy,xz, g4, p1..p9, o, k], ...],
        "xpay": bool, "form": "motl"|"df", "call": {...}, "second": {"how": "moved"|"rethreshold", "rows", "max", "min"}}
        + optional axes of audit round 2: "labels": None|"gaps"|"shuffled"|"dup"|"differ" (row labels of the two DataFrames), "ints": bool (int64
        columns), "num": "float"|"int"|"np64" (type of max/min_distance), "paydiv": 8|100|1 (unit of p1..p9), "coincide"/"far": generator notes;
        audit 3: "form" also "emmotl"|"relion"|"stopgap"|"path", "alias": bool (one object is both lists; needs "sym": exit sites = entry sites,
        tie filter noties()), "splitseed": int (x = floor(c) + k), "shiftoff": {tomo_id: [ox,oy,oz]} (x = floor(c) - offset, shift = offset + fraction)
All lengths are integers in units of 2^-10 (S = 1024): entry site e, exit site x, max/min distance, the value g4 the input list carries
in the distance column.  p1..p9 (units of 1/8) are the values of the nine fields tracing has no business with (score, geom1,
subtomo_mean, geom3, geom5, phi, psi, theta, class), o/k the stale object/order numbers of the input lists; rows of length 9 (hand-written
corpus) have zeros there.  Rows are in particle-list row order (tomograms may interleave).  "call" says how the call is written (which
keywords are omitted so that the signature defaults act, which store columns are named), "second" is a second call in the same process
on the same caller-owned lists.
"""
import ast, math, itertools
import core
from core import f2b, b2f

PROP = "C19"
COUNT = {"quick": 250, "thorough": 6000, "search": 1500}
PARALLEL = True
S = 1024
RULE = ("paired entry/exit particle lists, 2..60 particles in 1..3 tomograms (rows of different tomograms interleaved, tomogram ids "
        "unsorted, subtomo ids globally unique or restarting per tomogram, coordinates split between x and shift_x), coordinates on "
        "the 2^-10 grid; five generators: random displacement, polysome-like random walks with shuffled row order, dense clusters, "
        "competing exits, and branch cascades: one hand-built arrangement per combination of the suffix and the prefix branch of a "
        "two-sided merge (D18: attach after a chain end + before a chain start; DOUBLE_CUT: tail cut + head cut; SK_BC: chain end + head "
        "cut; SC_B: tail cut + chain start) plus prefix-cut and suffix cascades, under random rotation/scale/jitter, alone or two of them "
        "interleaved, with bystander chains inserted; min_distance = 0 or 0.1..0.6*max. "
        "Ties are excluded by construction in GENERATED cases: all in-range exit->entry squared distances pairwise distinct (two candidates at "
        "the same distance from one query site is the only situation in which the library's hit order decides: Props NoTies, "
        "nearestEntry_order_free), none equal to max^2 or to a positive min^2 (there the outcome hangs on the rounding of sqrt). "
        "COINCIDENCES are NOT ties and are generated in every run (14 % of the cases, 3/4 of them with min_distance = 0; corpus "
        "min_zero_coincidence): the exit site of a particle IS the entry site of another one, distance exactly 0, outside (min, max] for every "
        "min >= 0 - each site in at most one coincidence. "
        "A second/third tomogram holds a SINGLE particle in a third of the multi-tomogram cases (corpus single_particle_tomograms); 15 % of the "
        "cases lie 2^15..2^17 units from the origin, one offset per tomogram (27-bit coordinates: exact in float64, not in float32; corpus "
        "far_from_origin_float32); quick draws up to 60 particles in 5 % of its cases. "
        "SYMMETRIC STREAM (7 %): every exit site is the particle's own entry site (the geometry of trace_chains(df, df, ...), structure.py:87), "
        "filtered by noties() - literally Props NoTies plus the two boundary exclusions - instead of the stronger tie_free, so that "
        "d(i,j) = d(j,i) is allowed and the equality branch of first_dist <= nm_dist is taken; two thirds of these cases make the ALIASED "
        "call (one object is both lists; corpus aliased_relion_object, aliased_dataframe). "
        "POSITION/SHIFT SPLIT: half of the non-integer cases split every coordinate into x + shift_x: at floor(c), at floor(c) + k with "
        "k in -8..8 per cell (negative shifts, shifts >= 1), or - half of the far-from-origin cases - with the 2^15..2^17 offset in the shift "
        "column (27-bit shifts; corpus shift_columns_hold_offset). "
        "HAND-OVER: base Motl objects (9/21), bare DataFrames (4/21), EmMotl / RelionMotl / StopgapMotl objects (5/21: what Motl.load(path) "
        "gives real callers), paths of EM files written from the tables (3/21, where every value is float32-exact and no second in-place call "
        "follows; else EmMotl objects). "
        "INPUT FORMS (H3): 7 % all-integer lists passed as int64 columns (lengths in whole units, max/min as python int), row labels of the "
        "two DataFrames default / with gaps / in another order / repeated / different between entry and exit list (4 in 7 non-default), "
        "max/min_distance as python float, python int or numpy float64, free fields in units of 1/8 or of 1/100 (two decimals). "
        "The corpus case min_distance_tie_lattice puts a distance exactly at min_distance and one exactly at "
        "max_distance on an integer lattice (3-4-5 triangle), where the comparison is exact, and is judged by the statement's window (min, max]. "
        "OTHER FIELDS: every row of the entry list carries random values in the nine free fields (score, geom1, subtomo_mean, geom3, geom5, "
        "phi, psi, theta, class; 8 % of the rows all zero), stale object/order numbers and sometimes a value in the distance column; the exit "
        "list carries the same values or (30 %) its own; every returned row is compared, in all 17 fields other than the three store columns, "
        "bit for bit with the entry-list row of the same (tomogram, subtomo) by the Lean checker chkFields (clause particle-returned-unaltered); "
        "what comes back is recorded as it is (python type of every cell, dtype of every column): a cell that is not a number is a finding. "
        "CALL: min_distance is omitted in 60 % of the cases with min_distance = 0 (about a third of all; otherwise positional or keyword), "
        "feature='tomo_id' and output_motl=None are written out in 30 % / 15 % and omitted otherwise, the three store keywords are omitted in "
        "66 % (signature defaults act; anchored by defaults_documented), written out with the default names in 16 %; lists are passed as Motl "
        "objects or (20 %) as bare DataFrames. "
        "STORE COLUMNS (outside the statement, which is about object_id/geom2/geom4): in 12 % other names for store_idx1/store_idx2 with the "
        "default distance column - judged like every case but every finding is kind corr; in 6 % also a non-default store_dist - OBSERVED ONLY "
        "(histogram nondefault_store_dist): trace_chains forwards store_idx1/store_idx2 but not store_dist to add_chain_suffix/add_chain_prefix "
        "(anchor merge_calls_as_observed), so merge-link distances are read from and written to geom4 there. "
        "SECOND CALL (18 %): after the first call the harness checks that the caller's two lists are untouched, then either moves the sites in "
        "place in the caller's own lists (same tomogram ids, same subtomo ids: site pairs dealt out in another order + grid isometry) or changes "
        "max/min_distance, and calls again in the same process on the same objects; the second call is judged exactly like the first; every case "
        "starts from a freshly executed ribana module so that a finding replays from its file. "
        "A call gets 20 s of CPU time, always; one that runs out is repeated once and reported (does-not-return) only if it runs out again. "
        "non-trivial = >= 3 particles and at least one returned chain with >= 2 members (the histograms cases_with_branch and "
        "cases_with_chain_branch count the cases per model branch and per suffix+prefix combination of one merge; impl_branch is the "
        "branch sequence observed in the REAL add_chain_suffix/add_chain_prefix calls, compared with the model's on every case); "
        "distinct = distinct case content")
ASSUMPTIONS = [
    "sklearn.neighbors.KDTree.query_radius(p, r, return_distance=True, sort_results=True) = all points with distance <= r in ascending distance (brute force); compared against the model's argmin on every case",
    "numpy float64 arithmetic on the 2^-10 grid is exact for squared distances; sqrt is monotone and injective on the values that occur, so comparing distances = comparing their squares (recorded values are compared as |sqrt(model)-geom4| <= 1e-9)",
    "subtomo_id is unique within a tomogram (the code looks rows up by subtomo_id); min_distance >= 0 and max_distance > 0",
    "pandas: boolean-mask .loc assignment updates exactly the selected rows; concat keeps row order; get_motl_subset keeps row order",
    "'the particle' of the statement is the row of the ENTRY list (the list trace_chains copies its rows from); fields are compared as IEEE bit patterns after adding +0.0 (so -0.0 = 0.0); no NaN is generated",
    "the statement is about the default store columns object_id/geom2/geom4 (signature defaults, defaults_documented); other column names are exercised as correspondence / observation only",
]
TRUSTED = ["props/c19.py: decoding of the distance column to the exact squared distance on the grid (re-checked by sqrt), grouping of rows by tomogram, "
           "construction of the two input tables (_table, plain python) that the returned rows are compared with",
           "props/c19.py: _canon (positional renaming of parameters/locals to the documented names) and the syntax-tree digests of the four function bodies"]

RELFILE = "cryocat/ribana.py"
OPS = {ast.Lt: "lt", ast.LtE: "le", ast.Gt: "gt", ast.GtE: "ge", ast.Eq: "eq", ast.NotEq: "ne"}


# ------------------------------------------------------------------ translator
FLIP = {"lt": "gt", "le": "ge", "gt": "lt", "ge": "le", "eq": "eq", "ne": "ne"}
NEG = {ast.Lt: ast.GtE, ast.LtE: ast.Gt, ast.Gt: ast.LtE, ast.GtE: ast.Lt, ast.Eq: ast.NotEq, ast.NotEq: ast.Eq,
       ast.Is: ast.IsNot, ast.IsNot: ast.Is, ast.In: ast.NotIn, ast.NotIn: ast.In}


class _Cmp:
    """one comparison site `left OP right`, oriented the way the anchor asks for it"""
    def __init__(self, node, op, right):
        self.node, self.op, self.right, self.lineno = node, op, right, getattr(node, "lineno", 0)


def _compares(fn, left_txt, right_txt=None):
    """comparison sites `left_txt ? right_txt` in EITHER orientation (`a > b` and `b < a` are the same site; `_canon` has already
    rewritten `not (a > b)` to `a <= b`)"""
    out = []
    for n in ast.walk(fn):
        if isinstance(n, ast.Compare) and len(n.ops) == 1 and type(n.ops[0]) in OPS:
            l = core.norm_expr(n.left); r = core.norm_expr(n.comparators[0])
            op = OPS[type(n.ops[0])]
            if l == left_txt and (right_txt is None or r == right_txt):
                out.append(_Cmp(n, op, n.comparators[0]))
            elif r == left_txt and (right_txt is None or l == right_txt):
                out.append(_Cmp(n, FLIP[op], n.left))
    return out


def _one_op(fn, left, right, what, count=None, const_only=False):
    ns = [n for n in _compares(fn, left, right) if not const_only or isinstance(n.right, ast.Constant)]
    if not ns or (count is not None and len(ns) != count):
        raise core.AnchorMissing(f"{what}: expected {count or '>=1'} comparison(s) `{left} ? {right}`, found {len(ns)}"
                                 + (f" (at lines {[n.lineno for n in ns]})" if ns else ""))
    ops = {n.op for n in ns}
    if len(ops) != 1:
        raise core.AnchorMissing(f"{what}: the sites `{left} ? {right}` disagree: {sorted(ops)}")
    return ops.pop()


# documented parameter + local-variable names of the four functions, in binding order (parameters in signature order, then every local in
# the order of its first binding occurrence).  `_canon` renames the names found in the CURRENT source to these by POSITION, so every anchor
# below (written in the documented names) is insensitive to a renaming of parameters/local variables; a statement that is added, removed or
# moved changes the binding order or the digest of the whole body and is seen by `bodies_documented`.
DOC_NAMES = {
    "get_nn_dist": (["kdt", "query_point", "dist_max", "dist_min", "active_points", "test_value"], ["id_max", "dist", "rp_idx", "rp_dist"]),
    "add_chain_suffix": (["chain_df", "motl", "traced_df", "subtomo_id", "current_dist", "store_idx1", "store_idx2", "store_dist"],
                         ["particle_id", "temp_cl_id", "order_id", "previous_dist", "chain_max_order", "current_class"]),
    "add_chain_prefix": (["chain_df", "motl", "traced_df", "subtomo_id", "current_dist", "store_idx1", "store_idx2", "store_dist", "class_max"],
                         ["particle_id", "class_to_change", "order_id", "current_class", "cut_off_size", "previous_dist", "temp_cl_id"]),
    "trace_chains": (["motl_entry", "motl_exit", "max_distance", "min_distance", "feature", "output_motl", "store_idx1", "store_idx2", "store_dist"],
                     ["features1", "features2", "traced_motl", "f", "fm_entry", "fm_exit", "nfm_df", "fm_size", "remain_entry", "remain_exit",
                      "class_c", "coord_entry", "coord_exit", "kdt_entry", "kdt_exit", "i", "current_point", "ch_m", "chain_id", "trace_chain",
                      "p_idx", "used_idx", "p_coord", "np_idx", "np_dist", "first_coord", "nm_idx", "nm_dist", "first_idx", "first_dist",
                      "part1", "part2", "cl1", "cl2", "ch_changed", "class_max", "current_class", "cl_max"]),
}
FUNCS = ["get_nn_dist", "add_chain_suffix", "add_chain_prefix", "trace_chains"]
DOC_STORE = ["object_id", "geom2", "geom4"]
DOC_SUFFIX_CALL = ["ch_m", "fm_exit", "nfm_df", "first_idx", "first_dist", "store_idx1", "store_idx2"]
DOC_PREFIX_CALL = ["ch_m", "fm_entry", "nfm_df", "nm_idx", "nm_dist", "store_idx1", "store_idx2", "class_max=class_max"]
MSG = "<message>"
MESSAGE_CALLS = ("print", "warn", "debug", "info", "warning", "error", "critical", "exception", "log")


def _params(fn):
    a = fn.args
    return [x.arg for x in a.posonlyargs + a.args] + ([a.vararg.arg] if a.vararg else []) + [x.arg for x in a.kwonlyargs] \
        + ([a.kwarg.arg] if a.kwarg else [])


def _binding_order(fn):
    """(parameters, locals in the order of their first BINDING occurrence); every `_` store is a binding of its own (`_#k`: a discard
    never refers to an earlier one) and a later read of `_` means the latest of them"""
    params = _params(fn)
    names = sorted(((n.lineno, n.col_offset, n) for n in ast.walk(fn) if isinstance(n, ast.Name)), key=lambda t: t[:2])
    loc, k = [], 0
    for _, _, n in names:
        if n.id == "_" and "_" not in params:
            if isinstance(n.ctx, ast.Store):
                k += 1
            if k:
                n.id = f"_#{k}"
        if isinstance(n.ctx, ast.Store) and n.id not in params and n.id not in loc:
            loc.append(n.id)
    return params, loc


def _is_message_call(call):
    f = call.func
    name = f.id if isinstance(f, ast.Name) else f.attr if isinstance(f, ast.Attribute) else ""
    return name.endswith(("Error", "Exception", "Warning")) or name in MESSAGE_CALLS


class _Normalise(ast.NodeTransformer):
    """the edits that change no behaviour (H1): type annotations, docstrings, the TEXT of exception / warning / log / print messages;
    `not (a OP b)` is written `a NEGOP b` (the same decision for every pair of numbers: no NaN occurs among the distances compared)"""
    def visit_arg(self, n):
        n.annotation = None
        return n

    def _fn(self, n):
        n.returns = None
        self.generic_visit(n)
        if n.body and isinstance(n.body[0], ast.Expr) and isinstance(n.body[0].value, ast.Constant) and isinstance(n.body[0].value.value, str):
            n.body = n.body[1:] or [ast.Pass()]
        return n
    visit_FunctionDef = visit_AsyncFunctionDef = _fn

    def visit_AnnAssign(self, n):
        self.generic_visit(n)
        if n.value is None:
            return None
        return ast.copy_location(ast.Assign(targets=[n.target], value=n.value), n)

    def visit_Call(self, n):
        self.generic_visit(n)
        if _is_message_call(n):
            n.args = [ast.Constant(MSG) if isinstance(a, ast.JoinedStr) or (isinstance(a, ast.Constant) and isinstance(a.value, str)) else a
                      for a in n.args]
        return n

    def visit_UnaryOp(self, n):
        self.generic_visit(n)
        c = n.operand
        if isinstance(n.op, ast.Not) and isinstance(c, ast.Compare) and len(c.ops) == 1 and type(c.ops[0]) in NEG:
            return ast.copy_location(ast.Compare(left=c.left, ops=[NEG[type(c.ops[0])]()], comparators=c.comparators), n)
        return n


class _Orient(ast.NodeTransformer):
    """one spelling per comparison (applied AFTER the renaming, so that the order below does not depend on local names): `a > b` is
    written `b < a`, `a >= b` is `b <= a`, and the operands of `==` / `!=` are put in the order of their syntax-tree dumps"""
    def visit_Compare(self, n):
        self.generic_visit(n)
        if len(n.ops) == 1:
            a, b, op = n.left, n.comparators[0], n.ops[0]
            if isinstance(op, (ast.Gt, ast.GtE)):
                n.left, n.comparators, n.ops = b, [a], [ast.Lt() if isinstance(op, ast.Gt) else ast.LtE()]
            elif isinstance(op, (ast.Eq, ast.NotEq)) and ast.dump(b) < ast.dump(a):
                n.left, n.comparators = b, [a]
        return n


def _commuting_key(st):
    """`name[index] = <constant>`: (name, names used in the index) - two such statements on different arrays whose indices mention
    neither array commute"""
    if isinstance(st, ast.Assign) and len(st.targets) == 1 and isinstance(st.targets[0], ast.Subscript) \
            and isinstance(st.targets[0].value, ast.Name) and isinstance(st.value, ast.Constant):
        return st.targets[0].value.id, {x.id for x in ast.walk(st.targets[0].slice) if isinstance(x, ast.Name)}
    return None


def _sort_commuting(node):
    """adjacent, mutually independent constant stores into different arrays (`remain_entry[p] = False; remain_exit[p] = False`) are put
    in a fixed order: swapping them is not a change of behaviour"""
    for field in ("body", "orelse", "finalbody"):
        stmts = getattr(node, field, None)
        if not isinstance(stmts, list) or not stmts or not isinstance(stmts[0], ast.stmt):
            continue
        out, run = [], []

        def flush():
            names = [_commuting_key(x)[0] for x in run]
            used = set().union(*[_commuting_key(x)[1] for x in run]) if run else set()
            if len(run) > 1 and len(set(names)) == len(names) and not (used & set(names)):
                run.sort(key=lambda x: ast.dump(x.targets[0]))
            out.extend(run); del run[:]
        for st in stmts:
            if _commuting_key(st):
                run.append(st)
            else:
                flush(); out.append(st)
        flush()
        setattr(node, field, out)
        for st in out:
            _sort_commuting(st)
    for h in getattr(node, "handlers", []) or []:
        _sort_commuting(h)


def _statements(fn):
    """the statements of a function in source order (compound statements before their bodies)"""
    out = []

    def rec(stmts):
        for st in stmts:
            out.append(st)
            for field in ("body", "orelse", "finalbody"):
                sub = getattr(st, field, None)
                if isinstance(sub, list) and sub and isinstance(sub[0], ast.stmt):
                    rec(sub)
            for h in getattr(st, "handlers", []) or []:
                rec(h.body)
    rec(fn.body)
    return out


def _head(st):
    """a statement without its nested blocks (what `_stmt_digests` hashes for compound statements)"""
    import copy
    if any(isinstance(getattr(st, f, None), list) and getattr(st, f) and isinstance(getattr(st, f)[0], ast.stmt) for f in ("body", "orelse", "finalbody")):
        st = copy.copy(st)
        for f in ("body", "orelse", "finalbody"):
            if isinstance(getattr(st, f, None), list):
                setattr(st, f, [ast.Pass()] if getattr(st, f) else [])
        if getattr(st, "handlers", None):
            st.handlers = []
    return st


def _canon(fn):
    """copy of the function, normalised (`_Normalise`, `_sort_commuting`) and with parameters/locals renamed (by binding position) to the
    documented names; keyword names of calls, attributes, globals and builtins are left alone (they are API, not local naming).  Every
    statement remembers its original text and line (`_src`) for the diagnostics."""
    import copy
    fn = copy.deepcopy(fn)
    fn.decorator_list = []          # decorators are the framework's binding obligation (harness/decorators.json)
    fn = ast.fix_missing_locations(_Normalise().visit(fn))
    _sort_commuting(fn)
    for st in _statements(fn):
        try:
            st._src = (st.lineno, ast.unparse(_head(st)).split("\n")[0][:110])
        except Exception:
            st._src = (getattr(st, "lineno", 0), type(st).__name__)
    dp, dl = DOC_NAMES[fn.name]
    params, loc = _binding_order(fn)
    ren = {}
    for have, doc in ((params, dp), (loc, dl)):
        for k, nm in enumerate(have):
            ren[nm] = doc[k] if k < len(doc) else f"_extra{k}_{nm}"
    if len(set(ren.values())) != len(ren):
        raise core.AnchorMissing(f"{fn.name}: renaming to the documented names is not injective")
    for n in ast.walk(fn):
        if isinstance(n, ast.Name) and n.id in ren:
            n.id = ren[n.id]
        elif isinstance(n, ast.arg) and n.arg in ren:
            n.arg = ren[n.arg]
    return _Orient().visit(fn)


def _h(text, hexdigits):
    import hashlib
    return int(hashlib.sha256(text.encode()).hexdigest()[:hexdigits], 16)


def _digest(fn):
    return _h(ast.dump(fn, include_attributes=False), 15)


def _stmt_digests(fn):
    return [_h(ast.dump(_head(st), include_attributes=False), 8) for st in _statements(fn)]


def _first_difference(name, fn):
    """where the canonical body leaves the documented one: the ORIGINAL text and line of the first statement that differs"""
    got, want = _stmt_digests(fn), DOC_STMTS.get(name, [])
    sts = _statements(fn)
    k = next((i for i, (a, b) in enumerate(zip(got, want)) if a != b), min(len(got), len(want)))
    if k < len(sts):
        line, text = getattr(sts[k], "_src", (0, "?"))
        what = f"statement #{k + 1} (line {line}): `{text}`"
        if len(got) != len(want):
            what += f" - the function now has {len(got)} statements, documented {len(want)} (a statement was added, removed or moved here)"
    else:
        what = f"the function ends after {len(got)} statements, documented {len(want)}"
    if got == want:
        what = "the signature (parameter list / defaults) differs; all statements are the documented ones"
    return what


# first 60 bits of sha256(ast.dump) of the canonical function (pinned source = documented behaviour), and 32 bits per statement (used only
# to SAY where a body left the documented one); regenerate both with `python harness/props/c19.py --pin` after a reviewed source change
DOC_DIGEST = {"get_nn_dist": 1053225336426693692, "add_chain_suffix": 797955773933724064, "add_chain_prefix": 654672493014163097, "trace_chains": 703771148035791459}
DOC_STMTS = {
    "get_nn_dist": [598203922, 386834683, 4247707376, 1970421366, 795153781, 3655337472, 2322249682, 2817818743, 795153781, 41341619, 3101658266, 2817818743, 795153781, 1202893040],
    "add_chain_suffix": [4025989485, 3673189764, 2447650003, 3546049063, 2102560924, 3716562597, 300960261, 126586224, 3344031989, 2447650003, 3942858200, 2774071519, 2479278400, 1250882704],
    "add_chain_prefix": [4025989485, 3416593902, 1184218921, 300960261, 4290093041, 3587423916, 1688046492, 2102560924, 3432075589, 88355768, 2301813156, 2856430906, 75100751, 2301813156, 385666276, 647750314, 2921177528, 1522620345, 3318185765, 712110363, 3587423916, 3195738721, 40715951],
    "trace_chains": [4103463029, 1030781239, 2182142268, 3264356200, 959580664, 3986354281, 3588262425, 2247169354, 2495444196, 3398929445, 2427861931, 1716391557, 3427232504, 2621752142, 618523232, 2161726897, 4134213810, 1392530678, 2178886612, 4282582453, 1135367759, 1025378986, 3416076142, 343489244, 557529552, 1754431344, 1086304907, 1944639200, 37386759, 2396450039, 2504586115, 659180471, 3214803045, 1689619379, 2610722812, 4129274013, 1267025802, 299592184, 3497906487, 776297910, 2486635516, 1043350328, 4107557983, 2065645881, 1535898049, 1561311945, 2618181280, 427141853, 3540976909, 1283880863, 1427749306, 1824885914, 3219386583, 2112781308, 106223662, 1999657488, 433983445, 264832955, 3624077335, 1576009865, 2499062511, 2423700165, 2112781308, 106223662, 1999657488, 3293194405, 38310862, 918454776, 2594827503, 1278021872, 1947166046, 214029937, 4107557983, 1477840531, 859357182, 3943175248, 3045284863, 3949440750, 686553432, 2793767635, 634318412, 68032109, 3177393923, 2409178351],
}


def _defaults(fn):
    """parameter name -> literal default (positional/keyword parameters that have one)"""
    a = fn.args
    pos = a.posonlyargs + a.args
    out = {}
    for p, d in zip(pos[len(pos) - len(a.defaults):], a.defaults):
        out[p.arg] = ast.literal_eval(d)
    for p, d in zip(a.kwonlyargs, a.kw_defaults):
        if d is not None:
            out[p.arg] = ast.literal_eval(d)
    return out


def translate(src):
    A = src.anchor
    raw = lambda name: src.find(RELFILE, name)
    _memo = {}

    def canon(name):
        if name not in _memo:
            _memo[name] = _canon(raw(name))
        return _memo[name]
    nn = lambda: canon("get_nn_dist")
    sfx = lambda: canon("add_chain_suffix")
    pfx = lambda: canon("add_chain_prefix")
    tc = lambda: canon("trace_chains")

    seen_digest = {}

    def body_digest(name):
        d = seen_digest[name] = _digest(canon(name))
        if d != DOC_DIGEST[name]:
            raise core.AnchorMissing(f"{name}: the body (parameters/locals renamed to the documented names; comments, layout, annotations, "
                                     f"docstrings and message texts ignored) is not the documented one - first difference: "
                                     f"{_first_difference(name, canon(name))} [digest {d}, documented {DOC_DIGEST[name]}]")
        return d

    def public_params():
        """the keyword names the adapter (and every caller) uses are API: NOT renamed"""
        got = _params(raw("trace_chains"))
        if got != DOC_NAMES["trace_chains"][0]:
            raise core.AnchorMissing(f"trace_chains: parameter names {got}, documented {DOC_NAMES['trace_chains'][0]}")
        return got

    def tc_defaults():
        d = _defaults(raw("trace_chains"))
        want = dict(min_distance=0, feature="tomo_id", output_motl=None, store_idx1=DOC_STORE[0], store_idx2=DOC_STORE[1], store_dist=DOC_STORE[2])
        if d != want or any(type(d[k]) is not type(want[k]) for k in want):
            raise core.AnchorMissing(f"trace_chains: signature defaults {d}, documented {want}")
        return d

    def helper_defaults():
        out = []
        for name in ("add_chain_suffix", "add_chain_prefix"):
            d = _defaults(canon(name))
            st = [d.get("store_idx1"), d.get("store_idx2"), d.get("store_dist")]
            if st != DOC_STORE or (name == "add_chain_prefix" and ("class_max" not in d or d["class_max"] is not None)):
                raise core.AnchorMissing(f"{name}: signature defaults {d}, documented store columns {DOC_STORE} (and class_max=None)")
            out.append(st)
        return out

    def merge_call(callee, want):
        """how trace_chains calls add_chain_suffix / add_chain_prefix: positional arguments + keywords, in the documented names"""
        calls = [n for n in ast.walk(tc()) if isinstance(n, ast.Call) and isinstance(n.func, ast.Name) and n.func.id == callee]
        if len(calls) != 1:
            raise core.AnchorMissing(f"trace_chains: exactly one call of {callee} expected, found {len(calls)}")
        got = [core.norm_expr(a) for a in calls[0].args] + [f"{k.arg}={core.norm_expr(k.value)}" for k in calls[0].keywords]
        if got != want:
            raise core.AnchorMissing(f"trace_chains: {callee}({', '.join(got)}), documented ({', '.join(want)})")
        return got

    def nn_sorted():
        for n in ast.walk(nn()):
            if isinstance(n, ast.Call) and isinstance(n.func, ast.Attribute) and n.func.attr == "query_radius":
                kw = {k.arg: k.value for k in n.keywords}
                if isinstance(kw.get("sort_results"), ast.Constant) and isinstance(kw.get("return_distance"), ast.Constant):
                    if len(n.args) >= 2 and core.norm_expr(n.args[1]) == "dist_max":
                        return bool(kw["sort_results"].value) and bool(kw["return_distance"].value)
        raise core.AnchorMissing("get_nn_dist: kdt.query_radius(query_point, dist_max, return_distance=.., sort_results=..)")

    def nn_first():
        rets = [n for n in ast.walk(nn()) if isinstance(n, ast.Return) and isinstance(n.value, ast.Tuple)]
        txt = [core.norm_expr(r.value) for r in rets]
        if "(rp_idx[0],rp_dist[0])" not in txt:
            raise core.AnchorMissing(f"get_nn_dist: return rp_idx[0], rp_dist[0]; found {txt}")
        return all(t in ("(rp_idx[0],rp_dist[0])", "(-1,[])") for t in txt)

    def nn_min_always():
        """the two filters `rp_idx = rp_idx[rp_dist > dist_min]`, `rp_dist = rp_dist[rp_dist > dist_min]` and the tests they stand under:
        True = no test of dist_min (the lower bound holds for every min_distance, also 0), False = under `dist_min > 0` (the code before
        the repair: with min_distance = 0 a coinciding site passes at distance 0)"""
        fn = nn()
        found = []

        def rec(stmts, tests):
            for st in stmts:
                if isinstance(st, ast.Assign) and len(st.targets) == 1 and core.norm_expr(st.targets[0]) in ("rp_idx", "rp_dist") \
                        and core.norm_expr(st.value).replace("dist_min<rp_dist", "rp_dist>dist_min") \
                        == core.norm_expr(st.targets[0]) + "[rp_dist>dist_min]":
                    found.append((core.norm_expr(st.targets[0]), list(tests), st))
                if isinstance(st, ast.If):
                    t = core.norm_expr(st.test)
                    rec(st.body, tests + [t]); rec(st.orelse, tests + ["not:" + t])
                elif isinstance(st, (ast.For, ast.While, ast.With, ast.Try)):
                    raise core.AnchorMissing(f"get_nn_dist: unexpected compound statement at line {st.lineno}: `{getattr(st, '_src', (0, '?'))[1]}`")
        rec(fn.body, [])
        if sorted(f[0] for f in found) != ["rp_dist", "rp_idx"] or found[0][1] != found[1][1] or found[0][0] != "rp_idx":
            raise core.AnchorMissing(f"get_nn_dist: the filters rp_idx = rp_idx[rp_dist > dist_min]; rp_dist = rp_dist[rp_dist > dist_min] "
                                     f"(in this order, under the same tests): found {[(f[0], f[1]) for f in found]}")
        about_min = [t for t in found[0][1] if "dist_min" in t]
        if not about_min:
            return True
        if about_min in (["dist_min>0"], ["0<dist_min"]):
            return False
        raise core.AnchorMissing(f"get_nn_dist: the lower bound `rp_dist > dist_min` stands under the test(s) {about_min}: neither unconditional "
                                 f"nor the former `dist_min > 0`")

    def subsets_positional():
        """fm_entry/fm_exit = <list>.get_motl_subset(f, feature, reset_index=True): the helpers address rows by df.index[position]"""
        vals = []
        for n in ast.walk(tc()):
            if isinstance(n, ast.Assign) and len(n.targets) == 1 and core.norm_expr(n.targets[0]) in ("fm_entry", "fm_exit") \
                    and isinstance(n.value, ast.Call) and isinstance(n.value.func, ast.Attribute) and n.value.func.attr == "get_motl_subset":
                kw = {k.arg: k.value for k in n.value.keywords}
                r = kw.get("reset_index")
                vals.append((core.norm_expr(n.targets[0]), True if r is None else (r.value if isinstance(r, ast.Constant) else None)))
        if sorted(v[0] for v in vals) != ["fm_entry", "fm_exit"] or any(v[1] not in (True, False) for v in vals):
            raise core.AnchorMissing(f"trace_chains: fm_entry/fm_exit = ....get_motl_subset(..., reset_index=<bool>): found {vals}")
        return all(v[1] for v in vals)

    def tail_renumber():
        fn = sfx()
        for n in ast.walk(fn):
            if isinstance(n, ast.AugAssign) and "current_class" in core.norm_expr(n.target) and "store_idx2" in core.norm_expr(n.target):
                if isinstance(n.op, ast.Sub) and core.norm_expr(n.value) == "order_id":
                    return True
                raise core.AnchorMissing("add_chain_suffix: tail renumbering is neither `-= order_id` nor np.arange")
            if isinstance(n, ast.Assign) and "current_class" in core.norm_expr(n.targets[0]) and "store_idx2" in core.norm_expr(n.targets[0]) \
                    and "np.arange(1," in core.norm_expr(n.value):
                return False
        raise core.AnchorMissing("add_chain_suffix: tail renumbering statement")

    def prefix_first_const():
        ns = _compares(pfx(), "order_id")
        consts = {n.right.value for n in ns if isinstance(n.right, ast.Constant)}
        if len(consts) != 1:
            raise core.AnchorMissing(f"add_chain_prefix: order_id != <const>: {consts}")
        return int(consts.pop())

    def both_fresh():
        fn = tc()
        for n in ast.walk(fn):
            if isinstance(n, ast.If) and core.norm_expr(n.test) == "ch_changed":
                for k, st in enumerate(n.body):
                    if isinstance(st, ast.Assign) and core.norm_expr(st.targets[0]) == "current_class":
                        v = core.norm_expr(st.value)
                        if v == "class_c-1":
                            return False
                        nxt = n.body[k + 1] if k + 1 < len(n.body) else None
                        if v == "class_c" and isinstance(nxt, ast.AugAssign) and core.norm_expr(nxt.target) == "class_c" \
                                and isinstance(nxt.op, ast.Add) and core.norm_expr(nxt.value) == "1":
                            return True
                        raise core.AnchorMissing(f"trace_chains: current_class = {v} (neither class_c - 1 nor class_c; class_c += 1)")
        raise core.AnchorMissing("trace_chains: if ch_changed: current_class = ...")

    def resolve_ops():
        ns = _compares(tc(), "first_dist", "nm_dist")
        if len(ns) != 2:
            raise core.AnchorMissing(f"trace_chains: two comparisons first_dist ? nm_dist, found {len(ns)}")
        ns.sort(key=lambda n: n.lineno)
        return [n.op for n in ns]

    def const_assign(fn, name):
        vals = [n.value.value for n in ast.walk(fn) if isinstance(n, ast.Assign) and len(n.targets) == 1
                and core.norm_expr(n.targets[0]) == name and isinstance(n.value, ast.Constant) and isinstance(n.value.value, int)]
        if len(vals) != 1:
            raise core.AnchorMissing(f"{fn.name}: exactly one `{name} = <int>` expected, found {vals}")
        return int(vals[0])

    def aug_steps(fn, name):
        """all `name += <int>` statements: (count, common step)"""
        ns = [n for n in ast.walk(fn) if isinstance(n, ast.AugAssign) and core.norm_expr(n.target) == name]
        if not ns or not all(isinstance(n.op, ast.Add) and isinstance(n.value, ast.Constant) and isinstance(n.value.value, int) for n in ns):
            raise core.AnchorMissing(f"{fn.name}: `{name} += <int>` statements: {[ast.unparse(n) for n in ns]}")
        steps = {n.value.value for n in ns}
        if len(steps) != 1:
            raise core.AnchorMissing(f"{fn.name}: `{name} +=` with different steps {steps}")
        return len(ns), int(steps.pop())

    def both_min_len():
        ns = [n for n in _compares(tc(), "cl_max") if isinstance(n.right, ast.Constant)]
        if len(ns) != 1:
            raise core.AnchorMissing(f"trace_chains: one comparison cl_max ? <const>, found {len(ns)}")
        return ns[0].op, int(ns[0].right.value)

    def shifts(fn, wanted):
        """the `+=` statements on order-number columns, as normalised right-hand sides"""
        got = sorted(core.norm_expr(n.value) for n in ast.walk(fn) if isinstance(n, ast.AugAssign) and isinstance(n.op, ast.Add)
                     and "store_idx2" in core.norm_expr(n.target))
        if got != sorted(wanted):
            raise core.AnchorMissing(f"{fn.name}: order-number shifts {got}, documented {sorted(wanted)}")
        return True

    def head_marker():
        fn = pfx()
        marks = {n.value.operand.value for n in ast.walk(fn) if isinstance(n, ast.Assign) and "store_idx1" in core.norm_expr(n.targets[0])
                 and isinstance(n.value, ast.UnaryOp) and isinstance(n.value.op, ast.USub) and isinstance(n.value.operand, ast.Constant)}
        cmps = {core.norm_expr(n.right) for n in _compares(fn, "traced_df[store_idx1]") if n.op == "eq"
                and core.norm_expr(n.right).startswith("-")}
        if len(marks) != 1 or cmps != {"-" + str(next(iter(marks)))}:
            raise core.AnchorMissing(f"add_chain_prefix: temporary id of the cut-off head: assigned {marks}, compared {cmps}")
        return -int(marks.pop())

    v = {}
    v["classStart"] = A("trace_chains:class_c = 1", lambda: const_assign(tc(), "class_c"))
    v["orderStart"] = A("trace_chains:chain_id = 1", lambda: const_assign(tc(), "chain_id"))
    st = A("trace_chains:chain_id += 1 (once)", lambda: aug_steps(tc(), "chain_id")) or (1, 1)
    v["orderStepSites"], v["orderStep"] = st
    st = A("trace_chains:class_c += 1 (after every chain, and for the two-sided merge)", lambda: aug_steps(tc(), "class_c")) or (2, 1)
    v["classStepSites"], v["classStep"] = st
    bm = A("trace_chains:cl_max > 1", both_min_len) or ("gt", 1)
    v["bothMinLenCmp"], v["bothMinLen"] = bm
    v["suffixShiftDocumented"] = A("add_chain_suffix:chain_df[geom2] += chain_max_order", lambda: shifts(sfx(), ["chain_max_order"]))
    v["prefixShiftDocumented"] = A("add_chain_prefix:traced_df[geom2] += class_max - cut_off_size (both forms)",
                                   lambda: shifts(pfx(), ["class_max-cut_off_size", "class_max[0]-cut_off_size"]))
    v["cutOffInit"] = A("add_chain_prefix:cut_off_size = 0", lambda: const_assign(pfx(), "cut_off_size"))
    v["headMarker"] = A("add_chain_prefix:temporary id -1 of a head cut off in a two-sided merge", head_marker)
    v["nnSorted"] = A("get_nn_dist:query_radius sorted with distances", nn_sorted)
    v["nnTakesFirst"] = A("get_nn_dist:returns first of the sorted hits", nn_first)
    v["nnMaskCmp"] = A("get_nn_dist:active_points[id_max] == test_value", lambda: _one_op(nn(), "active_points[id_max]", "test_value", "get_nn_dist", 2))
    v["nnMinAlways"] = A("get_nn_dist:rp_dist > dist_min is applied under no test of dist_min", nn_min_always)
    v["subsetsPositional"] = A("trace_chains:per-tomogram subsets are taken with reset_index=True", subsets_positional)
    v["nnMinCmp"] = A("get_nn_dist:rp_dist > dist_min", lambda: _one_op(nn(), "rp_dist", "dist_min", "get_nn_dist", 2))
    v["suffixNotLast"] = A("add_chain_suffix:chain_max_order != order_id", lambda: _one_op(sfx(), "chain_max_order", "order_id", "add_chain_suffix", 1))
    v["suffixKeep"] = A("add_chain_suffix:previous_dist <= current_dist", lambda: _one_op(sfx(), "previous_dist", "current_dist", "add_chain_suffix", 1))
    v["suffixTailSel"] = A("add_chain_suffix:traced_df[store_idx2] > order_id", lambda: _one_op(sfx(), "traced_df[store_idx2]", "order_id", "add_chain_suffix", 1))
    v["tailByChainOrder"] = A("add_chain_suffix:tail renumbered by `-= order_id`", tail_renumber)
    v["prefixNotFirst"] = A("add_chain_prefix:order_id != 1", lambda: _one_op(pfx(), "order_id", None, "add_chain_prefix", 2, const_only=True))
    v["prefixFirstOrder"] = A("add_chain_prefix:first order number", prefix_first_const)
    v["prefixKeep"] = A("add_chain_prefix:previous_dist <= current_dist", lambda: _one_op(pfx(), "previous_dist", "current_dist", "add_chain_prefix", 1))
    v["prefixHeadSel"] = A("add_chain_prefix:traced_df[store_idx2] < order_id", lambda: _one_op(pfx(), "traced_df[store_idx2]", "order_id", "add_chain_prefix", 3))
    rs = A("trace_chains:first_dist <= nm_dist (single particle / same chain)", resolve_ops) or ["le", "le"]
    v["resolveSingle"], v["resolveSameChain"] = rs
    v["bothSidesFreshId"] = A("trace_chains:two-sided merge takes a fresh object id", both_fresh)
    # --- whole bodies (G5: every statement, also in branches no generated case executes: output_motl, the feature-set test)
    dig = [A(f"{name}:whole body, canonical names (digest)", (lambda name=name: body_digest(name))) for name in FUNCS]
    # --- signature defaults the statement's columns and the adapter's omitted keywords depend on (G1)
    A("trace_chains:parameter (keyword) names", public_params)
    tcd = A("trace_chains:defaults min_distance=0, feature='tomo_id', output_motl=None, store_idx1/2/dist", tc_defaults)
    hd = A("add_chain_suffix/add_chain_prefix:defaults of store_idx1/store_idx2/store_dist (and class_max=None)", helper_defaults)
    # --- how the three column names travel from trace_chains to the two merge helpers (item 2: store_dist is NOT forwarded)
    sc = A("trace_chains:add_chain_suffix(...) call arguments", lambda: merge_call("add_chain_suffix", DOC_SUFFIX_CALL))
    pc = A("trace_chains:add_chain_prefix(...) call arguments", lambda: merge_call("add_chain_prefix", DOC_PREFIX_CALL))

    doc = dict(nnSorted=True, nnTakesFirst=True, nnMaskCmp="eq", nnMinAlways=True, subsetsPositional=True, nnMinCmp="gt", suffixNotLast="ne", suffixKeep="le",
               suffixTailSel="gt", tailByChainOrder=True, prefixNotFirst="ne", prefixFirstOrder=1, prefixKeep="le", prefixHeadSel="lt",
               resolveSingle="le", resolveSameChain="le", bothSidesFreshId=True,
               classStart=1, orderStart=1, orderStepSites=1, orderStep=1, classStepSites=2, classStep=1, bothMinLenCmp="gt", bothMinLen=1,
               suffixShiftDocumented=True, prefixShiftDocumented=True, cutOffInit=0, headMarker=-1)
    lines = []
    for k, d in doc.items():
        x = v.get(k)
        if x is None:
            x = d  # the DOCUMENTED value; anchorsOk = false makes Props/C19 fail
        if isinstance(d, bool):
            lines.append(f"def {k} : Bool := {'true' if x else 'false'}")
        elif isinstance(d, int):
            lines.append(f"def {k} : Int := {int(x)}")
        else:
            lines.append(f"def {k} : Cmp := .{x}")
    # the digest found (0 when the function is missing); it does not enter the model, `bodies_documented` compares it
    lines.append("def bodyDigests : List Nat := [" + ", ".join(str(seen_digest.get(name, 0)) for name in FUNCS) + "]")
    tcd = tcd or dict(min_distance=0, feature="tomo_id", store_idx1=DOC_STORE[0], store_idx2=DOC_STORE[1], store_dist=DOC_STORE[2])
    lines.append(f"def minDistanceDefault : Int := {int(tcd['min_distance'])}")
    lines.append(f"def featureDefault : String := {core.lean_str(tcd['feature'])}")
    lines.append("def storeDefaults : List String := " + core.lean_str_list([tcd["store_idx1"], tcd["store_idx2"], tcd["store_dist"]]))
    lines.append("def helperStoreDefaults : List (List String) := [" + ", ".join(core.lean_str_list(x) for x in (hd or [DOC_STORE, DOC_STORE])) + "]")
    sc, pc = sc or DOC_SUFFIX_CALL, pc or DOC_PREFIX_CALL
    lines.append("def suffixCall : List String := " + core.lean_str_list(sc))
    lines.append("def prefixCall : List String := " + core.lean_str_list(pc))
    fwd = any("store_dist" in a for a in sc) and any("store_dist" in a for a in pc)
    lines.append(f"def storeDistForwarded : Bool := {'true' if fwd else 'false'}")
    body = "\n".join(lines)
    return f"""-- GENERATED by harness/props/c19.py from {RELFILE}; do not edit
namespace CryoCat.Gen.C19
inductive Cmp | lt | le | gt | ge | eq | ne
deriving DecidableEq, Repr
def anchorsOk : Bool := {"true" if src.ok else "false"}
{body}
end CryoCat.Gen.C19
"""


# ------------------------------------------------------------------ geometry helpers (integers, exact)
def _d2(a, b):
    return (a[0] - b[0]) ** 2 + (a[1] - b[1]) ** 2 + (a[2] - b[2]) ** 2


def _tomos(case):
    """tomogram ids in np.unique order and per tomogram the rows in list order"""
    ids = sorted({r[0] for r in case["rows"]})
    return ids, [[r for r in case["rows"] if r[0] == t] for t in ids]


def tie_free(case):
    """the outcome does not depend on rounding or on the library's order of equally distant hits: no exit->entry distance equal to max
    or to a POSITIVE min, all in-range distances pairwise distinct.  A distance of exactly 0 (an exit site that IS another particle's entry
    site) is no tie: numpy computes it exactly and the statement decides it (0 is outside (min, max] for every min >= 0); only two
    coincidences at one site would be (equal distances from one query point), so every site takes part in at most one."""
    hi, lo = case["max"] ** 2, case["min"] ** 2
    if case["max"] <= 0 or case["min"] < 0 or case["min"] >= case["max"]:
        return False
    keys = set()
    for r in case["rows"]:
        if (r[0], r[1]) in keys:
            return False
        keys.add((r[0], r[1]))
    for rows in _tomos(case)[1]:
        seen = set()
        zero_from, zero_to = set(), set()
        for i, a in enumerate(rows):
            for j, b in enumerate(rows):
                if i == j:
                    continue
                v = _d2(a[5:8], b[2:5])
                if v == 0:
                    if i in zero_from or j in zero_to:
                        return False
                    zero_from.add(i); zero_to.add(j)
                    continue
                if v == hi or v == lo:
                    return False
                if v <= 4 * hi:
                    if v in seen:
                        return False
                    seen.add(v)
    return True


def noties(case):
    """literally Props/C19 `NoTies`, per tomogram: no two ENTRY sites at the same in-window distance from one EXIT site and no two EXIT
    sites at the same in-window distance from one ENTRY site (window (min, max], squared) - plus the two boundary exclusions of tie_free
    (no distance between different particles equal to max or to a positive min).  Weaker than tie_free: equal distances from DIFFERENT
    query sites are allowed, so symmetric layouts (entry list == exit list: d(i,j) = d(j,i)) pass."""
    hi, lo = case["max"] ** 2, case["min"] ** 2
    if case["max"] <= 0 or case["min"] < 0 or case["min"] >= case["max"]:
        return False
    keys = {(r[0], r[1]) for r in case["rows"]}
    if len(keys) != len(case["rows"]):
        return False
    for rows in _tomos(case)[1]:
        for i, a in enumerate(rows):
            fwd, bwd = set(), set()
            for j, b in enumerate(rows):
                for v, seen in ((_d2(a[5:8], b[2:5]), fwd), (_d2(b[5:8], a[2:5]), bwd)):
                    if i != j and (v == hi or (lo > 0 and v == lo)):
                        return False
                    if lo < v <= hi:
                        if v in seen:
                            return False
                        seen.add(v)
    return True


def admissible(case):
    """the tie filter of a case: NoTies itself for the symmetric stream, the stronger tie_free everywhere else"""
    return noties(case) if case.get("sym") else tie_free(case)


# ------------------------------------------------------------------ generators
def _rvec(rng, length):
    while True:
        v = [rng.gauss(0, 1) for _ in range(3)]
        n = math.sqrt(sum(c * c for c in v))
        if n > 1e-6:
            return [c / n * length for c in v]


def _q(v):
    return [int(round(c * S)) for c in v]


def _rot(rng):
    ax = _rvec(rng, 1.0); a = rng.uniform(0, 2 * math.pi)
    c, s = math.cos(a), math.sin(a); x, y, z = ax
    return [[c + x * x * (1 - c), x * y * (1 - c) - z * s, x * z * (1 - c) + y * s],
            [y * x * (1 - c) + z * s, c + y * y * (1 - c), y * z * (1 - c) - x * s],
            [z * x * (1 - c) - y * s, z * y * (1 - c) + x * s, c + z * z * (1 - c)]]


def _app(R, v):
    return [sum(R[i][k] * v[k] for k in range(3)) for i in range(3)]


def g_random(rng, n, maxd):
    """random displacement: entries uniform in a box with ~1.5 neighbours in range, exit = entry + random vector"""
    L = maxd * max(1.5, (n * 2.8) ** (1 / 3.0))
    pts = []
    for _ in range(n):
        e = [rng.uniform(0, L) for _ in range(3)]
        x = [a + b for a, b in zip(e, _rvec(rng, rng.uniform(0.3, 2.0) * maxd))]
        pts.append((e, x))
    return pts


def g_walks(rng, n, maxd, mind):
    """polysome-like: chains whose exit->next entry step is inside (min,max]; row order shuffled"""
    pts = []
    L = maxd * max(3.0, (n * 6.0) ** (1 / 3.0))
    while len(pts) < n:
        k = min(n - len(pts), rng.randint(1, 8))
        e = [rng.uniform(0, L) for _ in range(3)]
        body = rng.uniform(0.5, 3.0) * maxd
        direction = _rvec(rng, 1.0)
        for _ in range(k):
            dv = _rvec(rng, 1.0)
            direction = [0.7 * a + 0.5 * b for a, b in zip(direction, dv)]
            nn = math.sqrt(sum(c * c for c in direction)); direction = [c / nn for c in direction]
            x = [a + body * b for a, b in zip(e, direction)]
            pts.append((e, x))
            step = rng.uniform(mind + 0.05 * (maxd - mind), maxd * (1.0 if rng.random() < 0.8 else 1.3))
            e = [a + b for a, b in zip(x, _rvec(rng, step))]
    rng.shuffle(pts)
    return pts


def g_dense(rng, n, maxd):
    """dense cluster: many candidates in range of every exit"""
    R = maxd * rng.uniform(0.8, 2.0) * max(1.0, (n / 6.0) ** (1 / 3.0))
    pts = []
    for _ in range(n):
        e = _rvec(rng, R * rng.random() ** (1 / 3.0))
        x = [a + b for a, b in zip(e, _rvec(rng, rng.uniform(0.1, 1.2) * maxd))]
        pts.append((e, x))
    return pts


def g_compete(rng, n, maxd):
    """several exits competing for the same entry, several entries for the same exit (hubs)"""
    pts = []
    hubs = [[rng.uniform(0, 6 * maxd) for _ in range(3)] for _ in range(max(1, n // 4))]
    for _ in range(n):
        h = rng.choice(hubs)
        if rng.random() < 0.5:
            e = [a + b for a, b in zip(h, _rvec(rng, rng.uniform(0.05, 0.5) * maxd))]
            x = [a + b for a, b in zip(rng.choice(hubs), _rvec(rng, rng.uniform(0.05, 0.6) * maxd))]
        else:
            e = [a + b for a, b in zip(h, _rvec(rng, rng.uniform(0.05, 0.6) * maxd))]
            x = [a + b for a, b in zip(e, _rvec(rng, rng.uniform(2, 10) * maxd))]
        pts.append((e, x))
    return pts


# arrangements at max_distance = 3 (entry, exit); row order = processing order
D18 = [((-6, 0, 0), (-60, 0, 0)), ((0, -20, 0), (0, 0, 0)), ((2, 0, 0), (2, 30, 0)), ((50, 50, 0), (3.5, -1, 0)),
       ((-2.9, 0, 0), (-5, 0, 0)), ((0, 2.5, 0), (0, 40, 0))]
DOUBLE_CUT = D18[:5] + [((100, 41, 0), (1, 41, 0)), ((1, 43.125, 0), (1, 80, 0)), ((0, 2.5, 0), (1, 41.5, 0))]
PREFIX_CUT = [((0, -20, 0), (0, 0, 0)), ((2, 0, 0), (2, 30, 0)), ((50, 50, 0), (3.5, -1, 0))]
SUFFIX_CASC = D18[1:4] + [((0.5, 2.6, 0), (0, 60, 0)), ((0, 2.2, 0), (20, 60, 0))]
# two-sided merges, one arrangement per combination of the suffix and the prefix branch:
#   D18        suffix attach to a chain end  + prefix attach to a chain start   (suffix-keep+both)
#   DOUBLE_CUT ... and tail cut + head cut                                       (suffix-cut+both-cut)
#   SK_BC      suffix attach to a chain end  + head cut (P freed by a prefix cut, then b1 lands between P and y2)
#   SC_B       tail cut + prefix attach to a chain start (F lands between P and the one-particle chain z1)
SK_BC = PREFIX_CUT + [((100, 0, 0), (100, 10, 0)), ((100, 12.25, 0), (100, 40, 0)), ((-2.9, 0, 0), (100, 11.125, 0))]
SC_B = D18[:5] + [((0, 42.25, 0), (0, 80, 0)), ((0, 2.5, 0), (0, 40, 0))]
CASCADES = [D18] + 4 * [DOUBLE_CUT] + 3 * [SK_BC] + 3 * [SC_B] + [PREFIX_CUT] + 3 * [SUFFIX_CASC]


def g_cascade(rng, n_extra):
    scale = rng.choice([1.0, 1.0, 0.5, 2.0, rng.uniform(0.3, 4.0)])
    maxd = 3.0 * scale
    pts = []
    # one arrangement, sometimes a second one far away whose rows are interleaved with the first (relative order kept)
    for k in range(2 if rng.random() < 0.5 else 1):
        base = rng.choice(CASCADES)
        R = _rot(rng) if rng.random() < 0.8 else [[1, 0, 0], [0, 1, 0], [0, 0, 1]]
        off = [rng.uniform(-50, 50) - 900 * scale * k for _ in range(3)]
        jit = rng.choice([0.0, 0.01, 0.03])
        tf = lambda p: [scale * a + o + rng.uniform(-jit, jit) * scale for a, o in zip(_app(R, list(p)), off)]
        arr = [(tf(e), tf(x)) for e, x in base]
        if k == 0:
            pts = arr
        else:
            slots = sorted(rng.randint(0, len(pts)) for _ in arr)
            for q, (slot, p) in enumerate(zip(slots, arr)):
                pts.insert(slot + q, p)
    # bystander chains far away, inserted at random positions (relative order of the arrangement is kept)
    far = [400 * scale + 100, 0, 0]
    extra = [([a + b for a, b in zip(e, far)], [a + b for a, b in zip(x, far)]) for e, x in
             (g_walks(rng, n_extra, maxd, 0.0) if rng.random() < 0.6 else g_dense(rng, n_extra, maxd))] if n_extra else []
    for p in extra:
        pts.insert(rng.randint(0, len(pts)), p)
    return pts, maxd


def _one_tomo(rng, tier):
    """-> (kind, pts, maxd, mind) with float coordinates"""
    k = rng.random()
    big = {"quick": 26, "thorough": 60, "search": 14}[tier]
    if tier == "quick" and rng.random() < 0.05:
        big = 60   # the bound the quantifier names is reached in every tier
    n = rng.randint(2, 8) if rng.random() < 0.3 else rng.randint(2, big)
    maxd = rng.choice([3.0, 1.0, 12.5, rng.uniform(0.5, 40.0)])
    mind = 0.0 if rng.random() < 0.5 else maxd * rng.uniform(0.1, 0.6)
    if k < 0.12:
        return "random", g_random(rng, n, maxd), maxd, mind
    if k < 0.30:
        return "walks", g_walks(rng, n, maxd, mind), maxd, mind
    if k < 0.47:
        return "dense", g_dense(rng, n, maxd), maxd, mind
    if k < 0.58:
        return "compete", g_compete(rng, n, maxd), maxd, mind
    pts, maxd = g_cascade(rng, rng.choice([0, 0, 2, 5, rng.randint(0, max(0, big - 16))]))
    return "cascade", pts, maxd, (0.0 if rng.random() < 0.7 else maxd * rng.uniform(0.02, 0.2))


def _coincide(rng, tomos):
    """item 1 of audit round 2: make the exit site of some particles BE the entry site of another particle of the same tomogram"""
    made = 0
    for pts in tomos:
        if len(pts) < 2 or rng.random() < 0.3:
            continue
        k = rng.choice([1, 1, 2, 3])
        exits = rng.sample(range(len(pts)), min(k, len(pts)))
        entries = rng.sample(range(len(pts)), min(k, len(pts)))
        for i, j in zip(exits, entries):
            if i != j:
                pts[i] = (pts[i][0], list(pts[j][0]))
                made += 1
    return made


def _build(rng, tier):
    kind, pts, maxd, mind = _one_tomo(rng, tier)
    tomos = [pts]
    kinds = [kind]
    nt = rng.choice([1, 1, 1, 2, 2, 3])
    while len(tomos) < nt and sum(len(t) for t in tomos) < 58:
        k2, p2, m2, _ = _one_tomo(rng, tier)
        if k2 == "cascade":
            continue  # one max_distance per call: the cascade fixes it
        room = 60 - sum(len(t) for t in tomos)
        sc = maxd / m2
        tomos.append([([c * sc for c in e], [c * sc for c in x]) for e, x in p2[:room]])
        kinds.append(k2)
    # a tomogram holding a SINGLE particle (2 particles in 2 tomograms is inside the quantifier)
    if len(tomos) > 1 and rng.random() < 0.35:
        t = rng.randrange(len(tomos)) if rng.random() < 0.3 else rng.randrange(1, len(tomos))
        if sum(len(x) for x in tomos) - len(tomos[t]) + 1 >= 2:
            tomos[t] = tomos[t][:1]
            kinds[t] += "1"
    tomos = [[(list(e), list(x)) for e, x in t] for t in tomos]
    flags = {}
    if rng.random() < 0.07:
        # symmetric stream (audit 3): every exit site IS the particle's own entry site - the geometry of trace_chains(df, df, ...) as
        # structure.py calls it; d(i,j) = d(j,i), so a single particle sees the same neighbour at the same distance on both sides and the
        # equality branch of `first_dist <= nm_dist` is taken.  Filtered by noties() (= Lean NoTies), which tie_free would never pass.
        flags["sym"] = True
        tomos = [[(e, list(e)) for e, _ in t] for t in tomos]
    if "sym" not in flags and rng.random() < 0.14 and _coincide(rng, tomos):
        flags["coincide"] = True
        if rng.random() < 0.75:
            mind = 0.0
    ints = rng.random() < 0.07 and sum(len(t) for t in tomos) <= 30
    if ints:
        # an all-integer particle list (a STAR/EM file holding whole numbers is read as int64): lengths x8, then rounded to whole units
        flags["ints"] = True
        maxd, mind = float(max(1, round(maxd * 8))), float(round(mind * 8))
        if mind >= maxd:
            mind = 0.0
        tomos = [[([float(round(c * 8)) for c in e], [float(round(c * 8)) for c in x]) for e, x in t] for t in tomos]
    elif rng.random() < 0.15:
        # coordinates that need more than 24 bits: far from the origin by 2^15..2^17 units per tomogram (exact in float64, not in float32)
        flags["far"] = True
        offs = []
        for t in tomos:
            off = [rng.choice([-1, 1]) * rng.randint(2 ** 15, 2 ** 17) for _ in range(3)]
            offs.append(off)
            for e, x in t:
                for k in range(3):
                    e[k] += off[k]; x[k] += off[k]
    tids = rng.sample(range(1, 400), len(tomos))
    if flags.get("far") and rng.random() < 0.5:
        # the offset sits in the SHIFT columns (x,y,z small, shift_* = 2^15..2^17 + fraction: 27 bits, exact in float64 only)
        flags["shiftoff"] = {str(tids[t]): offs[t] for t in range(len(tomos))}
    seq = [t for t, ps in enumerate(tomos) for _ in ps]
    if rng.random() < 0.6:
        rng.shuffle(seq)  # interleave tomograms; the order inside a tomogram is kept
    total = len(seq)
    uniq = rng.random() < 0.7
    gids = rng.sample(range(1, 10 * total + 10), total)
    cursor = [0] * len(tomos)
    rows = []
    for pos, t in enumerate(seq):
        e, x = tomos[t][cursor[t]]
        sid = gids[pos] if uniq else cursor[t] + 1
        cursor[t] += 1
        g4 = 0 if rng.random() < 0.9 else rng.choice([S // 2, 7 * S + S // 4, 3 * S])
        if ints:
            g4 = (g4 // S) * S
        rows.append([tids[t], sid] + _q(e) + _q(x) + [g4])
    split = (rng.random() < 0.5 and not ints) or "shiftoff" in flags
    if split and "shiftoff" not in flags and rng.random() < 0.6:
        flags["splitseed"] = rng.randint(1, 10 ** 6)   # x = floor(c) + k, k in -8..8 per cell: negative shifts and shifts >= 1
    return dict(gen="+".join(kinds), max=int(round(maxd * S)), min=int(round(mind * S)), rows=rows, split=split, **flags)


NONDEFAULT_COLS = ["geom1", "geom3", "geom5", "score", "subtomo_mean", "class"]


def _decorate(rng, case):
    """the axes that do not touch the geometry: payload of the other fields, how the call is written (G1), the store columns (item 2), a second call in the same process (G2)"""
    ints = bool(case.get("ints"))
    # the free fields in units of 1/8 (dyadic), 1/100 (decimal angles/scores with two decimals) or 1 (all-integer list)
    case["paydiv"] = 1 if ints else (100 if rng.random() < 0.35 else 8)
    for r in case["rows"]:
        if rng.random() < 0.08:
            pay = [0] * 9
        else:
            pay = [rng.choice([rng.randint(-2000, 2000), rng.randint(-40, 40) * 8, rng.randint(1, 9)]) for _ in range(9)]
        # stale object / order numbers in the input lists (tracing overwrites both): small ones collide with real numbers
        stale = [rng.choice([0, 0, -1, 1, 2, rng.randint(1, 70)]), rng.choice([0, 0, 1, 2, rng.randint(-3, 70)])]
        r.extend(pay + stale)
    case["xpay"] = rng.random() < 0.3            # the exit list carries its own values in the other fields
    # how the lists are handed over: base Motl objects, bare DataFrames, objects of the SUBCLASSES Motl.load(path) gives real callers
    # (EmMotl / RelionMotl / StopgapMotl), or paths of EM files written from the tables (decided below: needs float32-exact values)
    case["form"] = rng.choice(["motl"] * 9 + ["df"] * 4 + ["emmotl", "emmotl", "relion", "relion", "stopgap", "path", "path", "path"])
    if case.get("sym") and rng.random() < 0.65:
        # the ALIASED call trace_chains(obj, obj, ...): one object is both lists (structure.py:87)
        case["alias"] = True
        case["xpay"] = False
    # row labels of the two DataFrames (Motl(df) keeps them): default RangeIndex, gaps (rows were removed), another order (the list was
    # sorted), repeated labels (lists concatenated without ignore_index - what trace_chains itself returns), entry and exit labelled differently
    case["labels"] = rng.choice([None, None, None, "gaps", "shuffled", "dup", "differ"])
    if case.get("alias") and case["labels"] == "differ":
        case["labels"] = "gaps"
    if case["form"] == "path":
        # an EM file holds float32 and no row labels: the file form is used where the tables survive that unchanged
        case["labels"] = None
        if case["paydiv"] == 100:
            case["paydiv"] = 8
        if ints or not _f32_exact(case):
            case["form"] = "emmotl"
    # max/min_distance as python float, python int (whole numbers only) or numpy float64
    whole = case["max"] % S == 0 and case["min"] % S == 0
    case["num"] = rng.choice(["float", "float", "np64"] + (["int", "int"] if whole else []))
    call = {}
    if case["min"] == 0:
        call["min"] = "omit" if rng.random() < 0.6 else rng.choice(["pos", "kw"])
    else:
        call["min"] = rng.choice(["pos", "kw"])
    call["feature"] = rng.random() < 0.3         # feature="tomo_id" written out, else omitted (default)
    call["output_motl"] = rng.random() < 0.15    # output_motl=None written out
    k = rng.random()
    if k < 0.66:
        call["store"] = None                      # the three keywords omitted: the signature defaults are exercised
    elif k < 0.82:
        call["store"] = list(DOC_STORE)           # the defaults written out
    elif k < 0.94:
        a, b = rng.sample(NONDEFAULT_COLS, 2)
        call["store"] = [a, b, rng.choice(["geom4", None])]      # other index columns, default distance column
    else:
        a, b, c = rng.sample(NONDEFAULT_COLS, 3)
        call["store"] = [a, b, c]                 # non-default distance column: observation only (see RULE)
    case["call"] = call
    # G2: a second call in the same process with the SAME caller-owned lists
    k = rng.random()
    if k < 0.12:
        case["second"] = _moved(rng, case)
    elif k < 0.18:
        m2 = rng.choice([0, case["max"] // 8, case["max"] // 3])
        M2 = rng.choice([case["max"] // 2, case["max"] * 2, case["max"] + S // 2])
        sec = dict(how="rethreshold", rows=[list(r) for r in case["rows"]], max=M2, min=m2)
        if admissible(dict(case, **sec)):
            case["second"] = sec
    if case.get("second") and case["form"] == "path" and case["second"].get("how") == "moved":
        case["form"] = "emmotl"    # "the caller edits the same lists in place" has no meaning for files
    return case


def _f32_exact(case):
    import struct
    return all(struct.unpack("f", struct.pack("f", v))[0] == v for which in ("entry", "exit") for row in _table(case, which) for v in row)


def _moved(rng, case):
    """the same particles (tomogram ids, subtomo ids, all other fields) with MOVED sites: inside every tomogram the (entry, exit) site
    pairs are dealt out to the particles in another order and the whole tomogram is mirrored / axis-swapped / shifted on the grid
    (an isometry of the grid and a relabelling: tie-freeness is kept)"""
    ids, per = _tomos(case)
    new = {}
    for t, rows in zip(ids, per):
        perm = list(range(len(rows)))
        rng.shuffle(perm)
        if len(rows) > 1 and perm == sorted(perm):
            perm = perm[1:] + perm[:1]
        ax = rng.sample([0, 1, 2], 3)
        sg = [rng.choice([1, -1]) for _ in range(3)]
        off = [rng.randint(-20, 20) * S for _ in range(3)]
        tf = lambda p: [sg[k] * p[ax[k]] + off[k] for k in range(3)]
        for k, r in enumerate(rows):
            src = rows[perm[k]]
            new[(r[0], r[1])] = tf(src[2:5]) + tf(src[5:8])
    return dict(how="moved", rows=[r[:2] + new[(r[0], r[1])] + r[8:] for r in case["rows"]], max=case["max"], min=case["min"])


def generate(rng, tier, n):
    made = 0
    while made < n:
        case = _build(rng, tier)
        ok = admissible(case)
        tries = 0
        while not ok and tries < 8:  # re-jitter by a few grid steps (whole units in an all-integer list); coinciding sites move together
            step = S if case.get("ints") else 1
            moved = {}
            for r in case["rows"]:
                for lo in (2, 5):
                    site = (r[0],) + tuple(r[lo:lo + 3])
                    if site not in moved:
                        moved[site] = [c + step * rng.randint(-2, 2) for c in r[lo:lo + 3]]
                    r[lo:lo + 3] = moved[site]
            ok = admissible(case); tries += 1
        if not ok or not (2 <= len(case["rows"]) <= 60):
            continue
        made += 1
        yield _decorate(rng, case)


def _calls(case):
    """the library calls of one case, each as a self-contained single-call case"""
    first = {k: v for k, v in case.items() if k != "second"}
    out = [first]
    if case.get("second"):
        sec = case["second"]
        out.append(dict(first, rows=sec["rows"], max=sec["max"], min=sec["min"], how=sec.get("how", "moved")))
    return out


def shrink(case):
    rows = case["rows"]
    sec = case.get("second")

    def keep(pred):
        c = dict(case, rows=[r for r in rows if pred(r)])
        if sec:
            c["second"] = dict(sec, rows=[r for r in sec["rows"] if pred(r)])
        return c
    if sec:
        yield {k: v for k, v in case.items() if k != "second"}                        # the first call alone
        alone = dict({k: v for k, v in case.items() if k != "second"}, rows=sec["rows"], max=sec["max"], min=sec["min"])
        yield alone                                                                    # the second call alone (fresh process state)
    ids, per = _tomos(case)
    if len(ids) > 1:
        for t in ids:
            yield keep(lambda r, t=t: r[0] != t)
    if len(rows) > 2:
        h = len(rows) // 2
        first, last = {(r[0], r[1]) for r in rows[:h]}, {(r[0], r[1]) for r in rows[h:]}
        yield keep(lambda r: (r[0], r[1]) in first)
        yield keep(lambda r: (r[0], r[1]) in last)
        for r0 in rows:
            yield keep(lambda r, k=(r0[0], r0[1]): (r[0], r[1]) != k)
    if case.get("split"):
        yield dict(case, split=False)
    if case.get("form", "motl") != "motl":
        yield dict(case, form="motl")
    if case.get("labels"):
        yield dict(case, labels=None)
    if case.get("form") in ("emmotl", "relion", "stopgap", "path"):
        yield dict(case, form="motl")
    if case.get("splitseed"):
        yield {k: v for k, v in case.items() if k != "splitseed"}
    if case.get("ints"):
        yield dict(case, ints=False)
    if case.get("num", "float") != "float":
        yield dict(case, num="float")
    if case.get("paydiv", 8) == 100:
        yield dict(case, paydiv=8)
    if case.get("call"):
        c = dict(case)
        c.pop("call")
        yield c
    if case.get("xpay"):
        yield dict(case, xpay=False)
    if any(r[8] for r in rows):
        c = dict(case, rows=[r[:8] + [0] + r[9:] for r in rows])
        if sec:
            c["second"] = dict(sec, rows=[r[:8] + [0] + r[9:] for r in sec["rows"]])
        yield c
    if any(any(r[9:]) for r in rows):
        c = dict(case, rows=[r[:9] for r in rows])
        if sec:
            c["second"] = dict(sec, rows=[r[:9] for r in sec["rows"]])
        yield c
    if case["min"] != 0 and not sec:
        c = dict(case, min=0)
        if admissible(c):
            yield c


# ------------------------------------------------------------------ implementation
COLS = ["score", "geom1", "geom2", "subtomo_id", "tomo_id", "object_id", "subtomo_mean", "x", "y", "z",
        "shift_x", "shift_y", "shift_z", "geom3", "geom4", "geom5", "phi", "psi", "theta", "class"]
PAY_COLS = ["score", "geom1", "subtomo_mean", "geom3", "geom5", "phi", "psi", "theta", "class"]   # row[9:18], in units of 1/8
STALE_COLS = ["object_id", "geom2"]                                                                   # row[18:20]
COORD_COLS = ["x", "y", "z", "shift_x", "shift_y", "shift_z"]
XPAY_OFFSET = 4096.0   # what the exit list adds to every free field when it carries its own values


def _table(case, which):
    """the 20 columns of the entry ("entry") or exit ("exit") list of a single-call case, as python floats, rows in list order;
    written without pandas: this is also what the output rows are compared with"""
    if case.get("alias"):
        which = "entry"     # the aliased call: ONE table is both lists
    lo = 2 if which == "entry" else 5
    own = which == "exit" and case.get("xpay")
    out = []
    for r in case["rows"]:
        r = list(r) + [0] * (20 - len(r))
        d = dict.fromkeys(COLS, 0.0)
        c = [v / S for v in r[lo:lo + 3]]
        if case.get("split"):
            whole = [float(math.floor(v)) for v in c]
            if case.get("shiftoff"):
                whole = [w - o for w, o in zip(whole, case["shiftoff"][str(r[0])])]
            elif case.get("splitseed"):
                # position and shift are split anywhere, not at floor(c): shift in (-8, 9), a function of the case only
                whole = [w + ((case["splitseed"] * 31 + r[1] * 7 + r[0] * 13 + k * 3 + lo) % 17 - 8) for k, w in enumerate(whole)]
            d["x"], d["y"], d["z"] = whole
            d["shift_x"], d["shift_y"], d["shift_z"] = [a - b for a, b in zip(c, whole)]
        else:
            d["x"], d["y"], d["z"] = c
        d["tomo_id"], d["subtomo_id"] = float(r[0]), float(r[1])
        d["geom4"] = r[8] / S
        for k, name in enumerate(PAY_COLS):
            d[name] = r[9 + k] / float(case.get("paydiv", 8))
        for k, name in enumerate(STALE_COLS):
            d[name] = float(r[18 + k])
        if own:
            for name in PAY_COLS + STALE_COLS + ["geom4"]:
                d[name] += XPAY_OFFSET
        out.append([d[c] for c in COLS])
    return out


def _labels(case, which, n):
    """row labels of the caller's DataFrame (a function of the case only)"""
    how = case.get("labels")
    if how == "gaps":
        return [3 * i + 7 for i in range(n)]
    if how == "shuffled":
        return [(5 * i + 3) % n if math.gcd(5, n) == 1 else n - 1 - i for i in range(n)]
    if how == "dup":
        return [i // 2 for i in range(n)]
    if how == "differ" and which == "exit":
        return [100 + 2 * i for i in range(n)]
    return None


def _frame(case, which):
    import pandas as pd
    tab = _table(case, which)
    if case.get("ints") and all(float(v).is_integer() for row in tab for v in row):
        df = pd.DataFrame([[int(v) for v in row] for row in tab], columns=COLS, dtype="int64")
    else:
        df = pd.DataFrame(tab, columns=COLS, dtype=float)
    lab = _labels(case, which, len(tab))
    if lab is not None:
        df.index = lab
    return df


def _motl(case, lo):
    """(kept for replay tools) the entry (lo=2) / exit (lo=5) list as a Motl"""
    from cryocat import cryomotl
    return cryomotl.Motl(_frame(case, "entry" if lo == 2 else "exit"))


def _store(case):
    """(object column, order column, distance column, mode): mode 'default' = the statement's configuration, 'idx' = other index
    columns with the default distance column (judged against the model: corr), 'dist' = non-default distance column (observed only)"""
    st = (case.get("call") or {}).get("store")
    if not st:
        return DOC_STORE + ["default"]
    a, b, c = st[0], st[1], (st[2] or DOC_STORE[2])
    mode = "default" if [a, b, c] == DOC_STORE else "idx" if c == DOC_STORE[2] else "dist"
    return [a, b, c, mode]


def _call_args(case):
    call = case.get("call") or {"min": "pos"}

    def num(v):
        how = case.get("num", "float")
        if how == "int" and v % S == 0:
            return v // S
        if how == "np64":
            import numpy as np
            return np.float64(v / S)
        return v / S
    args, kw = [num(case["max"])], {}
    how = call.get("min", "pos")
    if how == "pos" or (how == "omit" and case["min"] != 0):
        args.append(num(case["min"]))
    elif how == "kw":
        kw["min_distance"] = num(case["min"])
    if call.get("feature"):
        kw["feature"] = "tomo_id"
    if call.get("output_motl"):
        kw["output_motl"] = None
    st = call.get("store")
    if st:
        for name, v in zip(("store_idx1", "store_idx2", "store_dist"), st):
            if v is not None:
                kw[name] = v
    return args, kw


CPU_LIMIT = 20     # CPU seconds granted to one trace_chains call (normal: < 1 s), ALWAYS; CPU time does not grow with the machine's load
WALL_LIMIT = 120   # wall-clock backstop for a call that blocks without burning CPU
_CONFIRMED = [0]   # calls of this process that did not return on two attempts in a row

EVENT_TAGS = ("suffix-keep", "suffix-cut", "suffix-reject", "prefix", "prefix-cut", "prefix-reject", "both", "both-cut")


def _watch_branches(ribana, events):
    """Wrap ribana.add_chain_suffix / add_chain_prefix (module globals looked up by trace_chains at call time) so that every
    call records which branch the REAL code took, observed from outside: return value, and whether rows of the table carry
    the id handed to a cut-off piece afterwards.  Bookkeeping failures record "?" and never disturb the call."""
    import inspect
    orig = {n: getattr(ribana, n) for n in ("add_chain_suffix", "add_chain_prefix")}

    def args_of(fn, a, k):
        b = inspect.signature(fn).bind(*a, **k)
        b.apply_defaults()
        return list(b.arguments.values())   # by POSITION: chain_df, motl, traced_df, subtomo_id, current_dist, idx1, idx2, dist[, class_max]

    def suffix(*a, **k):
        cls = None
        try:
            g = args_of(orig["add_chain_suffix"], a, k)
            cls = g[0][g[5]].values[0]
        except Exception:
            pass
        r = orig["add_chain_suffix"](*a, **k)
        try:
            if cls is None:
                events.append("?")
            elif not r:
                events.append("suffix-reject")
            else:
                events.append("suffix-cut" if bool((g[2][g[5]] == cls).any()) else "suffix-keep")
        except Exception:
            events.append("?")
        return r

    def prefix(*a, **k):
        piece, both = None, False
        try:
            g = args_of(orig["add_chain_prefix"], a, k)
            both = g[8] is not None
            piece = g[8][1] if both else g[0][g[5]].values[0]
        except Exception:
            pass
        r = orig["add_chain_prefix"](*a, **k)
        try:
            if piece is None:
                events.append("?")
            elif r is not None and r == -1:
                events.append("prefix-reject")
            else:
                cut = bool((g[2][g[5]] == piece).any())
                events.append(("both" if both else "prefix") + ("-cut" if cut else ""))
        except Exception:
            events.append("?")
        return r

    ribana.add_chain_suffix, ribana.add_chain_prefix = suffix, prefix
    return orig


class _DidNotReturn(BaseException):
    """raised by the timers; a BaseException so that no `except Exception` inside the library swallows it"""


def _in_cryocat(tb):
    import traceback
    where = ""
    for fr in traceback.extract_tb(tb):
        if "/cryocat/" in fr.filename.replace("\\", "/"):
            where = f"{fr.filename.replace(chr(92), '/').rsplit('/', 1)[-1]}:{fr.lineno}"
    return where


def _timed(fn):
    """run fn() under the CPU-time limit (SIGPROF) and the wall-clock backstop (SIGALRM) -> ("ok", value) | ("timeout", None) |
    ("raised", (text, where-in-cryocat or ""))"""
    import signal

    def expired(signum, frame):
        raise _DidNotReturn()
    old_a = signal.signal(signal.SIGALRM, expired)
    old_p = signal.signal(signal.SIGPROF, expired)
    signal.setitimer(signal.ITIMER_PROF, CPU_LIMIT)
    signal.alarm(WALL_LIMIT)
    try:
        return "ok", fn()
    except _DidNotReturn:
        return "timeout", None
    except Exception as e:
        return "raised", (f"{type(e).__name__}: {str(e)[:300]}", _in_cryocat(e.__traceback__))
    finally:
        signal.setitimer(signal.ITIMER_PROF, 0)
        signal.alarm(0)
        signal.signal(signal.SIGALRM, old_a)
        signal.signal(signal.SIGPROF, old_p)


def _frame_diff(before, after, name):
    """what a call did to a caller-owned list (G2): nothing is the only acceptable answer"""
    import numpy as np
    try:
        if list(after.columns) != list(before.columns):
            return f"{name}: columns changed to {list(after.columns)[:6]}..."
        if after.shape != before.shape or list(after.index) != list(before.index):
            return f"{name}: shape/index changed {before.shape} -> {after.shape}"
        if [str(t) for t in after.dtypes] != [str(t) for t in before.dtypes]:
            return f"{name}: column types changed"
        for c in before.columns:
            a, b = after[c].to_numpy(), before[c].to_numpy()
            bad = np.flatnonzero(~((a == b) | ((a != a) & (b != b))))
            if bad.size:
                return f"{name}: column {c} row {int(bad[0])}: {b[bad[0]]!r} -> {a[bad[0]]!r} ({bad.size} cells of this column)"
    except Exception as e:
        return f"{name}: cannot be compared after the call ({type(e).__name__}: {e})"
    return None


def _observe(out):
    """the returned list as it is: per row the 20 fields as IEEE bit patterns (numbers only), the column types, what is not a number"""
    import numbers
    df = out.df
    missing = [c for c in COLS if c not in df.columns]
    if missing:
        return {"malformed": f"returned table lacks the columns {missing}"}
    cols = {c: df[c].tolist() for c in COLS}     # python objects as pandas hands them out: no coercion
    n = len(df)
    rows, nonnum = [], []
    for i in range(n):
        row = []
        for c in COLS:
            v = cols[c][i]
            if isinstance(v, bool) or not isinstance(v, numbers.Real):
                nonnum.append([c, i, f"{type(v).__name__} {v!r}"[:60]])
                row.append(-1)
            else:
                row.append(f2b(float(v) + 0.0))
        rows.append(row)
    return {"rows": rows, "dtypes": {c: str(df[c].dtype) for c in COLS}, "nonnum": nonnum[:20]}


def _one_call(ribana, case, given, owned):
    """one trace_chains call on the caller's objects `given` (what is passed) whose tables are `owned` (entry, exit DataFrames)"""
    events, orig = [], {}
    args, kw = _call_args(case)
    obs = {}
    for attempt in (1, 2):
        before = [owned[0].copy(deep=True), owned[1].copy(deep=True)]
        del events[:]
        try:
            orig = _watch_branches(ribana, events)
        except Exception:
            orig, events = {}, None
        try:
            status, val = _timed(lambda: ribana.trace_chains(given[0], given[1], *args, **kw))
        finally:
            for n, f in orig.items():
                setattr(ribana, n, f)
        changed = [m for m in (_frame_diff(before[0], owned[0], "entry list"), _frame_diff(before[1], owned[1], "exit list")) if m]
        if status != "timeout":
            break
        if changed:   # the aborted call left the caller's lists half-edited: restore them for the second attempt
            for o, b in zip(owned, before):
                o.iloc[:, :] = b.values
        obs["retried"] = True
    if status == "timeout":
        _CONFIRMED[0] += 1
        obs.update(error=f"TimeoutError: trace_chains did not return within {CPU_LIMIT} s of CPU time on two attempts in a row "
                         f"({len(case['rows'])} particles)", where="ribana.py")
    elif status == "raised":
        text, where = val
        if where:
            obs.update(error=text, where=where)
        else:
            obs.update(harness_error=text)   # no frame inside cryocat: harness or third-party failure (G4)
    else:
        try:
            obs.update(_observe(val))
        except Exception as e:
            obs.update(harness_error=f"observation failed: {type(e).__name__}: {e}")
        obs["events"] = events
    obs["input_changed"] = changed
    return obs


def run_impl(case):
    """the real trace_chains, once or (G2) twice in this process on the same caller-owned lists; every failure mode becomes an
    observation: raised inside cryocat / raised elsewhere / did not return (confirmed on a second attempt) / returned table"""
    import importlib
    from cryocat import ribana, cryomotl
    try:
        # every case starts from a freshly executed ribana module: state the module keeps between calls (caches, counters) can leak
        # from the first to the second call of ONE case - where it is judged and replays deterministically - but never from one
        # case into the next (a finding on a single-call case would not reproduce from its replay file)
        ribana = importlib.reload(ribana)
    except Exception:
        pass
    calls = _calls(case)
    out = []
    owned = given = tmpdir = None
    for k, cc in enumerate(calls):
        if _CONFIRMED[0] >= 2:
            out.append({"skipped": "two calls of this process did not return (each confirmed on a second attempt); not run"})
            continue
        if k == 0:
            owned = [_frame(cc, "entry"), _frame(cc, "exit")]
            if cc.get("alias"):
                owned = [owned[0], owned[0]]          # ONE object is both lists
            form = cc.get("form", "motl")
            if form == "df":
                given = owned
            elif form == "path":
                import tempfile, os
                tmpdir = tempfile.mkdtemp(prefix="c19_")
                given = []
                for o, nm in zip(owned, ("entry.em", "exit.em")):
                    pth = os.path.join(tmpdir, nm)
                    if not (given and cc.get("alias")):
                        cryomotl.EmMotl(o.copy(deep=True)).write_out(pth)
                    given.append(given[0] if (given and cc.get("alias")) else pth)
            else:
                cls = {"motl": cryomotl.Motl, "emmotl": cryomotl.EmMotl, "relion": cryomotl.RelionMotl, "stopgap": cryomotl.StopgapMotl}[form]
                first = cls(owned[0])
                given = [first, first if cc.get("alias") else cls(owned[1])]
                if given[0].df is not owned[0] or given[1].df is not owned[1]:
                    owned = [given[0].df, given[1].df]
        elif cc.get("how") == "moved":
            # the caller edits the SAME lists in place (legitimately: the particles were re-positioned) and traces again
            for o, which in zip(owned, ("entry", "exit")):
                new = _frame(cc, which)
                for c in COORD_COLS:
                    o[c] = new[c].to_numpy()
        out.append(_one_call(ribana, cc, given, owned))
    if tmpdir:
        import shutil
        shutil.rmtree(tmpdir, ignore_errors=True)
    return {"calls": out}


def _decode(case, obs):
    """impl rows -> (tomogram number, position, obj, ord, squared distance on the grid) read from the three store columns, the full rows
    as (tomogram number, position, 20 bit patterns), plus problems seen on the way"""
    ids, per = _tomos(case)
    where = {}
    for t, rows in enumerate(per):
        for i, r in enumerate(rows):
            where[(r[0], r[1])] = (t, i)
    co, ck, cd, _ = _store(case)
    io, ik, idist, it, isub = (COLS.index(c) for c in (co, ck, cd, "tomo_id", "subtomo_id"))
    out, full, problems = [], [], []
    for row in obs["rows"]:
        if -1 in (row[it], row[isub], row[io], row[ik], row[idist]):
            problems.append("a row whose tomo_id/subtomo_id/object/order/distance cell is not a number"); continue
        t, s, o, k, g = (b2f(row[i]) for i in (it, isub, io, ik, idist))
        if not all(v == v and abs(v) < 1e15 and float(v).is_integer() for v in (t, s, o, k)):
            problems.append(f"row (tomo {t}, subtomo {s}): non-integral id/object/order number ({o}, {k})"); continue
        key = (int(t), int(s))
        if key not in where:
            problems.append(f"row (tomo {t}, subtomo {s}) is not an input particle"); continue
        # the recorded value as an exact squared distance on the grid; anything else (negative, NaN, off the grid) gets a code < 0 that
        # can never equal a squared distance: the checker then rejects it wherever the statement constrains the value (a chain's last
        # member keeps whatever the input list held in that column; the statement does not constrain it)
        # H4, tolerance of this decoding.  Legitimate value: the library computes the squared distance of two grid points exactly
        # (differences of <= 28-bit coordinates and their squares are exact in float64) and takes a correctly rounded sqrt, so
        # g = sqrt(d2)/S * (1 + e), |e| <= 2^-53.  Then (g*S)^2 = d2 * (1 + 3e'), and since a link is <= max_distance <= 320 units
        # (40 * 8 in all-integer lists) d2 <= 1.1e11 and the absolute error is <= 4e-5: round() returns d2 itself.  The test below accepts
        # g when it is within 1e-9 RELATIVE (at every size, also for g < 1) of sqrt(d2)/S: ~1e7 ulp of slack for a differently ordered float64 computation, and 60 times
        # BELOW a float32 ulp (6e-8), so a value that went through single precision is accepted only where it is exact.  An accepted g
        # stands for the integer d2, which the Lean checker compares with the exact squared distance of the pair: no second tolerance.
        v = g * S
        r2 = int(round(v * v)) if (g == g and 0 <= v < 1e12) else -1
        if r2 < 0 or abs(math.sqrt(r2) / S - g) > 1e-9 * g:   # purely relative (also below 1: a float32 round trip is 6e-8 relative at every size)
            r2 = -1 - abs(r2)
        out.append(list(where[key]) + [int(o), int(k), r2])
        full.append(list(where[key]) + list(row))
    return out, full, problems


def _tomo_req(case):
    ids, per = _tomos(case)
    return [[r[2:8] + [r[8] * r[8]] for r in rows] for rows in per]


def _entry_req(case):
    """per tomogram, per position: the 20 fields of the entry-list row as bit patterns"""
    tab = {(r[0], r[1]): [f2b(v + 0.0) for v in vals] for r, vals in zip(case["rows"], _table(case, "entry"))}
    ids, per = _tomos(case)
    return [[tab[(r[0], r[1])] for r in rows] for rows in per]


def _returned(co):
    return "rows" in co


def requests(case, obs):
    reqs = []
    if "calls" not in obs:
        return reqs
    for cc, co in zip(_calls(case), obs["calls"]):
        base = dict(max=cc["max"], min=cc["min"], tomos=_tomo_req(cc))
        reqs.append(dict(base, op="trace"))
        if _returned(co):
            out, full, _ = _decode(cc, co)
            reqs.append(dict(base, op="check", out=out, outp=full, entry=_entry_req(cc), store=_store(cc)[:3]))
    return reqs


def _explain(case, out):
    """human-readable independent evaluation of the three clauses (for the replay detail only)"""
    ids, per = _tomos(case)
    msgs = []
    hi, lo = case["max"] ** 2, case["min"] ** 2
    groups = {}
    for t, i, o, k, r2 in out:
        groups.setdefault((t, o), []).append((k, i, r2))
    for (t, o), ms in sorted(groups.items()):
        ks = sorted(k for k, _, _ in ms)
        if ks != list(range(1, len(ms) + 1)):
            msgs.append(f"tomo {ids[t]} object {o}: order numbers {ks} (members subtomo {[per[t][i][1] for _, i, _ in ms]})")
        byk = {k: (i, r2) for k, i, r2 in ms}
        for k, i, r2 in ms:
            if k + 1 in byk:
                j = byk[k + 1][0]
                v = _d2(per[t][i][5:8], per[t][j][2:5])
                if not (lo < v <= hi) or r2 != v:
                    msgs.append(f"tomo {ids[t]} object {o}: subtomo {per[t][i][1]} (order {k}) -> subtomo {per[t][j][1]} (order {k+1}): exit->entry distance "
                                f"{math.sqrt(v)/S:.4f}, window ({case['min']/S:.4f}, {case['max']/S:.4f}], recorded {math.sqrt(abs(r2))/S if r2 >= 0 else 'off-grid'}")
    return "; ".join(msgs[:4])


def _altered(case, full):
    """which returned rows differ from their entry-list row outside the three store columns (detail of the `fields` verdict)"""
    ids, per = _tomos(case)
    entry = _entry_req(case)
    skip = set(_store(case)[:3])
    msgs = []
    for row in full:
        t, i, vals = row[0], row[1], row[2:]
        want = entry[t][i]
        bad = [c for c, a, b in zip(COLS, vals, want) if c not in skip and a != b]
        if bad:
            c = bad[0]
            a, b = vals[COLS.index(c)], want[COLS.index(c)]
            msgs.append(f"tomo {ids[t]} subtomo {per[t][i][1]}: {c} is {b2f(a) if a >= 0 else 'not a number'}, the entry list holds {b2f(b)}"
                        + (f" (also {bad[1:5]})" if len(bad) > 1 else ""))
    return msgs


def _judge_call(case, co, rs):
    mode = _store(case)[3]
    if "skipped" in co:
        return []
    if "harness_error" in co:
        return [dict(kind="corr", clause="harness-or-library-raised", detail=co["harness_error"])]
    fs = []
    # outside the statement's configuration (non-default store columns) a finding is never more than a correspondence finding
    off = (lambda f: dict(f, kind="corr", clause="nondefault-store-columns/" + f["clause"])) if mode in ("dist", "idx") else (lambda f: f)
    if co.get("input_changed"):
        # the statement is silent about the caller's lists: a correspondence finding (the model copies, never edits), not a violation of a clause
        fs.append(dict(kind="corr", clause="caller-lists-unchanged", detail="; ".join(co["input_changed"])))
    if "error" in co:
        clause = "does-not-return" if co["error"].startswith("TimeoutError") else "raises"
        return fs + [off(dict(kind="spec", clause=clause, detail=co["error"] + " @" + co.get("where", "")))]
    if "malformed" in co:
        return fs + [off(dict(kind="spec", clause="every-particle-exactly-once", detail=co["malformed"]))]
    if mode == "dist":
        # non-default distance column: the returned table is outside the statement and observed in stats only (see RULE); a call that
        # raises, does not return or returns no table is reported above all the same
        return fs
    if co.get("nonnum"):
        fs.append(dict(kind="spec", clause="numeric-field-returned-as-text",
                       detail="; ".join(f"column {c} row {i}: {v}" for c, i, v in co["nonnum"][:4])))
    out, full, problems = _decode(case, co)
    if problems:
        fs.append(dict(kind="spec", clause="every-particle-exactly-once", detail="; ".join(problems[:3])))
    if len(rs) < 2:
        return fs + [dict(kind="corr", clause="driver-error", detail="no checker answer")]
    model, chk = rs[0], rs[1]
    if "error" in chk or "error" in model:
        return fs + [dict(kind="corr", clause="driver-error", detail=f"{model} {chk}"[:300])]
    if not chk["once"]:
        n_in = len(case["rows"])
        keys = [(t, i) for t, i, *_ in out]
        dup = sorted({k for k in keys if keys.count(k) > 1})
        fs.append(dict(kind="spec", clause="every-particle-exactly-once",
                       detail=f"{n_in} input particles, {len(out)} returned rows, duplicated (tomogram#, position) {dup[:5]}, missing {n_in - len(set(keys))}"))
    if not chk.get("fields", False):
        fs.append(dict(kind="spec", clause="particle-returned-unaltered",
                       detail="; ".join(_altered(case, full)[:3]) or "the field checker rejected the output"))
    if not chk["orders"]:
        fs.append(dict(kind="spec", clause="orders-1..k-per-chain", detail=_explain(case, out)))
    if not chk["dist"]:
        fs.append(dict(kind="spec", clause="consecutive-distance-window-and-recorded-value", detail=_explain(case, out)))
    # correspondence of the control flow: the real code went through the same suffix/prefix branches, in the same order
    ev = co.get("events")
    if ev is not None and "?" not in ev:
        mt = [t for tm in model["tomos"] for t in tm["tags"] if t in EVENT_TAGS]
        if ev != mt:
            k = next((i for i, (a, b) in enumerate(zip(ev, mt)) if a != b), min(len(ev), len(mt)))
            fs.append(dict(kind="corr", clause="impl-vs-model-branches",
                           detail=f"branch #{k}: impl {ev[k:k+4]} model {mt[k:k+4]} (impl {len(ev)} calls, model {len(mt)})"))
    # correspondence: same rows in the same order, per tomogram
    ids, per = _tomos(case)
    for t in range(len(ids)):
        mine = [r for r in out if r[0] == t]
        mrows = model["tomos"][t]["rows"]
        a = [(i, o, k) for _, i, o, k, _ in mine]
        b = [(i, o, k) for i, o, k, _ in mrows]
        if a != b:
            fs.append(dict(kind="corr", clause="impl-vs-model-rows", detail=f"tomo {ids[t]}: impl (pos,obj,ord) {a[:12]} model {b[:12]}"))
        elif any((x[4] if x[4] >= 0 else None) != y[3] for x, y in zip(mine, mrows)):
            fs.append(dict(kind="corr", clause="impl-vs-model-distance", detail=f"tomo {ids[t]}: recorded values differ: impl {[x[4] for x in mine][:12]} model {[y[3] for y in mrows][:12]}"))
    # types: the lists went in as float64 columns; anything else coming back is reported against the model's (float) columns
    fine = ("float64", "int64") if case.get("ints") else ("float64",)
    odd = {c: d for c, d in (co.get("dtypes") or {}).items() if d not in fine}
    if odd and not co.get("nonnum"):
        fs.append(dict(kind="corr", clause="column-types", detail=f"{'int64' if case.get('ints') else 'float64'} lists went in, returned column types {odd}"))
    if mode == "idx":
        # non-default index columns: outside the statement's configuration -> never more than a correspondence finding
        fs = [dict(f, kind="corr", clause="nondefault-store-columns/" + f["clause"]) for f in fs]
    return fs


def judge(case, obs, resps):
    if "calls" not in obs:
        # run_impl itself failed before/after the library calls (every library failure is caught per call): not the code under test
        return [dict(kind="corr", clause="harness-or-library-raised", detail=str(obs.get("error", obs))[:300] + " @" + str(obs.get("where", "")))]
    fs, pos = [], 0
    calls = _calls(case)
    for k, (cc, co) in enumerate(zip(calls, obs["calls"])):
        n = 2 if _returned(co) else 1
        rs = resps[pos:pos + n]
        pos += n
        for f in _judge_call(cc, co, rs):
            if k > 0:
                f = dict(f, detail=f"call #{k+1} in the same process on the same lists ({cc.get('how')}): " + f["detail"])
            fs.append(f)
    return fs


def classify(case, obs, finding):
    return None


MERGE_TAGS = {"suffix-keep", "suffix-cut", "suffix-reject", "prefix", "prefix-cut", "prefix-reject", "both", "both-cut", "resolve-one"}


def _tags(resps):
    """model branch tags of every trace response of the case (one per library call)"""
    return [t for r in (resps or []) if isinstance(r, dict) and "tomos" in r and "ok" not in r for tm in r["tomos"] for t in tm["tags"]]


def _combos(tags):
    """the branch taken by each completed chain: the suffix tag and the prefix tag of one two-sided merge are joined"""
    out, k = [], 0
    while k < len(tags):
        t = tags[k]
        if t in ("suffix-keep", "suffix-cut") and k + 1 < len(tags) and tags[k + 1] in ("both", "both-cut", "prefix-reject"):
            out.append(t + "+" + tags[k + 1]); k += 2
        elif t == "suffix-reject" and k + 1 < len(tags) and tags[k + 1] in ("prefix", "prefix-cut", "prefix-reject"):
            out.append(t + "+" + tags[k + 1]); k += 2
        else:
            out.append(t); k += 1
    return out


def _first_rows(case, obs):
    """(object, order) pairs of the first call's output in the statement's columns, [] when there is none"""
    try:
        co = obs["calls"][0]
        return [(o, k) for _, _, o, k, _ in _decode(_calls(case)[0], co)[0]] if _returned(co) else []
    except Exception:
        return []


def nontrivial(case, obs):
    ks = [k for _, k in _first_rows(case, obs)]
    return len(case["rows"]) >= 3 and any(k >= 2 for k in ks)


def stats(case, obs, resps):
    n = len(case["rows"])
    tags = [t for t in _tags(resps) if t != "skip"]
    call = case.get("call") or {}
    d = {"particles": "2-5" if n <= 5 else "6-12" if n <= 12 else "13-30" if n <= 30 else "31-60",
         "tomograms": len(_tomos(case)[0]), "generator": case.get("gen", "corpus").split("+"),
         "min_distance": "0" if case["min"] == 0 else ">0",
         "model_branch": tags, "cases_with_branch": sorted(set(tags) & MERGE_TAGS) or ["append-only"],
         "cases_with_chain_branch": sorted({t for r in (resps or []) if isinstance(r, dict) and "tomos" in r
                                            for tm in r["tomos"] for t in _combos([x for x in tm["tags"] if x != "skip"])}),
         "call_min_distance": call.get("min", "pos") if case.get("call") else "pos (corpus)",
         "call_feature_kw": "written" if call.get("feature") else "omitted (default)",
         "call_store_columns": "omitted (defaults)" if not call.get("store") else
         {"default": "defaults written out", "idx": "other index columns, distance column geom4 (judged corr)",
          "dist": "non-default distance column (observed only)"}[_store(case)[3]],
         "lists_passed_as": case.get("form", "motl"),
         "row_labels": case.get("labels") or "default",
         "aliased_call (one object is both lists)": "yes" if case.get("alias") else "no",
         "position_shift_split": "none" if not case.get("split") else "offset in shift columns" if case.get("shiftoff") else
         "floor + k, k in -8..8" if case.get("splitseed") else "floor",
         "column_dtype_in": "int64" if case.get("ints") else "float64",
         "distance_argument_type": case.get("num", "float"),
         "free_fields_unit": f"1/{case.get('paydiv', 8)}",
         "geometry_extras": [k for k in ("coincide", "far", "sym") if case.get(k)] or ["none"],
         "single_particle_tomograms": sum(1 for rows in _tomos(case)[1] if len(rows) == 1),
         "coinciding_exit_entry_pairs": sum(1 for rows in _tomos(case)[1] for i, a in enumerate(rows) for j, b in enumerate(rows)
                                            if i != j and a[5:8] == b[2:5]),
         "exit_list_other_fields": "own values" if case.get("xpay") else "same as entry list",
         "payload": "random" if any(any(r[9:]) for r in case["rows"]) else "zeros",
         "calls_in_process": "1" if not case.get("second") else "2 (" + case["second"].get("how", "moved") + ")"}
    pos = 0
    for k, (cc, co) in enumerate(zip(_calls(case), (obs.get("calls") or []))):
        nreq = 2 if _returned(co) else 1
        rs = (resps or [])[pos:pos + nreq]
        pos += nreq
        if co.get("retried"):
            d.setdefault("timeout_retried", []).append("second attempt returned" if "error" not in co else "confirmed")
        if _returned(co):
            out = _decode(cc, co)[0]
            sizes = {}
            for t, i, o, kk, g in out:
                sizes[(t, o)] = sizes.get((t, o), 0) + 1
            d.setdefault("chain_length", []).extend("1" if v == 1 else "2-3" if v <= 3 else "4-8" if v <= 8 else ">8" for v in sizes.values())
            ev = co.get("events")
            d.setdefault("impl_branch_trace", []).append("unavailable" if ev is None or "?" in ev else "compared")
            if ev:
                d.setdefault("impl_branch", []).extend(e for e in ev if e != "?")
            d.setdefault("returned_column_types", []).extend(sorted(set((co.get("dtypes") or {}).values())))
            if _store(cc)[3] == "dist" and len(rs) == 2 and "orders" in rs[1]:
                # item 2, observation only: trace_chains does not forward store_dist to the merge helpers
                same = all([(r[1], r[2], r[3]) for r in out if r[0] == t] == [(m[0], m[1], m[2]) for m in tm["rows"]]
                           for t, tm in enumerate(rs[0].get("tomos", [])))
                d.setdefault("nondefault_store_dist (observed only)", []).append(
                    f"once={rs[1]['once']} orders={rs[1]['orders']} distance-clause-in-named-column={rs[1]['dist']} chains=model:{same}")
        elif "error" in co:
            d.setdefault("impl_error", []).append(co["error"][:60])
        elif "harness_error" in co:
            d.setdefault("harness_error", []).append(co["harness_error"][:60])
        elif "skipped" in co:
            d.setdefault("skipped", []).append("after two confirmed non-returning calls")
    return d


def sample_view(case):
    return dict(gen=case.get("gen"), max_distance=case["max"] / S, min_distance=case["min"] / S, n=len(case["rows"]),
                call=case.get("call"), second_call=(case.get("second") or {}).get("how"),
                first_rows=[dict(tomo=r[0], subtomo=r[1], entry=[c / S for c in r[2:5]], exit=[c / S for c in r[5:8]], other=r[9:]) for r in case["rows"][:4]])


def probes(rng):
    """library assumption: KDTree.query_radius(sorted) = brute force on grid points"""
    import numpy as np
    import sklearn.neighbors as sn
    pts = np.array([[rng.randint(-4000, 4000) / S for _ in range(3)] for _ in range(60)])
    q = np.array([[rng.randint(-4000, 4000) / S for _ in range(3)]])
    r = 3.0
    idx, dist = sn.KDTree(pts).query_radius(q, r, return_distance=True, sort_results=True)
    d = np.sqrt(((pts - q) ** 2).sum(axis=1))
    brute = [int(i) for i in np.argsort(d, kind="stable") if d[i] <= r]
    ok = list(map(int, idx[0])) == brute and all(float(a) == float(d[i]) for a, i in zip(dist[0], brute))
    return [dict(name="KDTree.query_radius sorted = brute force, distances bit-equal to sqrt(sum of squares)", ok=bool(ok),
                 detail=f"{len(brute)} hits")]


LEVEL_TEXT = ("Lean 4 theorems about an executable model of trace_chains/get_nn_dist/add_chain_suffix/add_chain_prefix, for all inputs, sizes and "
              "distance functions: every particle is returned exactly once and chains stay inside their tomogram for every operator table "
              "(trace_partition, trace_partition_all, trace_no_span), and is returned AS ITSELF: the emitted row equals the entry-list row in every "
              "field but the three store columns, for every choice of these columns (trace_returns_particles, emit_other_fields); for the operator "
              "table read from the source (opts_documented, numbering_documented) the ORDER clause and the DISTANCE clause hold through ALL branches "
              "- append, suffix attach with/without tail cut, prefix attach with/without head cut, two-sided merge with/without either cut, rejected "
              "attachments - by the loop invariant ChainsWellNumbered + link invariant (trace_chains_well_numbered, trace_orders, trace_dist), hence "
              "the whole statement WITHOUT any hypothesis on the input (trace_spec_full : SpecFull - no exclusion of coinciding sites or of equal "
              "distances: get_nn_dist applies `dist > min_distance` for every min_distance, min_bound_unconditional); NoTies states exactly which "
              "inputs the generator leaves out and nearestEntry_order_free/nearestExit_order_free prove that on all others the first hit of the "
              "radius query is the model's choice whatever order the library lists its hits in; the verified checkers chainsOk (check_sound) and chkFields (check_fields_sound, "
              "check_fields_complete) are run on the implementation's output of every call; regression witnesses "
              "tailcut_roworder_counterexample, double_cut_shared_id_counterexample and min_zero_coincidence_counterexample (the former guard "
              "`elif dist_min > 0`: a coinciding site linked at distance 0) show the three repaired defects violate exactly these clauses")
LEVEL_NOTE = ("trusted: Lean kernel; translator anchors (34: 14 comparison/bookkeeping operators used by the model + 11 numbering "
              "constants/shift expressions the model hard-codes, all read from the functions after renaming parameters/locals to the documented "
              "names by binding position and normalising what changes no behaviour (type annotations, docstrings, message texts, `not (a > b)`, "
              "operand order of a comparison (`a > b` is hashed as `b < a`, `==`/`!=` operands in a fixed order: _Orient), order of adjacent independent "
              "constant stores); syntax-tree digests of the four whole function bodies (bodies_documented: every statement, also in "
              "branches no case executes); the signature defaults and keyword names (defaults_documented, store_documented); the argument lists "
              "of the two merge-helper calls (merge_calls_as_observed)); KD-tree radius query = brute force (probed); squared-distance decoding "
              "of the distance column in the harness; the model-to-code tie is the exact comparison of rows, recorded distances AND of the "
              "sequence of suffix/prefix branches taken by the real add_chain_suffix/add_chain_prefix calls on every generated case, first and "
              "second call in one process alike")
TECHNIQUE = "Lean 4 proof (loop invariant over relabellings of a well-numbered table, sound decidable checkers) + regenerated operator table and whole-body digests + exact differential correspondence (rows, fields and branch trace; repeated calls on caller-owned lists) on dyadic grids"
DESIGN_REF = "DESIGN.md section 4, C19"


if __name__ == "__main__":   # `python harness/props/c19.py --pin [repo]`: print DOC_DIGEST / DOC_STMTS of the source tree (after a REVIEWED change)
    import sys, os
    if "--pin" in sys.argv:
        repo = next((a for a in sys.argv[1:] if not a.startswith("--")), os.environ.get("CRYOCAT_REPO", "/repo"))
        tree = ast.parse(open(os.path.join(repo, RELFILE)).read())
        fns = {}
        for n in tree.body:
            if isinstance(n, ast.FunctionDef) and n.name in FUNCS:
                fns[n.name] = _canon(n)   # the last definition wins, as in Python
        print("DOC_DIGEST = {" + ", ".join(f'"{k}": {_digest(fns[k])}' for k in FUNCS) + "}")
        print("DOC_STMTS = {")
        for k in FUNCS:
            print(f'    "{k}": {_stmt_digests(fns[k])},')
        print("}")
