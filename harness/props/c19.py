"""C19 — chain tracing partitions particles into simple, distance-respecting chains (DESIGN.md section 4, C19).

case = {"gen": kind, "max": M, "min": m, "rows": [[tomo_id, subtomo_id, ex,ey,ez, xx,xy,xz, g4], ...]}
All lengths are integers in units of 2^-10 (S = 1024): entry site e, exit site x, max/min distance, the value g4
the input list carries in the distance column.  Rows are in particle-list row order (tomograms may interleave).
"""
import ast, math, itertools
import core
from core import f2b, b2f

PROP = "C19"
COUNT = {"quick": 250, "thorough": 6000, "search": 1500}
PARALLEL = True
S = 1024
RULE = ("paired entry/exit particle lists, 2..60 particles in 1..3 tomograms (rows of different tomograms interleaved, tomogram ids "
        "unsorted, subtomo ids globally unique or restarting per tomogram, coordinates split between x and shift_x), coordinates on "
        "the 2^-10 grid; five generators: random displacement, polysome-like random walks with shuffled row order, dense clusters, "
        "competing exits, and branch cascades: one hand-built arrangement per combination of the suffix and the prefix branch of a "
        "two-sided merge (D18: attach after a chain end + before a chain start; DOUBLE_CUT: tail cut + head cut; SK_BC: chain end + head "
        "cut; SC_B: tail cut + chain start) plus prefix-cut and suffix cascades, under random rotation/scale/jitter, alone or two of them "
        "interleaved, with bystander chains inserted; min_distance = 0 or 0.1..0.6*max. "
        "Ties are excluded by construction in GENERATED cases (all in-range exit->entry squared distances pairwise distinct, none equal to "
        "min^2, max^2 or 0); the corpus case min_distance_tie_lattice puts a distance exactly at min_distance and one exactly at "
        "max_distance on an integer lattice (3-4-5 triangle), where the comparison is exact, and is judged by the statement's window (min, max]. "
        "non-trivial = >= 3 particles and at least one returned chain with >= 2 members (the histograms cases_with_branch and "
        "cases_with_chain_branch count the cases per model branch and per suffix+prefix combination of one merge; impl_branch is the "
        "branch sequence observed in the REAL add_chain_suffix/add_chain_prefix calls, compared with the model's on every case); "
        "distinct = distinct case content")
ASSUMPTIONS = [
    "sklearn.neighbors.KDTree.query_radius(p, r, return_distance=True, sort_results=True) = all points with distance <= r in ascending distance (brute force); compared against the model's argmin on every case",
    "numpy float64 arithmetic on the 2^-10 grid is exact for squared distances; sqrt is monotone and injective on the values that occur, so comparing distances = comparing their squares (recorded values are compared as |sqrt(model)-geom4| <= 1e-9)",
    "subtomo_id is unique within a tomogram (the code looks rows up by subtomo_id); min_distance >= 0 and max_distance > 0",
    "pandas: boolean-mask .loc assignment updates exactly the selected rows; concat keeps row order; get_motl_subset keeps row order",
]
TRUSTED = ["props/c19.py: decoding of geom4 to the exact squared distance on the grid (re-checked by sqrt), grouping of rows by tomogram"]

RELFILE = "cryocat/ribana.py"
OPS = {ast.Lt: "lt", ast.LtE: "le", ast.Gt: "gt", ast.GtE: "ge", ast.Eq: "eq", ast.NotEq: "ne"}


# ------------------------------------------------------------------ translator
def _compares(fn, left_txt, right_txt=None):
    out = []
    for n in ast.walk(fn):
        if isinstance(n, ast.Compare) and len(n.ops) == 1:
            l = core.norm_expr(n.left); r = core.norm_expr(n.comparators[0])
            if l == left_txt and (right_txt is None or r == right_txt):
                out.append(n)
    return out


def _one_op(fn, left, right, what, count=None):
    ns = _compares(fn, left, right)
    if not ns or (count is not None and len(ns) != count):
        raise core.AnchorMissing(f"{what}: expected {count or '>=1'} comparison(s) `{left} ? {right}`, found {len(ns)}")
    ops = {OPS.get(type(n.ops[0])) for n in ns}
    if len(ops) != 1 or None in ops:
        raise core.AnchorMissing(f"{what}: sites disagree or unknown operator: {ops}")
    return ops.pop()


def translate(src):
    A = src.anchor
    nn = lambda: src.find(RELFILE, "get_nn_dist")
    sfx = lambda: src.find(RELFILE, "add_chain_suffix")
    pfx = lambda: src.find(RELFILE, "add_chain_prefix")
    tc = lambda: src.find(RELFILE, "trace_chains")

    def nn_sorted():
        for n in ast.walk(nn()):
            if isinstance(n, ast.Call) and isinstance(n.func, ast.Attribute) and n.func.attr == "query_radius":
                kw = {k.arg: k.value for k in n.keywords}
                if isinstance(kw.get("sort_results"), ast.Constant) and isinstance(kw.get("return_distance"), ast.Constant):
                    if len(n.args) >= 2 and core.norm_expr(n.args[1]) == "dist_max":
                        return bool(kw["sort_results"].value) and bool(kw["return_distance"].value)
        raise core.AnchorMissing("get_nn_dist: kdt.query_radius(query_point, dist_max, return_distance=.., sort_results=..)")

    def nn_first():
        rets = [n for n in ast.walk(nn()) if isinstance(n, ast.Return) and isinstance(n.value, ast.Tuple)]
        txt = [core.norm_expr(r.value) for r in rets]
        if "(rp_idx[0],rp_dist[0])" not in txt:
            raise core.AnchorMissing(f"get_nn_dist: return rp_idx[0], rp_dist[0]; found {txt}")
        return all(t in ("(rp_idx[0],rp_dist[0])", "(-1,[])") for t in txt)

    def tail_renumber():
        fn = sfx()
        for n in ast.walk(fn):
            if isinstance(n, ast.AugAssign) and "current_class" in core.norm_expr(n.target) and "store_idx2" in core.norm_expr(n.target):
                if isinstance(n.op, ast.Sub) and core.norm_expr(n.value) == "order_id":
                    return True
                raise core.AnchorMissing("add_chain_suffix: tail renumbering is neither `-= order_id` nor np.arange")
            if isinstance(n, ast.Assign) and "current_class" in core.norm_expr(n.targets[0]) and "store_idx2" in core.norm_expr(n.targets[0]) \
                    and "np.arange(1," in core.norm_expr(n.value):
                return False
        raise core.AnchorMissing("add_chain_suffix: tail renumbering statement")

    def prefix_first_const():
        ns = _compares(pfx(), "order_id")
        consts = {n.comparators[0].value for n in ns if isinstance(n.comparators[0], ast.Constant)}
        if len(consts) != 1:
            raise core.AnchorMissing(f"add_chain_prefix: order_id != <const>: {consts}")
        return int(consts.pop())

    def both_fresh():
        fn = tc()
        for n in ast.walk(fn):
            if isinstance(n, ast.If) and core.norm_expr(n.test) == "ch_changed":
                for k, st in enumerate(n.body):
                    if isinstance(st, ast.Assign) and core.norm_expr(st.targets[0]) == "current_class":
                        v = core.norm_expr(st.value)
                        if v == "class_c-1":
                            return False
                        nxt = n.body[k + 1] if k + 1 < len(n.body) else None
                        if v == "class_c" and isinstance(nxt, ast.AugAssign) and core.norm_expr(nxt.target) == "class_c" \
                                and isinstance(nxt.op, ast.Add) and core.norm_expr(nxt.value) == "1":
                            return True
                        raise core.AnchorMissing(f"trace_chains: current_class = {v} (neither class_c - 1 nor class_c; class_c += 1)")
        raise core.AnchorMissing("trace_chains: if ch_changed: current_class = ...")

    def resolve_ops():
        ns = _compares(tc(), "first_dist", "nm_dist")
        if len(ns) != 2:
            raise core.AnchorMissing(f"trace_chains: two comparisons first_dist ? nm_dist, found {len(ns)}")
        ns.sort(key=lambda n: n.lineno)
        return [OPS[type(n.ops[0])] for n in ns]

    def const_assign(fn, name):
        vals = [n.value.value for n in ast.walk(fn) if isinstance(n, ast.Assign) and len(n.targets) == 1
                and core.norm_expr(n.targets[0]) == name and isinstance(n.value, ast.Constant) and isinstance(n.value.value, int)]
        if len(vals) != 1:
            raise core.AnchorMissing(f"{fn.name}: exactly one `{name} = <int>` expected, found {vals}")
        return int(vals[0])

    def aug_steps(fn, name):
        """all `name += <int>` statements: (count, common step)"""
        ns = [n for n in ast.walk(fn) if isinstance(n, ast.AugAssign) and core.norm_expr(n.target) == name]
        if not ns or not all(isinstance(n.op, ast.Add) and isinstance(n.value, ast.Constant) and isinstance(n.value.value, int) for n in ns):
            raise core.AnchorMissing(f"{fn.name}: `{name} += <int>` statements: {[ast.unparse(n) for n in ns]}")
        steps = {n.value.value for n in ns}
        if len(steps) != 1:
            raise core.AnchorMissing(f"{fn.name}: `{name} +=` with different steps {steps}")
        return len(ns), int(steps.pop())

    def both_min_len():
        ns = [n for n in _compares(tc(), "cl_max") if isinstance(n.comparators[0], ast.Constant)]
        if len(ns) != 1:
            raise core.AnchorMissing(f"trace_chains: one comparison cl_max ? <const>, found {len(ns)}")
        return OPS[type(ns[0].ops[0])], int(ns[0].comparators[0].value)

    def shifts(fn, wanted):
        """the `+=` statements on order-number columns, as normalised right-hand sides"""
        got = sorted(core.norm_expr(n.value) for n in ast.walk(fn) if isinstance(n, ast.AugAssign) and isinstance(n.op, ast.Add)
                     and "store_idx2" in core.norm_expr(n.target))
        if got != sorted(wanted):
            raise core.AnchorMissing(f"{fn.name}: order-number shifts {got}, documented {sorted(wanted)}")
        return True

    def head_marker():
        fn = pfx()
        marks = {n.value.operand.value for n in ast.walk(fn) if isinstance(n, ast.Assign) and "store_idx1" in core.norm_expr(n.targets[0])
                 and isinstance(n.value, ast.UnaryOp) and isinstance(n.value.op, ast.USub) and isinstance(n.value.operand, ast.Constant)}
        cmps = {core.norm_expr(n.comparators[0]) for n in _compares(fn, "traced_df[store_idx1]") if isinstance(n.ops[0], ast.Eq)
                and core.norm_expr(n.comparators[0]).startswith("-")}
        if len(marks) != 1 or cmps != {"-" + str(next(iter(marks)))}:
            raise core.AnchorMissing(f"add_chain_prefix: temporary id of the cut-off head: assigned {marks}, compared {cmps}")
        return -int(marks.pop())

    v = {}
    v["classStart"] = A("trace_chains:class_c = 1", lambda: const_assign(tc(), "class_c"))
    v["orderStart"] = A("trace_chains:chain_id = 1", lambda: const_assign(tc(), "chain_id"))
    st = A("trace_chains:chain_id += 1 (once)", lambda: aug_steps(tc(), "chain_id")) or (1, 1)
    v["orderStepSites"], v["orderStep"] = st
    st = A("trace_chains:class_c += 1 (after every chain, and for the two-sided merge)", lambda: aug_steps(tc(), "class_c")) or (2, 1)
    v["classStepSites"], v["classStep"] = st
    bm = A("trace_chains:cl_max > 1", both_min_len) or ("gt", 1)
    v["bothMinLenCmp"], v["bothMinLen"] = bm
    v["suffixShiftDocumented"] = A("add_chain_suffix:chain_df[geom2] += chain_max_order", lambda: shifts(sfx(), ["chain_max_order"]))
    v["prefixShiftDocumented"] = A("add_chain_prefix:traced_df[geom2] += class_max - cut_off_size (both forms)",
                                   lambda: shifts(pfx(), ["class_max-cut_off_size", "class_max[0]-cut_off_size"]))
    v["cutOffInit"] = A("add_chain_prefix:cut_off_size = 0", lambda: const_assign(pfx(), "cut_off_size"))
    v["headMarker"] = A("add_chain_prefix:temporary id -1 of a head cut off in a two-sided merge", head_marker)
    v["nnSorted"] = A("get_nn_dist:query_radius sorted with distances", nn_sorted)
    v["nnTakesFirst"] = A("get_nn_dist:returns first of the sorted hits", nn_first)
    v["nnMaskCmp"] = A("get_nn_dist:active_points[id_max] == test_value", lambda: _one_op(nn(), "active_points[id_max]", "test_value", "get_nn_dist", 2))
    v["nnMinGuard"] = A("get_nn_dist:dist_min > 0", lambda: _one_op(nn(), "dist_min", "0", "get_nn_dist", 1))
    v["nnMinCmp"] = A("get_nn_dist:rp_dist > dist_min", lambda: _one_op(nn(), "rp_dist", "dist_min", "get_nn_dist", 2))
    v["suffixNotLast"] = A("add_chain_suffix:chain_max_order != order_id", lambda: _one_op(sfx(), "chain_max_order", "order_id", "add_chain_suffix", 1))
    v["suffixKeep"] = A("add_chain_suffix:previous_dist <= current_dist", lambda: _one_op(sfx(), "previous_dist", "current_dist", "add_chain_suffix", 1))
    v["suffixTailSel"] = A("add_chain_suffix:traced_df[store_idx2] > order_id", lambda: _one_op(sfx(), "traced_df[store_idx2]", "order_id", "add_chain_suffix", 1))
    v["tailByChainOrder"] = A("add_chain_suffix:tail renumbered by `-= order_id`", tail_renumber)
    v["prefixNotFirst"] = A("add_chain_prefix:order_id != 1", lambda: _one_op(pfx(), "order_id", None, "add_chain_prefix", 2))
    v["prefixFirstOrder"] = A("add_chain_prefix:first order number", prefix_first_const)
    v["prefixKeep"] = A("add_chain_prefix:previous_dist <= current_dist", lambda: _one_op(pfx(), "previous_dist", "current_dist", "add_chain_prefix", 1))
    v["prefixHeadSel"] = A("add_chain_prefix:traced_df[store_idx2] < order_id", lambda: _one_op(pfx(), "traced_df[store_idx2]", "order_id", "add_chain_prefix", 3))
    rs = A("trace_chains:first_dist <= nm_dist (single particle / same chain)", resolve_ops) or ["le", "le"]
    v["resolveSingle"], v["resolveSameChain"] = rs
    v["bothSidesFreshId"] = A("trace_chains:two-sided merge takes a fresh object id", both_fresh)

    doc = dict(nnSorted=True, nnTakesFirst=True, nnMaskCmp="eq", nnMinGuard="gt", nnMinCmp="gt", suffixNotLast="ne", suffixKeep="le",
               suffixTailSel="gt", tailByChainOrder=True, prefixNotFirst="ne", prefixFirstOrder=1, prefixKeep="le", prefixHeadSel="lt",
               resolveSingle="le", resolveSameChain="le", bothSidesFreshId=True,
               classStart=1, orderStart=1, orderStepSites=1, orderStep=1, classStepSites=2, classStep=1, bothMinLenCmp="gt", bothMinLen=1,
               suffixShiftDocumented=True, prefixShiftDocumented=True, cutOffInit=0, headMarker=-1)
    lines = []
    for k, d in doc.items():
        x = v.get(k)
        if x is None:
            x = d  # last-known value; anchorsOk = false makes Props/C19 fail
        if isinstance(d, bool):
            lines.append(f"def {k} : Bool := {'true' if x else 'false'}")
        elif isinstance(d, int):
            lines.append(f"def {k} : Int := {int(x)}")
        else:
            lines.append(f"def {k} : Cmp := .{x}")
    body = "\n".join(lines)
    return f"""-- GENERATED by harness/props/c19.py from {RELFILE}; do not edit
namespace CryoCat.Gen.C19
inductive Cmp | lt | le | gt | ge | eq | ne
deriving DecidableEq, Repr
def anchorsOk : Bool := {"true" if src.ok else "false"}
{body}
end CryoCat.Gen.C19
"""


# ------------------------------------------------------------------ geometry helpers (integers, exact)
def _d2(a, b):
    return (a[0] - b[0]) ** 2 + (a[1] - b[1]) ** 2 + (a[2] - b[2]) ** 2


def _tomos(case):
    """tomogram ids in np.unique order and per tomogram the rows in list order"""
    ids = sorted({r[0] for r in case["rows"]})
    return ids, [[r for r in case["rows"] if r[0] == t] for t in ids]


def tie_free(case):
    hi, lo = case["max"] ** 2, case["min"] ** 2
    if case["max"] <= 0 or case["min"] < 0 or case["min"] >= case["max"]:
        return False
    keys = set()
    for r in case["rows"]:
        if (r[0], r[1]) in keys:
            return False
        keys.add((r[0], r[1]))
    for rows in _tomos(case)[1]:
        seen = set()
        for i, a in enumerate(rows):
            for j, b in enumerate(rows):
                if i == j:
                    continue
                v = _d2(a[5:8], b[2:5])
                if v == 0 or v == hi or v == lo:
                    return False
                if v <= 4 * hi:
                    if v in seen:
                        return False
                    seen.add(v)
    return True


# ------------------------------------------------------------------ generators
def _rvec(rng, length):
    while True:
        v = [rng.gauss(0, 1) for _ in range(3)]
        n = math.sqrt(sum(c * c for c in v))
        if n > 1e-6:
            return [c / n * length for c in v]


def _q(v):
    return [int(round(c * S)) for c in v]


def _rot(rng):
    ax = _rvec(rng, 1.0); a = rng.uniform(0, 2 * math.pi)
    c, s = math.cos(a), math.sin(a); x, y, z = ax
    return [[c + x * x * (1 - c), x * y * (1 - c) - z * s, x * z * (1 - c) + y * s],
            [y * x * (1 - c) + z * s, c + y * y * (1 - c), y * z * (1 - c) - x * s],
            [z * x * (1 - c) - y * s, z * y * (1 - c) + x * s, c + z * z * (1 - c)]]


def _app(R, v):
    return [sum(R[i][k] * v[k] for k in range(3)) for i in range(3)]


def g_random(rng, n, maxd):
    """random displacement: entries uniform in a box with ~1.5 neighbours in range, exit = entry + random vector"""
    L = maxd * max(1.5, (n * 2.8) ** (1 / 3.0))
    pts = []
    for _ in range(n):
        e = [rng.uniform(0, L) for _ in range(3)]
        x = [a + b for a, b in zip(e, _rvec(rng, rng.uniform(0.3, 2.0) * maxd))]
        pts.append((e, x))
    return pts


def g_walks(rng, n, maxd, mind):
    """polysome-like: chains whose exit->next entry step is inside (min,max]; row order shuffled"""
    pts = []
    L = maxd * max(3.0, (n * 6.0) ** (1 / 3.0))
    while len(pts) < n:
        k = min(n - len(pts), rng.randint(1, 8))
        e = [rng.uniform(0, L) for _ in range(3)]
        body = rng.uniform(0.5, 3.0) * maxd
        direction = _rvec(rng, 1.0)
        for _ in range(k):
            dv = _rvec(rng, 1.0)
            direction = [0.7 * a + 0.5 * b for a, b in zip(direction, dv)]
            nn = math.sqrt(sum(c * c for c in direction)); direction = [c / nn for c in direction]
            x = [a + body * b for a, b in zip(e, direction)]
            pts.append((e, x))
            step = rng.uniform(mind + 0.05 * (maxd - mind), maxd * (1.0 if rng.random() < 0.8 else 1.3))
            e = [a + b for a, b in zip(x, _rvec(rng, step))]
    rng.shuffle(pts)
    return pts


def g_dense(rng, n, maxd):
    """dense cluster: many candidates in range of every exit"""
    R = maxd * rng.uniform(0.8, 2.0) * max(1.0, (n / 6.0) ** (1 / 3.0))
    pts = []
    for _ in range(n):
        e = _rvec(rng, R * rng.random() ** (1 / 3.0))
        x = [a + b for a, b in zip(e, _rvec(rng, rng.uniform(0.1, 1.2) * maxd))]
        pts.append((e, x))
    return pts


def g_compete(rng, n, maxd):
    """several exits competing for the same entry, several entries for the same exit (hubs)"""
    pts = []
    hubs = [[rng.uniform(0, 6 * maxd) for _ in range(3)] for _ in range(max(1, n // 4))]
    for _ in range(n):
        h = rng.choice(hubs)
        if rng.random() < 0.5:
            e = [a + b for a, b in zip(h, _rvec(rng, rng.uniform(0.05, 0.5) * maxd))]
            x = [a + b for a, b in zip(rng.choice(hubs), _rvec(rng, rng.uniform(0.05, 0.6) * maxd))]
        else:
            e = [a + b for a, b in zip(h, _rvec(rng, rng.uniform(0.05, 0.6) * maxd))]
            x = [a + b for a, b in zip(e, _rvec(rng, rng.uniform(2, 10) * maxd))]
        pts.append((e, x))
    return pts


# arrangements at max_distance = 3 (entry, exit); row order = processing order
D18 = [((-6, 0, 0), (-60, 0, 0)), ((0, -20, 0), (0, 0, 0)), ((2, 0, 0), (2, 30, 0)), ((50, 50, 0), (3.5, -1, 0)),
       ((-2.9, 0, 0), (-5, 0, 0)), ((0, 2.5, 0), (0, 40, 0))]
DOUBLE_CUT = D18[:5] + [((100, 41, 0), (1, 41, 0)), ((1, 43.125, 0), (1, 80, 0)), ((0, 2.5, 0), (1, 41.5, 0))]
PREFIX_CUT = [((0, -20, 0), (0, 0, 0)), ((2, 0, 0), (2, 30, 0)), ((50, 50, 0), (3.5, -1, 0))]
SUFFIX_CASC = D18[1:4] + [((0.5, 2.6, 0), (0, 60, 0)), ((0, 2.2, 0), (20, 60, 0))]
# two-sided merges, one arrangement per combination of the suffix and the prefix branch:
#   D18        suffix attach to a chain end  + prefix attach to a chain start   (suffix-keep+both)
#   DOUBLE_CUT ... and tail cut + head cut                                       (suffix-cut+both-cut)
#   SK_BC      suffix attach to a chain end  + head cut (P freed by a prefix cut, then b1 lands between P and y2)
#   SC_B       tail cut + prefix attach to a chain start (F lands between P and the one-particle chain z1)
SK_BC = PREFIX_CUT + [((100, 0, 0), (100, 10, 0)), ((100, 12.25, 0), (100, 40, 0)), ((-2.9, 0, 0), (100, 11.125, 0))]
SC_B = D18[:5] + [((0, 42.25, 0), (0, 80, 0)), ((0, 2.5, 0), (0, 40, 0))]
CASCADES = [D18] + 4 * [DOUBLE_CUT] + 3 * [SK_BC] + 3 * [SC_B] + [PREFIX_CUT] + 3 * [SUFFIX_CASC]


def g_cascade(rng, n_extra):
    scale = rng.choice([1.0, 1.0, 0.5, 2.0, rng.uniform(0.3, 4.0)])
    maxd = 3.0 * scale
    pts = []
    # one arrangement, sometimes a second one far away whose rows are interleaved with the first (relative order kept)
    for k in range(2 if rng.random() < 0.5 else 1):
        base = rng.choice(CASCADES)
        R = _rot(rng) if rng.random() < 0.8 else [[1, 0, 0], [0, 1, 0], [0, 0, 1]]
        off = [rng.uniform(-50, 50) - 900 * scale * k for _ in range(3)]
        jit = rng.choice([0.0, 0.01, 0.03])
        tf = lambda p: [scale * a + o + rng.uniform(-jit, jit) * scale for a, o in zip(_app(R, list(p)), off)]
        arr = [(tf(e), tf(x)) for e, x in base]
        if k == 0:
            pts = arr
        else:
            slots = sorted(rng.randint(0, len(pts)) for _ in arr)
            for q, (slot, p) in enumerate(zip(slots, arr)):
                pts.insert(slot + q, p)
    # bystander chains far away, inserted at random positions (relative order of the arrangement is kept)
    far = [400 * scale + 100, 0, 0]
    extra = [([a + b for a, b in zip(e, far)], [a + b for a, b in zip(x, far)]) for e, x in
             (g_walks(rng, n_extra, maxd, 0.0) if rng.random() < 0.6 else g_dense(rng, n_extra, maxd))] if n_extra else []
    for p in extra:
        pts.insert(rng.randint(0, len(pts)), p)
    return pts, maxd


def _one_tomo(rng, tier):
    """-> (kind, pts, maxd, mind) with float coordinates"""
    k = rng.random()
    big = {"quick": 26, "thorough": 60, "search": 14}[tier]
    n = rng.randint(2, 8) if rng.random() < 0.3 else rng.randint(2, big)
    maxd = rng.choice([3.0, 1.0, 12.5, rng.uniform(0.5, 40.0)])
    mind = 0.0 if rng.random() < 0.5 else maxd * rng.uniform(0.1, 0.6)
    if k < 0.12:
        return "random", g_random(rng, n, maxd), maxd, mind
    if k < 0.30:
        return "walks", g_walks(rng, n, maxd, mind), maxd, mind
    if k < 0.47:
        return "dense", g_dense(rng, n, maxd), maxd, mind
    if k < 0.58:
        return "compete", g_compete(rng, n, maxd), maxd, mind
    pts, maxd = g_cascade(rng, rng.choice([0, 0, 2, 5, rng.randint(0, max(0, big - 16))]))
    return "cascade", pts, maxd, (0.0 if rng.random() < 0.7 else maxd * rng.uniform(0.02, 0.2))


def _build(rng, tier):
    kind, pts, maxd, mind = _one_tomo(rng, tier)
    tomos = [pts]
    kinds = [kind]
    nt = rng.choice([1, 1, 1, 2, 2, 3])
    while len(tomos) < nt and sum(len(t) for t in tomos) < 58:
        k2, p2, m2, _ = _one_tomo(rng, tier)
        if k2 == "cascade":
            continue  # one max_distance per call: the cascade fixes it
        room = 60 - sum(len(t) for t in tomos)
        sc = maxd / m2
        tomos.append([([c * sc for c in e], [c * sc for c in x]) for e, x in p2[:room]])
        kinds.append(k2)
    tids = rng.sample(range(1, 400), len(tomos))
    seq = [t for t, ps in enumerate(tomos) for _ in ps]
    if rng.random() < 0.6:
        rng.shuffle(seq)  # interleave tomograms; the order inside a tomogram is kept
    total = len(seq)
    uniq = rng.random() < 0.7
    gids = rng.sample(range(1, 10 * total + 10), total)
    cursor = [0] * len(tomos)
    rows = []
    for pos, t in enumerate(seq):
        e, x = tomos[t][cursor[t]]
        sid = gids[pos] if uniq else cursor[t] + 1
        cursor[t] += 1
        g4 = 0 if rng.random() < 0.9 else rng.choice([S // 2, 7 * S + S // 4, 3 * S])
        rows.append([tids[t], sid] + _q(e) + _q(x) + [g4])
    return dict(gen="+".join(kinds), max=int(round(maxd * S)), min=int(round(mind * S)), rows=rows, split=rng.random() < 0.5)


def generate(rng, tier, n):
    made = 0
    while made < n:
        case = _build(rng, tier)
        ok = tie_free(case)
        tries = 0
        while not ok and tries < 8:  # re-jitter by one grid step
            for r in case["rows"]:
                for k in range(2, 8):
                    r[k] += rng.randint(-2, 2)
            ok = tie_free(case); tries += 1
        if not ok or not (2 <= len(case["rows"]) <= 60):
            continue
        made += 1
        yield case


def shrink(case):
    rows = case["rows"]
    ids, per = _tomos(case)
    if len(ids) > 1:
        for t in ids:
            yield dict(case, rows=[r for r in rows if r[0] != t])
    if len(rows) > 2:
        h = len(rows) // 2
        yield dict(case, rows=rows[:h])
        yield dict(case, rows=rows[h:])
        for i in range(len(rows)):
            yield dict(case, rows=rows[:i] + rows[i + 1:])
    if case.get("split"):
        yield dict(case, split=False)
    if any(r[8] for r in rows):
        yield dict(case, rows=[r[:8] + [0] for r in rows])
    if case["min"] != 0:
        c = dict(case, min=0)
        if tie_free(c):
            yield c


# ------------------------------------------------------------------ implementation
COLS = ["score", "geom1", "geom2", "subtomo_id", "tomo_id", "object_id", "subtomo_mean", "x", "y", "z",
        "shift_x", "shift_y", "shift_z", "geom3", "geom4", "geom5", "phi", "psi", "theta", "class"]


def _motl(case, lo):
    import numpy as np, pandas as pd
    from cryocat import cryomotl
    rows = case["rows"]
    df = pd.DataFrame(0.0, index=range(len(rows)), columns=COLS)
    c = np.array([r[lo:lo + 3] for r in rows], dtype=float) / S
    if case.get("split"):
        whole = np.floor(c)
        df[["x", "y", "z"]] = whole
        df[["shift_x", "shift_y", "shift_z"]] = c - whole
    else:
        df[["x", "y", "z"]] = c
    df["tomo_id"] = [float(r[0]) for r in rows]
    df["subtomo_id"] = [float(r[1]) for r in rows]
    df["geom4"] = [r[8] / S for r in rows]
    return cryomotl.Motl(df)


_LIMIT = [20]  # seconds granted to one trace_chains call (normal: < 1 s); 2 s once a call has run into the limit


EVENT_TAGS = ("suffix-keep", "suffix-cut", "suffix-reject", "prefix", "prefix-cut", "prefix-reject", "both", "both-cut")


def _watch_branches(ribana, events):
    """Wrap ribana.add_chain_suffix / add_chain_prefix (module globals looked up by trace_chains at call time) so that every
    call records which branch the REAL code took, observed from outside: return value, and whether rows of the table carry
    the id handed to a cut-off piece afterwards.  Bookkeeping failures record "?" and never disturb the call."""
    import inspect
    orig = {n: getattr(ribana, n) for n in ("add_chain_suffix", "add_chain_prefix")}

    def args_of(fn, a, k):
        b = inspect.signature(fn).bind(*a, **k)
        b.apply_defaults()
        return b.arguments

    def suffix(*a, **k):
        cls = None
        try:
            g = args_of(orig["add_chain_suffix"], a, k)
            cls = g["chain_df"][g["store_idx1"]].values[0]
        except Exception:
            pass
        r = orig["add_chain_suffix"](*a, **k)
        try:
            if cls is None:
                events.append("?")
            elif not r:
                events.append("suffix-reject")
            else:
                events.append("suffix-cut" if bool((g["traced_df"][g["store_idx1"]] == cls).any()) else "suffix-keep")
        except Exception:
            events.append("?")
        return r

    def prefix(*a, **k):
        piece, both = None, False
        try:
            g = args_of(orig["add_chain_prefix"], a, k)
            both = g["class_max"] is not None
            piece = g["class_max"][1] if both else g["chain_df"][g["store_idx1"]].values[0]
        except Exception:
            pass
        r = orig["add_chain_prefix"](*a, **k)
        try:
            if piece is None:
                events.append("?")
            elif r is not None and r == -1:
                events.append("prefix-reject")
            else:
                cut = bool((g["traced_df"][g["store_idx1"]] == piece).any())
                events.append(("both" if both else "prefix") + ("-cut" if cut else ""))
        except Exception:
            events.append("?")
        return r

    ribana.add_chain_suffix, ribana.add_chain_prefix = suffix, prefix
    return orig


def run_impl(case):
    """the real trace_chains; a call that does not return (a broken loop may cycle for ever) becomes an error observation"""
    import signal
    from cryocat import ribana
    events, orig = [], {}
    try:
        orig = _watch_branches(ribana, events)
    except Exception:
        events = None

    def _expired(signum, frame):
        _LIMIT[0] = 2
        raise TimeoutError(f"trace_chains did not return within the time limit ({len(case['rows'])} particles)")

    old = signal.signal(signal.SIGALRM, _expired)
    signal.alarm(_LIMIT[0])
    try:
        out = ribana.trace_chains(_motl(case, 2), _motl(case, 5), case["max"] / S, case["min"] / S)
    finally:
        signal.alarm(0)
        signal.signal(signal.SIGALRM, old)
        for n, f in orig.items():
            setattr(ribana, n, f)
    df = out.df
    res = []
    for t, s, o, k, g in zip(df["tomo_id"], df["subtomo_id"], df["object_id"], df["geom2"], df["geom4"]):
        res.append([float(t), float(s), float(o), float(k), f2b(float(g))])
    return {"rows": res, "events": events}


def _decode(case, obs):
    """impl rows -> (tomogram number, position, obj, ord, squared distance on the grid), plus problems seen on the way"""
    ids, per = _tomos(case)
    where = {}
    for t, rows in enumerate(per):
        for i, r in enumerate(rows):
            where[(r[0], r[1])] = (t, i)
    out, problems = [], []
    for t, s, o, k, gb in obs["rows"]:
        g = b2f(gb)
        if not all(float(v).is_integer() for v in (t, s, o, k)) or not (g == g) or g < 0:
            problems.append(f"row (tomo {t}, subtomo {s}): non-integral id/order or invalid distance ({o}, {k}, {g})"); continue
        key = (int(t), int(s))
        if key not in where:
            problems.append(f"row (tomo {t}, subtomo {s}) is not an input particle"); continue
        v = g * S
        r2 = int(round(v * v))
        if abs(math.sqrt(r2) / S - g) > 1e-9 * max(1.0, g):
            r2 = -1 - r2  # not on the grid of squared distances: can never equal a squared distance
        out.append(list(where[key]) + [int(o), int(k), r2])
    return out, problems


def _tomo_req(case):
    ids, per = _tomos(case)
    return [[r[2:8] + [r[8] * r[8]] for r in rows] for rows in per]


def requests(case, obs):
    base = dict(max=case["max"], min=case["min"], tomos=_tomo_req(case))
    reqs = [dict(base, op="trace")]
    if "error" not in obs:
        out, _ = _decode(case, obs)
        reqs.append(dict(base, op="check", out=out))
    return reqs


def _explain(case, out):
    """human-readable independent evaluation of the three clauses (for the replay detail only)"""
    ids, per = _tomos(case)
    msgs = []
    hi, lo = case["max"] ** 2, case["min"] ** 2
    groups = {}
    for t, i, o, k, r2 in out:
        groups.setdefault((t, o), []).append((k, i, r2))
    for (t, o), ms in sorted(groups.items()):
        ks = sorted(k for k, _, _ in ms)
        if ks != list(range(1, len(ms) + 1)):
            msgs.append(f"tomo {ids[t]} object {o}: order numbers {ks} (members subtomo {[per[t][i][1] for _, i, _ in ms]})")
        byk = {k: (i, r2) for k, i, r2 in ms}
        for k, i, r2 in ms:
            if k + 1 in byk:
                j = byk[k + 1][0]
                v = _d2(per[t][i][5:8], per[t][j][2:5])
                if not (lo < v <= hi) or r2 != v:
                    msgs.append(f"tomo {ids[t]} object {o}: subtomo {per[t][i][1]} (order {k}) -> subtomo {per[t][j][1]} (order {k+1}): exit->entry distance "
                                f"{math.sqrt(v)/S:.4f}, window ({case['min']/S:.4f}, {case['max']/S:.4f}], recorded {math.sqrt(abs(r2))/S if r2 >= 0 else 'off-grid'}")
    return "; ".join(msgs[:4])


def judge(case, obs, resps):
    if "error" in obs:
        clause = "does-not-return" if obs["error"].startswith("TimeoutError") else "raises"
        return [dict(kind="spec", clause=clause, detail=obs["error"] + " @" + obs.get("where", ""))]
    out, problems = _decode(case, obs)
    fs = []
    if problems:
        fs.append(dict(kind="spec", clause="every-particle-exactly-once", detail="; ".join(problems[:3])))
    model, chk = resps[0], resps[1]
    if "error" in chk or "error" in model:
        return fs + [dict(kind="corr", clause="driver-error", detail=f"{model} {chk}"[:300])]
    if not chk["once"]:
        n_in = len(case["rows"])
        keys = [(t, i) for t, i, *_ in out]
        dup = sorted({k for k in keys if keys.count(k) > 1})
        fs.append(dict(kind="spec", clause="every-particle-exactly-once",
                       detail=f"{n_in} input particles, {len(out)} returned rows, duplicated (tomogram#, position) {dup[:5]}, missing {n_in - len(set(keys))}"))
    if not chk["orders"]:
        fs.append(dict(kind="spec", clause="orders-1..k-per-chain", detail=_explain(case, out)))
    if not chk["dist"]:
        fs.append(dict(kind="spec", clause="consecutive-distance-window-and-recorded-value", detail=_explain(case, out)))
    # correspondence of the control flow: the real code went through the same suffix/prefix branches, in the same order
    ev = obs.get("events")
    if ev is not None and "?" not in ev:
        mt = [t for tm in model["tomos"] for t in tm["tags"] if t in EVENT_TAGS]
        if ev != mt:
            k = next((i for i, (a, b) in enumerate(zip(ev, mt)) if a != b), min(len(ev), len(mt)))
            fs.append(dict(kind="corr", clause="impl-vs-model-branches",
                           detail=f"branch #{k}: impl {ev[k:k+4]} model {mt[k:k+4]} (impl {len(ev)} calls, model {len(mt)})"))
    # correspondence: same rows in the same order, per tomogram
    ids, per = _tomos(case)
    for t in range(len(ids)):
        mine = [r for r in out if r[0] == t]
        mrows = model["tomos"][t]["rows"]
        a = [(i, o, k) for _, i, o, k, _ in mine]
        b = [(i, o, k) for i, o, k, _ in mrows]
        if a != b:
            fs.append(dict(kind="corr", clause="impl-vs-model-rows", detail=f"tomo {ids[t]}: impl (pos,obj,ord) {a[:12]} model {b[:12]}"))
        elif any((x[4] if x[4] >= 0 else None) != y[3] for x, y in zip(mine, mrows)):
            fs.append(dict(kind="corr", clause="impl-vs-model-distance", detail=f"tomo {ids[t]}: recorded values differ: impl {[x[4] for x in mine][:12]} model {[y[3] for y in mrows][:12]}"))
    return fs


MERGE_TAGS = {"suffix-keep", "suffix-cut", "suffix-reject", "prefix", "prefix-cut", "prefix-reject", "both", "both-cut", "resolve-one"}


def _tags(resps):
    if not resps or "tomos" not in resps[0]:
        return []
    return [t for tm in resps[0]["tomos"] for t in tm["tags"]]


def _combos(tags):
    """the branch taken by each completed chain: the suffix tag and the prefix tag of one two-sided merge are joined"""
    out, k = [], 0
    while k < len(tags):
        t = tags[k]
        if t in ("suffix-keep", "suffix-cut") and k + 1 < len(tags) and tags[k + 1] in ("both", "both-cut", "prefix-reject"):
            out.append(t + "+" + tags[k + 1]); k += 2
        elif t == "suffix-reject" and k + 1 < len(tags) and tags[k + 1] in ("prefix", "prefix-cut", "prefix-reject"):
            out.append(t + "+" + tags[k + 1]); k += 2
        else:
            out.append(t); k += 1
    return out


def nontrivial(case, obs):
    if "error" in obs:
        return False
    ks = [r[3] for r in obs["rows"]]
    return len(case["rows"]) >= 3 and any(k >= 2 for k in ks)


def stats(case, obs, resps):
    n = len(case["rows"])
    tags = [t for t in _tags(resps) if t != "skip"]
    d = {"particles": "2-5" if n <= 5 else "6-12" if n <= 12 else "13-30" if n <= 30 else "31-60",
         "tomograms": len(_tomos(case)[0]), "generator": case.get("gen", "corpus").split("+"),
         "min_distance": "0" if case["min"] == 0 else ">0",
         "model_branch": tags, "cases_with_branch": sorted(set(tags) & MERGE_TAGS) or ["append-only"],
         "cases_with_chain_branch": sorted({t for tm in (resps[0].get("tomos", []) if resps else [])
                                            for t in _combos([x for x in tm["tags"] if x != "skip"])})}
    if "error" not in obs:
        sizes = {}
        for t, s, o, k, g in obs["rows"]:
            sizes[(t, o)] = sizes.get((t, o), 0) + 1
        d["chain_length"] = ["1" if v == 1 else "2-3" if v <= 3 else "4-8" if v <= 8 else ">8" for v in sizes.values()]
        ev = obs.get("events")
        d["impl_branch_trace"] = "unavailable" if ev is None or "?" in ev else "compared"
        if ev:
            d["impl_branch"] = [e for e in ev if e != "?"]
    else:
        d["impl_error"] = obs["error"][:60]
    return d


def sample_view(case):
    return dict(gen=case.get("gen"), max_distance=case["max"] / S, min_distance=case["min"] / S, n=len(case["rows"]),
                first_rows=[dict(tomo=r[0], subtomo=r[1], entry=[c / S for c in r[2:5]], exit=[c / S for c in r[5:8]]) for r in case["rows"][:4]])


def probes(rng):
    """library assumption: KDTree.query_radius(sorted) = brute force on grid points"""
    import numpy as np
    import sklearn.neighbors as sn
    pts = np.array([[rng.randint(-4000, 4000) / S for _ in range(3)] for _ in range(60)])
    q = np.array([[rng.randint(-4000, 4000) / S for _ in range(3)]])
    r = 3.0
    idx, dist = sn.KDTree(pts).query_radius(q, r, return_distance=True, sort_results=True)
    d = np.sqrt(((pts - q) ** 2).sum(axis=1))
    brute = [int(i) for i in np.argsort(d, kind="stable") if d[i] <= r]
    ok = list(map(int, idx[0])) == brute and all(float(a) == float(d[i]) for a, i in zip(dist[0], brute))
    return [dict(name="KDTree.query_radius sorted = brute force, distances bit-equal to sqrt(sum of squares)", ok=bool(ok),
                 detail=f"{len(brute)} hits")]


LEVEL_TEXT = ("Lean 4 theorems about an executable model of trace_chains/get_nn_dist/add_chain_suffix/add_chain_prefix, for all inputs, sizes and "
              "distance functions: every particle is returned exactly once and chains stay inside their tomogram for every operator table "
              "(trace_partition, trace_partition_all, trace_no_span); for the operator table read from the source (opts_documented, "
              "numbering_documented) the ORDER clause and the DISTANCE clause hold through ALL branches - append, suffix attach with/without tail "
              "cut, prefix attach with/without head cut, two-sided merge with/without either cut, rejected attachments - by the loop invariant "
              "ChainsWellNumbered + link invariant (trace_chains_well_numbered, trace_orders, trace_dist), hence the whole statement "
              "(trace_spec_full : SpecFull); the verified checker chainsOk is sound for all clauses (check_sound) and is run on the "
              "implementation's output of every case; regression witnesses tailcut_roworder_counterexample and "
              "double_cut_shared_id_counterexample show the two repaired defects violate exactly these invariants")
LEVEL_NOTE = ("trusted: Lean kernel; translator anchors (24 sites of ribana.py: 13 comparison/bookkeeping operators used by the model + 11 numbering "
              "constants/shift expressions the model hard-codes); KD-tree radius query = brute force (probed); squared-distance decoding of geom4 "
              "in the harness; the model-to-code tie is the exact comparison of rows, recorded distances AND of the sequence of suffix/prefix "
              "branches taken by the real add_chain_suffix/add_chain_prefix calls on every generated case")
TECHNIQUE = "Lean 4 proof (loop invariant over relabellings of a well-numbered table, sound decidable checker) + regenerated operator table + exact differential correspondence (rows and branch trace) on dyadic grids"
DESIGN_REF = "DESIGN.md section 4, C19"
