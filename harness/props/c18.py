"""C18 — nearest-neighbour analysis equals brute force, invariant under rigid motion (DESIGN.md section 4, C18).

Observed function: cryocat.nnana.get_nn_stats (table), run on a pair of particle lists and on the same pair moved
rigidly (rotation Q, translation t) by this module's own numpy code.
"""
import ast, math, json, hashlib
import numpy as np
import core
from core import f2b, b2f

PROP = "C18"
COUNT = {"quick": 120, "thorough": 2500, "search": 600}
PARALLEL = True
GRID = 64  # positions and shifts are multiples of 1/64 (so squared distances are exact in binary64)
RULE = ("pairs of particle lists (1..200 particles each, 1..4 tomograms with arbitrary non-contiguous ids, interleaved list order; tomogram sets equal / "
        "overlapping / disjoint; second list independent, coincident with the first, or a superset of it), positions and non-zero shifts on the 1/64 grid "
        "(wide, dense-cluster and jittered-lattice layouts), arbitrary real Euler angles incl. gimbal and out-of-range values, k in 1..5 (also k > number of "
        "candidates), dyadic pixel size, random proper rotation Q (also identity / half turns) and real translation t; cases with a tie among the k+1 "
        "smallest squared distances of any query are regenerated. non-trivial = some common tomogram has >= 2 queries and more candidates than k, a non-zero "
        "shift occurs and Q is not the identity; distinct = distinct content hash of the case")
ASSUMPTIONS = [
    "sklearn.neighbors.KDTree.query(k) returns the k smallest Euclidean distances in ascending order (= brute force); checked on every case by the Lean verified checker checkKnn on the implementation's own neighbour lists, and probed",
    "binary64 arithmetic on the 1/64 grid is exact for complete positions, pixel scaling and squared distances, so numpy's and the Float driver's neighbour decisions equal the exact-arithmetic ones of the theorems",
    "scipy Rotation.from_euler('zxz', degrees=True) is the matrix Rz(psi)Rx(theta)Rz(phi); as_euler returns a valid triple of the same rotation (probed against this module's own matrices)",
    "the quaternion formula 2*arccos|q1.q2| of geom.angular_distance equals the rotation angle atan2(|skew|/2, (trace-1)/2) of the relative rotation (compared numerically with a conditioning-aware tolerance; not proved)",
]
TRUSTED = ["props/c18.py own numpy code: zxz matrices, Euler extraction, rigid motion of a particle list, brute-force evaluation of the statement"]

COLS = ["score", "geom1", "geom2", "subtomo_id", "tomo_id", "object_id", "subtomo_mean", "x", "y", "z",
        "shift_x", "shift_y", "shift_z", "geom3", "geom4", "geom5", "phi", "psi", "theta", "class"]
STATS_COLUMNS = ["distance", "coord_x", "coord_y", "coord_z", "coord_rx", "coord_ry", "coord_rz", "angular_distance", "rot_x", "rot_y", "rot_z",
                 "phi", "theta", "psi", "subtomo_idx", "subtomo_nn_idx"]


# ------------------------------------------------------------------ translator
def _fn(src, rel, name):
    return src.find(rel, name)


def _assign_value(fn, target):
    """value expression of the first `target = ...` inside fn"""
    for n in ast.walk(fn):
        if isinstance(n, ast.Assign) and len(n.targets) == 1 and core.norm_expr(n.targets[0]) == target:
            return n.value
    raise core.AnchorMissing(f"{fn.name}: no assignment to {target}")


def _calls(fn, attr):
    return [n for n in ast.walk(fn) if isinstance(n, ast.Call) and isinstance(n.func, ast.Attribute) and n.func.attr == attr]


def _append_arg(fn, listname):
    for n in ast.walk(fn):
        if (isinstance(n, ast.Call) and isinstance(n.func, ast.Attribute) and n.func.attr == "append"
                and isinstance(n.func.value, ast.Name) and n.func.value.id == listname):
            return n.args[0]
    raise core.AnchorMissing(f"{fn.name}: no {listname}.append(...)")


def _euler_calls(fn):
    """(sequence literal, degrees flag) of every from_euler / as_euler call, in source order"""
    out = []
    for n in sorted(_calls(fn, "from_euler") + _calls(fn, "as_euler"), key=lambda c: (c.lineno, c.col_offset)):
        seq = n.args[0].value if n.args and isinstance(n.args[0], ast.Constant) else None
        deg = any(k.arg == "degrees" and isinstance(k.value, ast.Constant) and k.value.value is True for k in n.keywords)
        if seq is None:
            raise core.AnchorMissing(f"{fn.name}: euler sequence is not a literal")
        out.append((seq, deg))
    if not out:
        raise core.AnchorMissing(f"{fn.name}: no from_euler/as_euler call")
    return out


def translate(src):
    nn, gm, cm = "cryocat/nnana.py", "cryocat/geom.py", "cryocat/cryomotl.py"
    E = core.norm_expr
    S = core.lean_str

    def coord_cols():
        fn = _fn(src, cm, "Motl.get_coordinates")
        for n in ast.walk(fn):
            if isinstance(n, ast.Assign) and isinstance(n.value, ast.BinOp) and isinstance(n.value.op, ast.Add):
                lists = [src.literal(x) for x in ast.walk(n.value) if isinstance(x, ast.List)]
                if len(lists) == 2:
                    return lists
        raise core.AnchorMissing("Motl.get_coordinates: [x,y,z] + [shift_x,shift_y,shift_z]")

    cc = src.anchor("Motl.get_coordinates:columns", coord_cols)

    def angle_cols():
        fn = _fn(src, cm, "Motl.get_angles")
        for n in ast.walk(fn):
            if isinstance(n, ast.Assign) and any(isinstance(x, ast.List) for x in ast.walk(n.value)):
                return src.literal(next(x for x in ast.walk(n.value) if isinstance(x, ast.List)))
        raise core.AnchorMissing("Motl.get_angles: column list")

    ac = src.anchor("Motl.get_angles:columns", angle_cols)
    fi = lambda: _fn(src, nn, "get_feature_nn_indices")
    fd = lambda: _fn(src, nn, "get_nn_distances")
    fr = lambda: _fn(src, nn, "get_nn_rotations")
    fs = lambda: _fn(src, nn, "get_nn_stats")
    tcoord = src.anchor("get_feature_nn_indices:coordinates", lambda: E(_assign_value(fi(), "coord_a")) + ";" + E(_assign_value(fi(), "coord_nn")))
    subs_d = src.anchor("get_nn_distances:tomogram-subsets", lambda: E(_assign_value(fd(), "features")) + ";" + E(_assign_value(fd(), "fm_a")) + ";" + E(_assign_value(fd(), "fm_nn")))
    subs_r = src.anchor("get_nn_rotations:tomogram-subsets", lambda: E(_assign_value(fr(), "features")) + ";" + E(_assign_value(fr(), "fm_a")) + ";" + E(_assign_value(fr(), "fm_nn")))
    nn_count = src.anchor("get_feature_nn_indices:nn_count", lambda: E(_assign_value(fi(), "nn_count")))
    tree = src.anchor("get_feature_nn_indices:tree", lambda: E(_assign_value(fi(), "kdt_nn")))
    query = src.anchor("get_feature_nn_indices:query", lambda: E(_assign_value(fi(), "(nn_dist,nn_idx)")))
    inv_d = src.anchor("get_nn_distances:inverse-angles", lambda: E(_assign_value(fd(), "angles")))
    offs = src.anchor("get_nn_distances:offset", lambda: E(_assign_value(fd(), "c_coord")))
    dist = src.anchor("get_nn_distances:distance", lambda: E(_append_arg(fd(), "nn_dist")))
    frame = src.anchor("get_nn_distances:frame-offset", lambda: E(_append_arg(fd(), "rotated_coord")))
    angd = src.anchor("get_nn_distances:angular", lambda: E(_append_arg(fd(), "angular_distances")))
    sub_nn = src.anchor("get_nn_distances:subtomo-nn", lambda: E(_append_arg(fd(), "subtomo_idx_nn")) + ";" + E(_assign_value(fd(), "subtomos_nn")))
    sub_a = src.anchor("get_nn_distances:subtomo-a", lambda: E(_append_arg(fd(), "subtomo_idx")) + ";" + E(_assign_value(fd(), "subtomos_a")))
    scale = src.anchor("get_nn_distances:pixel-scaling", lambda: E(_assign_value(fd(), "coord_nn")) + ";" + E(_assign_value(fd(), "coord_a")))
    rots = src.anchor("get_nn_distances:rotations", lambda: E(_assign_value(fd(), "rotations")) + ";" + E(_assign_value(fd(), "rot")) + ";" + E(_assign_value(fd(), "rotations_nn")))
    eul_d = src.anchor("get_nn_distances:euler-calls", lambda: [f"{s}:{'deg' if d else 'rad'}" for s, d in _euler_calls(fd())])
    inv_r = src.anchor("get_nn_rotations:inverse-angles", lambda: E(_assign_value(fr(), "angles_ref_to_zero")))
    rel = src.anchor("get_nn_rotations:relative", lambda: E(_append_arg(fr(), "nn_rotations")) + ";" + E(_assign_value(fr(), "rot_to_zero")) + ";" + E(_assign_value(fr(), "rot_nn")))
    eul_r = src.anchor("get_nn_rotations:euler-calls", lambda: [f"{s}:{'deg' if d else 'rad'}" for s, d in _euler_calls(fr())])

    def stats_cols():
        for n in ast.walk(fs()):
            if isinstance(n, ast.keyword) and n.arg == "columns":
                return src.literal(n.value)
        raise core.AnchorMissing("get_nn_stats: columns=[...]")

    scol = src.anchor("get_nn_stats:columns", stats_cols)

    def stats_defaults():
        a = fs().args
        names = [x.arg for x in a.args]
        defs = dict(zip(names[len(names) - len(a.defaults):], a.defaults))
        return [str(src.literal(defs["feature_id"])), str(src.literal(defs["rotation_type"]))]

    sdef = src.anchor("get_nn_stats:defaults", stats_defaults)
    shst = src.anchor("get_nn_stats:hstack-order", lambda: E(next(c for c in _calls(fs(), "hstack")).args[0]))
    def ang_formula():
        """the angle expression with an optional clamp `np.minimum(X, 1.0)` of the dot product removed (the clamp is recorded separately)"""
        node = _assign_value(_fn(src, gm, "angular_distance"), "angle")
        clamped = [False]

        class Strip(ast.NodeTransformer):
            def visit_Call(self, n):
                self.generic_visit(n)
                if (isinstance(n.func, ast.Attribute) and n.func.attr in ("minimum", "clip") and len(n.args) >= 2
                        and isinstance(n.args[-1], ast.Constant) and float(n.args[-1].value) == 1.0):
                    clamped[0] = True
                    return n.args[0]
                return n

        import copy
        return [E(Strip().visit(copy.deepcopy(node))), "clamped" if clamped[0] else "unclamped"]

    angf2 = src.anchor("geom.angular_distance:formula", ang_formula)
    angf, angc = (angf2 if angf2 else (None, "unknown"))

    def cmp_branch():
        fn = _fn(src, gm, "compare_rotations")
        dd = E(_assign_value(fn, "dist_degrees"))
        for n in ast.walk(fn):
            if isinstance(n, ast.If) and "'angular_distance'" in ast.unparse(n.test):
                return dd + ";" + E(n.test) + ";" + E(n.body[0])
        raise core.AnchorMissing("compare_rotations: angular_distance branch")

    cmpb = src.anchor("geom.compare_rotations:angular_distance-branch", cmp_branch)
    zax = src.anchor("geom.visualize_rotations:z-axis", lambda: E(_assign_value(_fn(src, gm, "visualize_rotations"), "starting_point")) + ";" +
                     E(_assign_value(_fn(src, gm, "visualize_rotations"), "new_points")))

    def L(v):
        return core.lean_str_list(v if isinstance(v, list) and all(isinstance(x, str) for x in v) else [])

    def T(v):
        return S(v if isinstance(v, str) else "")

    return f"""-- GENERATED by harness/props/c18.py from {nn}, {gm}, {cm}; do not edit
namespace CryoCat.Gen.C18
def anchorsOk : Bool := {"true" if src.ok else "false"}
def coordColumns : List String := {L(cc[0] if cc else None)}
def shiftColumns : List String := {L(cc[1] if cc else None)}
def angleColumns : List String := {L(ac)}
def treeCoordinates : String := {T(tcoord)}
def subsetsDistances : String := {T(subs_d)}
def subsetsRotations : String := {T(subs_r)}
def nnCountExpr : String := {T(nn_count)}
def treeExpr : String := {T(tree)}
def queryExpr : String := {T(query)}
def invAnglesDistances : String := {T(inv_d)}
def invAnglesRotations : String := {T(inv_r)}
def offsetExpr : String := {T(offs)}
def distanceExpr : String := {T(dist)}
def frameOffsetExpr : String := {T(frame)}
def angularExpr : String := {T(angd)}
def subtomoNnExpr : String := {T(sub_nn)}
def subtomoAExpr : String := {T(sub_a)}
def pixelScalingExpr : String := {T(scale)}
def rotationsExpr : String := {T(rots)}
def eulerCallsDistances : List String := {L(eul_d)}
def relativeExpr : String := {T(rel)}
def eulerCallsRotations : List String := {L(eul_r)}
def statsColumns : List String := {L(scol)}
def statsDefaults : List String := {L(sdef)}
def statsHstack : String := {T(shst)}
def angularFormula : String := {T(angf)}
def angularDotClamp : String := {T(angc)}
def compareBranch : String := {T(cmpb)}
def zAxisExpr : String := {T(zax)}
end CryoCat.Gen.C18
"""


# ------------------------------------------------------------------ own numpy geometry
def rz(a):
    c, s = math.cos(a), math.sin(a)
    return np.array([[c, -s, 0.0], [s, c, 0.0], [0.0, 0.0, 1.0]])


def rx(a):
    c, s = math.cos(a), math.sin(a)
    return np.array([[1.0, 0.0, 0.0], [0.0, c, -s], [0.0, s, c]])


def zxz_matrix(phi, theta, psi):
    """extrinsic zxz of (phi, theta, psi) in degrees: Rz(psi) Rx(theta) Rz(phi)"""
    return rz(math.radians(psi)) @ rx(math.radians(theta)) @ rz(math.radians(phi))


def zxz_angles(R):
    """(phi, theta, psi) in degrees with zxz_matrix(phi, theta, psi) = R"""
    st = math.hypot(R[0, 2], R[1, 2])
    theta = math.atan2(st, R[2, 2])
    if st > 1e-9:
        psi = math.atan2(R[0, 2], -R[1, 2])
        phi = math.atan2(R[2, 0], R[2, 1])
    else:
        phi = 0.0
        psi = math.atan2(R[1, 0], R[0, 0])
    out = (math.degrees(phi), math.degrees(theta), math.degrees(psi))
    if np.abs(zxz_matrix(*out) - R).max() > 1e-9:
        raise RuntimeError("own Euler extraction failed")
    return out


def quat_matrix(q):
    w, x, y, z = np.array(q, dtype=float) / np.linalg.norm(q)
    return np.array([[1 - 2 * (y * y + z * z), 2 * (x * y - z * w), 2 * (x * z + y * w)],
                     [2 * (x * y + z * w), 1 - 2 * (x * x + z * z), 2 * (y * z - x * w)],
                     [2 * (x * z - y * w), 2 * (y * z + x * w), 1 - 2 * (x * x + y * y)]])


def rot_angle_deg(M):
    sk = math.sqrt((M[2, 1] - M[1, 2]) ** 2 + (M[0, 2] - M[2, 0]) ** 2 + (M[1, 0] - M[0, 1]) ** 2)
    return math.degrees(math.atan2(sk / 2.0, (np.trace(M) - 1.0) / 2.0))


def move_list(rows, Q, t):
    """rigid motion of a particle list: complete position -> Q pos + t, orientation R -> Q R; shifts kept"""
    out = []
    for r in rows:
        tomo, sub, x, y, z, sx, sy, sz, ph, th, ps = r
        p = Q @ np.array([x + sx, y + sy, z + sz]) + t
        a = zxz_angles(Q @ zxz_matrix(ph, th, ps))
        out.append([tomo, sub, float(p[0] - sx), float(p[1] - sy), float(p[2] - sz), sx, sy, sz, a[0], a[1], a[2]])
    return out


# ------------------------------------------------------------------ generators
def _ties(a, nn, k):
    """True when, for some query, two of the k+1 smallest squared distances to same-tomogram candidates coincide (exact integers)"""
    A = np.array([[r[0]] + [round((r[2 + i] + r[5 + i]) * GRID) for i in range(3)] for r in a], dtype=np.int64)
    B = np.array([[r[0]] + [round((r[2 + i] + r[5 + i]) * GRID) for i in range(3)] for r in nn], dtype=np.int64)
    for t in set(A[:, 0]) & set(B[:, 0]):
        pa, pb = A[A[:, 0] == t][:, 1:], B[B[:, 0] == t][:, 1:]
        if len(pb) < 2:
            continue
        D = ((pa[:, None, :] - pb[None, :, :]) ** 2).sum(-1)
        D.sort(axis=1)
        m = min(k + 1, D.shape[1])
        if (np.diff(D[:, :m], axis=1) == 0).any():
            return True
    return False


def _angle(rng, kind):
    u = rng.random()
    if u < 0.70:
        return rng.uniform(0, 180) if kind == "theta" else rng.uniform(-180, 180)
    if u < 0.82:
        return rng.choice([0.0, 90.0, 180.0, -90.0, 45.0, 30.0, 120.0])
    if u < 0.90:
        return rng.choice([0.0, 180.0]) if kind == "theta" else rng.choice([0.0, 360.0, -180.0])
    return rng.uniform(-720, 720)  # out of the canonical range


def _g(rng, R):
    return rng.randint(-R * GRID, R * GRID) / GRID


def _particles(rng, n, tomos, layout, R, sub0):
    subs = rng.sample(range(sub0, sub0 + 5 * n + 10), n)
    rows = []
    centres = [[_g(rng, R) for _ in range(3)] for _ in range(3)]
    for i in range(n):
        if layout == "wide":
            p = [_g(rng, R) for _ in range(3)]
        elif layout == "cluster":
            c = rng.choice(centres)
            p = [c[j] + _g(rng, max(1, R // 16)) for j in range(3)]
        else:  # lattice with a small jitter: many nearly equal distances
            p = [float(rng.randint(-6, 6) * 4) + rng.randint(-20, 20) / GRID for _ in range(3)]
        if rng.random() < 0.8:
            sh = [rng.randint(-4 * GRID, 4 * GRID) / GRID for _ in range(3)]
        else:
            sh = [0.0, 0.0, 0.0]
        rows.append([rng.choice(tomos), subs[i], p[0] - sh[0], p[1] - sh[1], p[2] - sh[2], sh[0], sh[1], sh[2],
                     _angle(rng, "phi"), _angle(rng, "theta"), _angle(rng, "psi")])
    return rows


def _size(rng, tier):
    u = rng.random()
    if tier == "search":
        return rng.randint(1, 12)
    if u < 0.15:
        return rng.randint(1, 3)
    if u < 0.70:
        return rng.randint(2, 30)
    if u < 0.92:
        return rng.randint(20, 90)
    return rng.randint(90, 200)


def _one(rng, tier):
    na, nb = _size(rng, tier), _size(rng, tier)
    nt = rng.choice([1, 1, 2, 3, 4])
    ids = rng.sample(range(1, 400), 6)
    u = rng.random()
    if u < 0.55:
        ta, tb, overlap = ids[:nt], ids[:nt], "same"
    elif u < 0.92:
        ta = ids[:nt]
        tb = ids[max(0, nt - 1 - rng.randint(0, 1)):nt] + ids[4:4 + rng.randint(1, 2)]
        tb = tb[:4]
        overlap = "partial" if set(ta) & set(tb) else "disjoint"
    else:
        ta, tb, overlap = ids[:nt], ids[4:4 + rng.randint(1, 2)], "disjoint"
    layout = rng.choice(["wide", "wide", "cluster", "lattice"])
    R = rng.choice([8, 32, 256]) if layout != "lattice" else 32
    a = _particles(rng, na, ta, layout, R, 1)
    rel = rng.random()
    if rel < 0.18:
        nn, relation = [list(r) for r in a], "coincident"
    elif rel < 0.30:
        extra = _particles(rng, nb, ta, layout, R, 5000)
        nn = [list(r) for r in a] + extra
        rng.shuffle(nn)
        nn, relation = nn[:200], "superset"
    else:
        nn, relation = _particles(rng, nb, tb, layout, R, 5000), "independent"
    if relation != "independent":
        overlap = "same"
    k = rng.choice([1, 1, 2, 3, 4, 5])
    px = rng.choice([1.0, 1.0, 0.5, 2.0, rng.randint(1, 128) / 8.0, rng.randint(1, 128) / 8.0])
    qk = rng.random()
    if qk < 0.08:
        Q = [1.0, 0.0, 0.0, 0.0]
    elif qk < 0.16:
        Q = rng.choice([[0.0, 1.0, 0.0, 0.0], [0.0, 0.0, 1.0, 0.0], [0.0, 0.0, 0.0, 1.0], [1.0, 0.0, 0.0, 1.0]])
    else:
        Q = [rng.gauss(0, 1) for _ in range(4)]
    t = [0.0, 0.0, 0.0] if rng.random() < 0.08 else [rng.uniform(-1000, 1000) for _ in range(3)]
    return dict(a=a, nn=nn, k=k, px=px, Q=Q, t=t, layout=layout, relation=relation, overlap=overlap)


def generate(rng, tier, n):
    for _ in range(n):
        for attempt in range(40):
            case = _one(rng, tier)
            if not _ties(case["a"], case["nn"], case["k"]):
                break
        else:
            continue
        yield case


def shrink(case):
    def ok(c):
        return len(c["a"]) >= 1 and len(c["nn"]) >= 1 and not _ties(c["a"], c["nn"], c["k"])

    cands = []
    a, nn = case["a"], case["nn"]
    co = case.get("relation") == "coincident"
    for name in ("a", "nn"):
        l = case[name]
        if len(l) > 1:
            for part in (l[:len(l) // 2], l[len(l) // 2:]):
                c = dict(case, **{name: part}, relation="independent")
                cands.append(c)
            if len(l) <= 12:
                for i in range(len(l)):
                    cands.append(dict(case, **{name: l[:i] + l[i + 1:]}, relation="independent"))
    if case["k"] > 1:
        cands.append(dict(case, k=case["k"] - 1))
    if case["px"] != 1.0:
        cands.append(dict(case, px=1.0))
    if case["Q"] != [1.0, 0.0, 0.0, 0.0]:
        cands.append(dict(case, Q=[1.0, 0.0, 0.0, 0.0]))
        if case["Q"] != [1.0, 0.0, 0.0, 1.0]:
            cands.append(dict(case, Q=[1.0, 0.0, 0.0, 1.0]))
    if case["t"] != [0.0, 0.0, 0.0]:
        cands.append(dict(case, t=[0.0, 0.0, 0.0]))
    for name in ("a", "nn"):
        l = case[name]
        if any(r[5:8] != [0.0, 0.0, 0.0] for r in l):
            cands.append(dict(case, **{name: [[r[0], r[1], r[2] + r[5], r[3] + r[6], r[4] + r[7], 0.0, 0.0, 0.0] + r[8:] for r in l]}, relation="independent"))
        if any(r[8:] != [0.0, 0.0, 0.0] for r in l):
            cands.append(dict(case, **{name: [r[:8] + [0.0, 0.0, 0.0] for r in l]}, relation="independent"))
            cands.append(dict(case, **{name: [r[:8] + [float(round(x / 30.0) * 30 % 360) for x in r[8:]] for r in l]}, relation="independent"))
        if any(float(x) != round(x) for r in l for x in r[2:5]):
            cands.append(dict(case, **{name: [r[:2] + [float(round(x)) for x in r[2:5]] + r[5:] for r in l]}, relation="independent"))
        if len({r[0] for r in l}) > 1 or any(r[0] != 1 for r in l):
            pass
    for c in cands:
        if c != case and ok(c):
            yield c


# ------------------------------------------------------------------ implementation
def _motl(rows):
    import pandas as pd
    from cryocat import cryomotl
    df = pd.DataFrame(0.0, index=range(len(rows)), columns=COLS)
    arr = np.array(rows, dtype=float).reshape(len(rows), 11)
    for j, c in enumerate(["tomo_id", "subtomo_id", "x", "y", "z", "shift_x", "shift_y", "shift_z", "phi", "theta", "psi"]):
        df[c] = arr[:, j]
    df["score"] = np.linspace(0.1, 0.9, len(rows))
    df["object_id"] = np.arange(len(rows))[::-1] % 7
    df["geom1"] = 1.0
    return cryomotl.Motl(motl_df=df)


def _table(a, nn, k, px, coincident):
    from cryocat import nnana
    ma = _motl(a)
    mn = ma if coincident else _motl(nn)
    try:
        t = nnana.get_nn_stats(ma, mn, pixel_size=px, feature_id="tomo_id", nn_number=k, rotation_type="angular_distance")
    except ValueError as e:
        if "need at least one array" in str(e):
            return {"empty_raises": True, "rows": []}
        raise
    cols = [str(c) for c in t.columns]
    return {"cols": cols, "rows": t[[c for c in cols if c != "type"]].to_numpy(dtype=float).tolist(),
            "type": sorted(set(str(x) for x in t["type"])) if "type" in cols else []}


def run_impl(case):
    a, nn, k, px = case["a"], case["nn"], case["k"], case["px"]
    same_obj = case.get("relation") == "coincident" and a == nn
    out = {"orig": _table(a, nn, k, px, same_obj)}
    Q, t = quat_matrix(case["Q"]), np.array(case["t"], dtype=float)
    ma, mn = move_list(a, Q, t), move_list(nn, Q, t)
    out["moved"] = _table(ma, mn, k, px, same_obj)
    return out


def _wire(rows):
    return [[int(r[0]), int(r[1])] + [f2b(x) for x in r[2:]] for r in rows]


def _index(rows):
    """subtomo id -> (tomo, index within the tomogram subset, row) ; None when ids are not unique"""
    out, cnt = {}, {}
    for r in rows:
        t = int(r[0])
        i = cnt.get(t, 0)
        cnt[t] = i + 1
        if int(r[1]) in out:
            return None
        out[int(r[1])] = (t, i, r)
    return out


def _claims(case, rows):
    """per query of a common tomogram (tomo, query index, [candidate indices by reported rank]) from the implementation's table"""
    ia, inn = _index(case["a"]), _index(case["nn"])
    common = sorted({int(r[0]) for r in case["a"]} & {int(r[0]) for r in case["nn"]})
    per = {(t, i): [] for (t, i, _) in ia.values() if t in common}
    bad = []
    for n, r in enumerate(rows):
        sa, sn = r[14], r[15]
        if sa != int(sa) or int(sa) not in ia or sn != int(sn) or int(sn) not in inn:
            bad.append(n)
            continue
        t, i, _ = ia[int(sa)]
        t2, j, _ = inn[int(sn)]
        if (t, i) not in per:
            bad.append(n)
            continue
        per[(t, i)].append(j if t2 == t else 10 ** 6)  # a neighbour from another tomogram can never pass the checker
    return [[t, i, js] for (t, i), js in sorted(per.items())], bad


def requests(case, obs):
    base = dict(k=case["k"], px=f2b(case["px"]), a=_wire(case["a"]), nn=_wire(case["nn"]))
    reqs = [dict(base, op="stats")]
    if isinstance(obs, dict) and "orig" in obs and "rows" in obs["orig"]:
        claims, _ = _claims(case, obs["orig"]["rows"])
        reqs.append(dict(base, op="check", claims=claims))
    return reqs


# ------------------------------------------------------------------ judgement
def _ang_tol(theta_deg):
    s = max(abs(math.sin(math.radians(theta_deg) / 2.0)), 3e-8)
    return 1e-9 + math.degrees(2e-15 / s)


def _brute(case, row, ia, inn):
    """the statement evaluated directly for one reported row (own numpy): expected dist, frame offset, angle, relative matrix"""
    _, _, q = ia[int(row[14])]
    _, _, n = inn[int(row[15])]
    px = case["px"]
    pq = np.array([q[2] + q[5], q[3] + q[6], q[4] + q[7]])
    pn = np.array([n[2] + n[5], n[3] + n[6], n[4] + n[7]])
    Rq, Rn = zxz_matrix(*q[8:11]), zxz_matrix(*n[8:11])
    off = (pn - pq) * px
    rel = Rq.T @ Rn
    return dict(dist=float(np.linalg.norm(pn - pq) * px), off=off, frame=Rq.T @ off, ang=rot_angle_deg(rel), rel=rel, same_tomo=int(q[0]) == int(n[0]))


def _decade(x):
    return "0" if x == 0 else f"1e{int(math.floor(math.log10(x)))}"


def _compare(case, obs, resps):
    """returns (findings, deviations)"""
    out, dev = [], dict(dist=0.0, frame=0.0, ang=0.0, rel=0.0, inv=0.0)
    if "error" in obs:
        return [dict(kind="spec", clause="raises", detail=obs["error"] + " @" + obs.get("where", ""))], dev
    model = resps[0]
    if "error" in model:
        return [dict(kind="corr", clause="model-error", detail=str(model))], dev
    mrows = model["rows"]
    o, m = obs["orig"], obs["moved"]
    ia, inn = _index(case["a"]), _index(case["nn"])
    common = sorted({int(r[0]) for r in case["a"]} & {int(r[0]) for r in case["nn"]})
    if model["features"] != common:
        out.append(dict(kind="corr", clause="model-features", detail=f"{model['features']} vs {common}"))
    if o.get("empty_raises") or m.get("empty_raises"):
        if common:
            out.append(dict(kind="spec", clause="raises", detail="ValueError (nothing to concatenate) although the lists share tomograms " + str(common)))
        return out, dev
    if o["cols"] != STATS_COLUMNS + ["type"]:
        out.append(dict(kind="spec", clause="table-columns", detail=str(o["cols"])))
        return out, dev
    rows = o["rows"]
    # ---- the statement, evaluated on the implementation's table -------------------------------------
    claims, bad = _claims(case, rows)
    if bad:
        r = rows[bad[0]]
        out.append(dict(kind="spec", clause="subtomogram-number", detail=f"row {bad[0]}: subtomo_idx={r[14]} subtomo_nn_idx={r[15]} do not name a query of a common tomogram / a particle of the second list"))
        return out, dev
    ncand = {t: sum(1 for r in case["nn"] if int(r[0]) == t) for t in common}
    chk = resps[1]["ok"] if len(resps) > 1 and "ok" in resps[1] else None
    if chk is None:
        out.append(dict(kind="corr", clause="checker-error", detail=str(resps[1:])[:300]))
    else:
        for (t, i, js), okk in zip(claims, chk):
            if not okk:
                q = [r for r in case["a"] if int(r[0]) == t][i]
                if any(j >= 10 ** 6 for j in js):
                    out.append(dict(kind="spec", clause="same-tomogram", detail=f"a neighbour reported for query subtomo {q[1]} (tomogram {t}) is a particle of another tomogram"))
                    break
                out.append(dict(kind="spec", clause="k-closest-ascending",
                                detail=f"Lean checkKnn rejects the neighbours reported for query subtomo {q[1]} in tomogram {t}: candidate indices {js} (k={case['k']}, {ncand[t]} candidates)"))
                break
    for n, r in enumerate(rows):
        b = _brute(case, r, ia, inn)
        if not b["same_tomo"]:
            out.append(dict(kind="spec", clause="same-tomogram", detail=f"row {n}: neighbour {r[15]} of query {r[14]} lies in another tomogram")); break
        e = abs(r[0] - b["dist"]) / (1 + abs(b["dist"]))
        if not (e <= 1e-9):
            out.append(dict(kind="spec", clause="distance", detail=f"row {n}: distance {r[0]!r}, Euclidean distance of complete positions x pixel size = {b['dist']!r}")); break
        s = 1 + float(np.abs(b["off"]).max())
        e = float(np.abs(np.array(r[4:7]) - b["frame"]).max()) / s
        if not (e <= 1e-9):
            out.append(dict(kind="spec", clause="frame-offset", detail=f"row {n}: particle-frame offset {r[4:7]}, inverse orientation applied to the offset = {b['frame'].tolist()}")); break
        if not (abs(r[7] - b["ang"]) <= _ang_tol(b["ang"])):
            out.append(dict(kind="spec", clause="angular-distance", detail=f"row {n}: angular distance {r[7]!r}, angle of the relative rotation = {b['ang']!r}")); break
        e = float(np.abs(zxz_matrix(r[11], r[12], r[13]) - b["rel"]).max())
        e = max(e, float(np.abs(np.array(r[8:11]) - b["rel"][:, 2]).max()))
        if not (e <= 1e-9):
            out.append(dict(kind="spec", clause="relative-orientation", detail=f"row {n}: Euler angles {r[11:14]} / z-axis {r[8:11]} are not inverse(query orientation) * neighbour orientation (max dev {e:.3g})")); break
    # ---- rigid-motion invariance: two runs of the real code -----------------------------------------
    mr = m["rows"]
    if len(mr) != len(rows):
        out.append(dict(kind="spec", clause="rigid-invariance", detail=f"{len(rows)} rows before, {len(mr)} rows after the rigid motion"))
    else:
        for n, (r, r2) in enumerate(zip(rows, mr)):
            if r[14] != r2[14] or r[15] != r2[15]:
                out.append(dict(kind="spec", clause="rigid-invariance", detail=f"row {n}: (query, neighbour) = ({r[14]}, {r[15]}) before, ({r2[14]}, {r2[15]}) after the rigid motion")); break
            e = max(abs(r[0] - r2[0]) / (1 + abs(r[0])),
                    float(np.abs(np.array(r[4:7]) - np.array(r2[4:7])).max()) / (1 + abs(r[0])),
                    float(np.abs(zxz_matrix(r[11], r[12], r[13]) - zxz_matrix(r2[11], r2[12], r2[13])).max()),
                    float(np.abs(np.array(r[8:11]) - np.array(r2[8:11])).max()))
            ea = abs(r[7] - r2[7])
            dev["inv"] = max(dev["inv"], e)
            if not (e <= 1e-6) or not (ea <= 1e-6 + 2 * _ang_tol(r[7])):
                out.append(dict(kind="spec", clause="rigid-invariance",
                                detail=f"row {n} (query {r[14]}, neighbour {r[15]}): distance/frame offset/relative orientation change by {e:.3g}, angular distance by {ea:.3g} under the rigid motion: before {r[:14]}, after {r2[:14]}")); break
    # ---- correspondence with the Lean model ---------------------------------------------------------
    if len(mrows) != len(rows):
        out.append(dict(kind="corr" if out else "spec", clause="row-count", detail=f"implementation reports {len(rows)} rows, the model {len(mrows)} (one per query of a common tomogram and rank < min(k, candidates))"))
        return out, dev
    for n, (r, mr_) in enumerate(zip(rows, mrows)):
        t, rank, sub, subnn, j = mr_[:5]
        f = [b2f(x) for x in mr_[5:]]
        d2, dist, off, frame, rel, tr, sk, ang = f[0], f[1], f[2:5], f[5:8], np.array(f[8:17]).reshape(3, 3), f[17], f[18], f[19]
        if int(r[14]) != sub or int(r[15]) != subnn:
            out.append(dict(kind="corr", clause="row-identity", detail=f"row {n}: implementation (query {r[14]}, neighbour {r[15]}), model (query {sub}, neighbour {subnn}, tomogram {t}, rank {rank})")); break
        e1 = abs(r[0] - dist) / (1 + abs(dist))
        e2 = max(float(np.abs(np.array(r[1:4]) - np.array(off)).max()), float(np.abs(np.array(r[4:7]) - np.array(frame)).max())) / (1 + float(np.abs(off).max()))
        e3 = abs(r[7] - ang)
        e4 = max(float(np.abs(zxz_matrix(r[11], r[12], r[13]) - rel).max()), float(np.abs(np.array(r[8:11]) - rel[:, 2]).max()))
        dev["dist"], dev["frame"], dev["rel"] = max(dev["dist"], e1), max(dev["frame"], e2), max(dev["rel"], e4)
        dev["ang"] = max(dev["ang"], e3)
        if not (e1 <= 1e-9 and e2 <= 1e-9 and e3 <= _ang_tol(ang) and e4 <= 1e-9):
            out.append(dict(kind="corr", clause="row-values", detail=f"row {n}: implementation {r}, model dist={dist} offset={off} frame={frame} ang={ang} (dev dist {e1:.3g} offsets {e2:.3g} ang {e3:.3g} rel {e4:.3g})")); break
    return out, dev


def judge(case, obs, resps):
    return _compare(case, obs, resps)[0]


def nontrivial(case, obs):
    if "error" in obs or case["Q"] == [1.0, 0.0, 0.0, 0.0]:
        return False
    if not any(r[5:8] != [0.0, 0.0, 0.0] for r in case["a"] + case["nn"]):
        return False
    ta, tn = {}, {}
    for r in case["a"]:
        ta[r[0]] = ta.get(r[0], 0) + 1
    for r in case["nn"]:
        tn[r[0]] = tn.get(r[0], 0) + 1
    return any(ta[t] >= 2 and tn.get(t, 0) > case["k"] for t in ta)


def key(case):
    return hashlib.sha1(json.dumps(case, sort_keys=True).encode()).hexdigest()


def _bucket(n):
    return "1" if n == 1 else "2-5" if n <= 5 else "6-30" if n <= 30 else "31-90" if n <= 90 else "91-200"


def stats(case, obs, resps):
    ta, tn = {int(r[0]) for r in case["a"]}, {int(r[0]) for r in case["nn"]}
    common = ta & tn
    ncand = [sum(1 for r in case["nn"] if int(r[0]) == t) for t in common]
    _, dev = _compare(case, obs, resps)
    d = {"n_a": _bucket(len(case["a"])), "n_nn": _bucket(len(case["nn"])), "tomograms_a": len(ta), "tomograms_nn": len(tn),
         "common_tomograms": len(common), "overlap": "disjoint" if not common else ("same" if ta == tn else "partial"),
         "relation": case.get("relation", "?"), "layout": case.get("layout", "?"), "k": case["k"],
         "k_vs_candidates": ["k>=cands" if c <= case["k"] else "k<cands" for c in ncand] or ["no-candidates"],
         "rows": _bucket(len(obs.get("orig", {}).get("rows", []))) if len(obs.get("orig", {}).get("rows", [])) else "0",
         "empty_intersection_raises": bool(obs.get("orig", {}).get("empty_raises", False)),
         "Q": "identity" if case["Q"] == [1.0, 0.0, 0.0, 0.0] else ("special" if all(float(x) == round(x) for x in case["Q"]) else "random"),
         "px": "1" if case["px"] == 1.0 else "other"}
    for k_, v in dev.items():
        d["maxdev_" + k_] = _decade(v)
    return d


def sample_view(case):
    return dict(n_a=len(case["a"]), n_nn=len(case["nn"]), k=case["k"], px=case["px"], Q=case["Q"], t=case["t"], relation=case.get("relation"),
                layout=case.get("layout"), first_a=case["a"][0], first_nn=case["nn"][0])


# ------------------------------------------------------------------ probes of the recorded assumptions
def probes(rng):
    out = []
    try:
        import sklearn.neighbors as sn
        from scipy.spatial.transform import Rotation as srot
        worst = 0
        okk = True
        for _ in range(20):
            n = rng.randint(2, 150)
            B = np.array([[rng.randint(-2000, 2000) / GRID for _ in range(3)] for _ in range(n)])
            A = np.array([[rng.randint(-2000, 2000) / GRID for _ in range(3)] for _ in range(30)])
            k = rng.randint(1, min(5, n))
            d, idx = sn.KDTree(B).query(A, k=k)
            D = np.sqrt(((A[:, None, :] - B[None, :, :]) ** 2).sum(-1))
            srt = np.sort(D, axis=1)[:, :k]
            okk = okk and bool(np.abs(d - srt).max() <= 1e-12) and bool(np.abs(np.take_along_axis(D, idx, 1) - d).max() <= 1e-12)
        out.append(dict(name="sklearn KDTree.query(k) = brute force (20 random dyadic point sets)", ok=okk, detail=""))
        e1 = e2 = 0.0
        for _ in range(200):
            ang = [_angle(rng, "phi"), _angle(rng, "theta"), _angle(rng, "psi")]
            M = srot.from_euler("zxz", ang, degrees=True).as_matrix()
            e1 = max(e1, float(np.abs(M - zxz_matrix(*ang)).max()))
            back = srot.from_matrix(M).as_euler("zxz", degrees=True)
            e2 = max(e2, float(np.abs(zxz_matrix(*back) - M).max()), float(np.abs(zxz_matrix(*zxz_angles(M)) - M).max()))
        out.append(dict(name="scipy from_euler('zxz') = Rz(psi)Rx(theta)Rz(phi); as_euler / own extraction return the same rotation", ok=e1 < 1e-12 and e2 < 1e-9,
                        detail=f"max dev {e1:.2e} / {e2:.2e}"))
    except Exception as e:
        out.append(dict(name="assumption probes", ok=False, detail=f"{type(e).__name__}: {e}"))
    return out


LEVEL_TEXT = ("Lean 4 theorems about an executable model of nnana.get_nn_stats, for all lists, all k, all pixel sizes: the k-nearest-neighbour selection meets KnnSpec "
              "(min(k,n) distinct candidates of the same tomogram, ascending in the squared distance of complete positions, nothing left out is closer) for every key "
              "function (knn_spec), is the only such list when there are no ties (knn_unique), and the Boolean checker run on the implementation's own neighbour "
              "lists decides KnnSpec exactly (checkKnn_iff); every row of the table is the report about a query and a same-tomogram particle with the stated distance, "
              "subtomogram numbers, particle-frame offset, relative orientation and angle (nnStats_sound), every query of a common tomogram gets all its rows "
              "(nnStats_complete), rows are ordered tomogram/rank/query (nnStats_order, tomoRows_queries_in_list_order, tomoRows_length); the code's "
              "from_euler('zxz', -[psi,theta,phi]) is exactly the inverse orientation (inverse_orientation); and for every orthogonal Q and every translation the whole "
              "table is unchanged except that the tomogram-frame offset co-rotates (nnStats_rigid, pair_rigid). Tied to the source by 27 regenerated expression "
              "anchors and by a differential run of the real get_nn_stats against the model, the verified checker on the real output, and two real runs on rigidly moved copies")
LEVEL_NOTE = ("partial: KD-tree = brute force, scipy Euler conversions, square root / arccos and the quaternion form of the angular distance are outside the proofs "
              "(services or assumptions, probed and compared numerically each run); theorems are exact-arithmetic facts, the implementation runs in binary64 "
              "(exact on the generated 1/64 grid for all neighbour decisions)")
TECHNIQUE = "Lean 4 proof (sorting/permutation lemmas, 3x3 matrix algebra over any commutative ring, relational lifting over lists) + regenerated expression anchors + differential correspondence + verified checker on the implementation's output"
DESIGN_REF = "DESIGN.md section 4, C18"
