"""C18 — nearest-neighbour analysis equals brute force, invariant under rigid motion (DESIGN.md section 4, C18).

Observed function: cryocat.nnana.get_nn_stats (table), run on a pair of particle lists and on the same pair moved
rigidly (rotation Q, translation t; all or some tomograms) by this module's own numpy code - either as fresh Motl
objects or IN PLACE on the very objects of the first call (cross-call state). Both tables are judged alike: Lean
verified checker checkKnn on the reported neighbours, direct evaluation of the statement per row, comparison with the
Lean model; the two tables are compared with each other (invariance); every particle list handed to the library is
compared before/after the call; column dtypes are recorded as returned.

Finding kinds: `spec` = a clause of the statement fails on the real output (checker / own evaluation / two real runs /
caller's list edited / numeric field returned as text in a NON-EMPTY table / exception raised inside cryocat); `corr` =
difference to the model or to the documented table layout, or an exception without a frame inside cryocat/
(harness-or-library-raised). Exceptions are classified by their TYPE's origin (frame inside cryocat/ or not) and by the
precondition of the case (common tomogram or not), never by message text.
No open known finding: C18-K1 (lists sharing no tomogram raised ValueError instead of giving an empty table) is fixed by
C18-fix-1; on a tree without the fix the clause `disjoint-empty-result` is a spec finding with a replay; on the repaired tree
the real empty table is compared with the model's (Props/C18 `k1_model_returns_empty`).
"""
import ast, math, json, hashlib
import numpy as np
import core
from core import f2b, b2f

PROP = "C18"
COUNT = {"quick": 120, "thorough": 2500, "search": 600}
PARALLEL = True
GRID = 64  # positions and shifts are multiples of 1/64 (so squared distances are exact in binary64)
RULE = ("pairs of particle lists (1..200 particles each, 1..4 tomograms with arbitrary non-contiguous or 1,2,3.. numbers; rows interleaved, in ascending / descending / "
        "shuffled tomogram blocks; tomogram sets equal / overlapping (half of the time the tomogram one list lacks sorts BELOW a common one) / disjoint / 'clamp' (an early "
        "common tomogram has fewer candidates than k, a later one more); second list independent, coincident with the first (same Motl object), or a superset of it), "
        "subtomogram numbers unique in the list or restarting in every tomogram (35 %: rows are identified by (tomogram, position in the tomogram's subset), never by the "
        "number alone), positions and non-zero shifts on the 1/64 grid (wide, dense-cluster and jittered-lattice layouts), arbitrary real Euler angles incl. gimbal, next-to-gimbal "
        "and out-of-range values, in 20 % of the cases drawn from a small pool so that query and neighbour carry bit-identical (or 1e-9..1e-4 degrees apart) orientations, "
        "k in 1..5 (also k > number of candidates; passed as int or numpy.int64), pixel size dyadic or a 2-3 decimal value such as 1.35 / 13.48 (passed as float, numpy.float64, or int when integral), "
        "angles also with 1-3 decimals as in a text file; column types float64 (60 %), identifier columns int64 (20 %), EVERY column int64 with integer positions / shifts / angles (20 %: "
        "what reading an all-integer STAR file gives); row labels of the caller's DataFrame default (60 %), ascending with gaps, duplicated, not ascending, or one label for every row "
        "(Motl(df) keeps them); float32 columns are not generated (no cryoCAT reader produces them: EM files are widened to float64 on load); "
        "random proper rotation Q (also identity / half turns) and real translation t applied to all or to SOME "
        "tomograms; cases with a tie among the k+1 smallest squared distances of any query are regenerated. "
        "Call form: get_nn_stats(Motl, Motl, pixel_size=, feature_id='tomo_id', nn_number=, rotation_type='angular_distance'); each of feature_id / rotation_type is OMITTED in "
        "30 % of the cases, pixel_size in 30 % of those with pixel size 1, nn_number in 30 % of those with k = 1, so that the library's defaults are exercised. "
        "Cross-call state (35 %, mode 'inplace'): the SAME Motl object(s) (both / only the second / only the first list) are analysed, moved rigidly in place, and analysed again; "
        "otherwise fresh objects are built for the moved lists. Both calls are judged alike (verified checker, statement, model) and every particle list is compared before/after each call. "
        "Column order (round 8): in 30 % of the cases the 20 columns of each caller's DataFrame are stored in another order than Motl.motl_columns (reversed, x/z swapped, identifiers-first, random permutation; "
        "Motl.__init__ accepts any order); observations and in-place edits address columns by name. "
        "Receiver classes (round 7): each list is an object of Motl (65 %) or, independently, of EmMotl / RelionMotl / StopgapMotl / DynamoMotl / ModMotl built from the same table, so that an override of "
        "get_motl_subset / get_coordinates / get_angles / get_feature in a format subclass is executed when it is reachable (the subsets nnana works on are base Motl objects: an override of "
        "get_coordinates alone is unreachable from get_nn_stats and is caught by the framework's overriding-subclass obligation only). "
        "The documented call form with two FILE PATHS (get_nn_stats(path_a, path_b)) is NOT exercised and nothing is claimed about it: the quantifier ranges over pairs of particle LISTS "
        "(Motl objects); the path form is a loading convenience that fails before any analysis starts (TypeError: Motl.__init__() got an unexpected keyword argument 'motl_path'; "
        "Motl.load(path) would be the call) - a defect of the library noted as an out-of-scope observation, neither a finding of C18 nor covered by a fix. "
        "non-trivial = some common tomogram has >= 2 queries and more candidates than k, a non-zero shift occurs and Q is not the identity; distinct = distinct content hash of the case")
ASSUMPTIONS = [
    "sklearn.neighbors.KDTree.query(k) returns the k smallest Euclidean distances in ascending order (= brute force); checked on every case by the Lean verified checker on the implementation's own neighbour lists, and probed. The checker runs on EXACT integers (round 7: checkKnnInt — the driver forms every complete position x + shift in binary64 exactly as numpy does, decodes the resulting doubles to their exact dyadic values, scales them by one common power of two and compares exact squared distances in Int), so Props/C18 checkKnnInt_iff (LinearOrder Int) applies to its verdict literally, on the 1/64 grid AND on the real-valued moved lists; what stays assumed is only that the KD-tree's own binary64 distance arithmetic orders candidates like the exact distances (generated gap between distinct squared distances >= 2^-12 against a rounding error < 1e-9)",
    "binary64 arithmetic on the 1/64 grid is exact for complete positions and squared distances (the tree works on UNSCALED coordinates, so a decimal pixel size never enters a neighbour decision; the pixel size multiplies afterwards, the same single rounding in numpy and in the Float driver), so numpy's and the Float driver's neighbour decisions equal the exact-arithmetic ones of the theorems; after the harness' rigid motion the squared distances carry a rounding error < 1e-9 against a gap >= 2^-12 between distinct values, so the decisions stay the same",
    "scipy Rotation.from_euler('zxz', degrees=True) is the matrix Rz(psi)Rx(theta)Rz(phi); as_euler returns a triple of the same rotation, except that inside its gimbal-lock zone (|sin theta| <= 1e-7) it zeroes the third angle and the triple describes a rotation up to 2 sin(theta) (< 1e-5 degrees) away: Euler triples REPORTED by the library are compared with tolerance 1e-9 + 3 sin(theta) there (probed against this module's own matrices)",
    "the quaternion formula 2*arccos(min(|q1.q2|,1)) of geom.angular_distance equals the rotation angle arccos((trace-1)/2) = atan2(|skew|/2, (trace-1)/2) of the relative rotation: PROVED over the reals (Props/C18 angular_distance_is_rotation_angle, nnStats_angular_real, through C06 angDist_is_rotation_angle / trace_rel); in binary64 the two forms are compared with a conditioning-aware tolerance",
    "a table whose subtomogram numbers repeat across tomograms carries no tomogram column: a row is attributed to the (query, neighbour) pair with those two numbers whose distance and offset it reports; rows that say exactly the same about several pairs are interchangeable and are spread over the pairs (documented row layout as tie-break only)",
]
TRUSTED = ["props/c18.py own numpy code: zxz matrices, Euler extraction, rigid motion of a particle list, brute-force evaluation of the statement, attribution of table rows to (query, neighbour) pairs"]

COLS = ["score", "geom1", "geom2", "subtomo_id", "tomo_id", "object_id", "subtomo_mean", "x", "y", "z",
        "shift_x", "shift_y", "shift_z", "geom3", "geom4", "geom5", "phi", "psi", "theta", "class"]
STATS_COLUMNS = ["distance", "coord_x", "coord_y", "coord_z", "coord_rx", "coord_ry", "coord_rz", "angular_distance", "rot_x", "rot_y", "rot_z",
                 "phi", "theta", "psi", "subtomo_idx", "subtomo_nn_idx"]


# ------------------------------------------------------------------ translator
# Names of the local variables of the anchored functions at the documented (pinned) source, in order of their first binding
# OCCURRENCE in the source text. The translator renames the locals of the CURRENT source, by binding order, to these names before
# any expression is extracted, so that a rename of a local variable leaves every anchor unchanged while an added / removed /
# reordered binding shifts them. A local that is bound but never read (a discard such as `_`, whatever it is called) takes no
# slot: every one of them is written `_` (H2).
DOC_LOCALS = {
    "get_feature_nn_indices": ["coord_a", "coord_nn", "nn_count", "kdt_nn", "nn_dist", "nn_idx", "ordered_idx"],
    "get_nn_distances": ["features_a", "features_nn", "features", "centered_coord", "nn_dist", "angular_distances", "rotated_coord", "subtomo_idx",
                         "subtomo_idx_nn", "f", "fm_a", "fm_nn", "idx", "nn_idx", "dist", "nn_count", "coord_nn", "coord_a", "angles_a", "angles_nn",
                         "rotations", "angles", "rot", "subtomos_nn", "subtomos_a", "i", "c_coord", "angles_nn_sel", "rotations_nn"],
    "get_nn_rotations": ["features_a", "features_nn", "features", "nn_rotations", "f", "fm_a", "fm_nn", "idx", "idx_nn", "nn_count", "angles_nn",
                         "angles_ref_to_zero", "rot_to_zero", "i", "rot_nn", "points_on_sphere", "angles"],
    "get_nn_stats": ["centered_coord", "rotated_coord", "nn_dist", "ang_dst", "subtomo_idx", "subtomo_idx_nn", "coord_rot", "angles", "nn_stats"],
    "angular_distance": ["rot1", "rot2", "angles1", "angles2", "sym_div", "q1", "q2", "angle", "dist"],
    "compare_rotations": ["dist_degrees", "dist_degrees_normals", "dist_degrees_inplane"],
    "visualize_rotations": ["starting_point", "new_points", "fig", "ax"],
    "get_coordinates": ["coord"],
    "get_angles": ["angles"],
    "get_feature": ["missing_columns"],
    "get_motl_subset": ["new_df", "i", "df_i"],
}
MISSING = "<anchor missing>"  # value written to Gen/C18.lean for an anchor that cannot be extracted (no Gen value feeds the model)
MSG = "<msg>"                 # every exception / log / print message text is written like this (H1)
_LOG_CALLS = {"print", "warn", "warning", "info", "debug", "error", "critical", "exception", "log"}


def _emptiness(node):
    """('empty' | 'nonempty', X) when `node` tests whether len(X) is zero, in any of the usual spellings; else None"""
    def is_len(n):
        return isinstance(n, ast.Call) and isinstance(n.func, ast.Name) and n.func.id == "len" and len(n.args) == 1 and not n.keywords

    def num(n):
        return n.value if isinstance(n, ast.Constant) and type(n.value) is int else None

    if isinstance(node, ast.UnaryOp) and isinstance(node.op, ast.Not):
        if is_len(node.operand):
            return ("empty", node.operand.args[0])
        inner = _emptiness(node.operand)
        if inner:
            return ("nonempty" if inner[0] == "empty" else "empty", inner[1])
        return None
    if isinstance(node, ast.Compare) and len(node.ops) == 1:
        l, op, r = node.left, node.ops[0], node.comparators[0]
        flip = {ast.Lt: ast.Gt, ast.Gt: ast.Lt, ast.LtE: ast.GtE, ast.GtE: ast.LtE, ast.Eq: ast.Eq, ast.NotEq: ast.NotEq}
        if is_len(r) and num(l) is not None and type(op) in flip:
            l, op, r = r, flip[type(op)](), l
        if is_len(l) and num(r) is not None:
            c, t = num(r), type(op)
            if (t, c) in ((ast.Eq, 0), (ast.LtE, 0), (ast.Lt, 1)):
                return ("empty", l.args[0])
            if (t, c) in ((ast.NotEq, 0), (ast.Gt, 0), (ast.GtE, 1)):
                return ("nonempty", l.args[0])
    return None


class _Canon(ast.NodeTransformer):
    """edits that cannot change behaviour are written one way (H1): no annotations, message texts as MSG, `len(X) == 0` /
    `len(X) > 0` for every spelling of the emptiness test"""

    def _strip_msgs(self, node):
        class M(ast.NodeTransformer):
            def visit_JoinedStr(self, n):
                return ast.copy_location(ast.Constant(MSG), n)

            def visit_Constant(self, n):
                return ast.copy_location(ast.Constant(MSG), n) if isinstance(n.value, str) else n
        return M().visit(node)

    def visit_arg(self, n):
        n.annotation = None
        return n

    def visit_FunctionDef(self, n):
        n.returns = None
        self.generic_visit(n)
        return n

    def visit_AnnAssign(self, n):
        self.generic_visit(n)
        if n.value is None:
            return ast.copy_location(ast.Pass(), n)  # a bare declaration `x: T`
        return ast.copy_location(ast.Assign(targets=[n.target], value=n.value), n)

    def visit_Raise(self, n):
        self.generic_visit(n)
        if n.exc is not None:
            n.exc = self._strip_msgs(n.exc)
        return n

    def visit_Expr(self, n):
        self.generic_visit(n)
        c = n.value
        if isinstance(c, ast.Call):
            name = c.func.attr if isinstance(c.func, ast.Attribute) else (c.func.id if isinstance(c.func, ast.Name) else "")
            if name in _LOG_CALLS:
                c.args = [self._strip_msgs(a) for a in c.args]
        return n

    def _emp(self, n):
        e = _emptiness(n)
        if e is None:
            return None
        kind, x = e
        x = self.visit(x)
        call = ast.Call(func=ast.Name("len", ast.Load()), args=[x], keywords=[])
        return ast.copy_location(ast.Compare(left=call, ops=[ast.Eq() if kind == "empty" else ast.Gt()], comparators=[ast.Constant(0)]), n)

    def visit_UnaryOp(self, n):
        return self._emp(n) or self.generic_visit(n)

    def visit_Compare(self, n):
        return self._emp(n) or self.generic_visit(n)


def _alpha(fn):
    """copy of the function, canonicalised (_Canon) and with its local variables renamed, by order of their first binding
    occurrence in the source, to the documented names; `fn._orig` maps every canonical name back to the identifier in the source"""
    import copy
    fn = copy.deepcopy(fn)
    fn = _Canon().visit(fn)
    ast.fix_missing_locations(fn)
    a = fn.args
    params = {x.arg for x in a.posonlyargs + a.args + a.kwonlyargs} | ({a.vararg.arg} if a.vararg else set()) | ({a.kwarg.arg} if a.kwarg else set())
    stores, loads = [], set()
    for n in ast.walk(fn):
        if isinstance(n, ast.Name):
            if isinstance(n.ctx, ast.Store):
                stores.append((n.lineno, n.col_offset, n.id))
            else:
                loads.add(n.id)
        elif isinstance(n, ast.AugAssign) and isinstance(n.target, ast.Name):
            loads.add(n.target.id)  # `x += 1` reads x
    order = []
    for _, _, name in sorted(stores):
        if name not in params and name not in order:
            order.append(name)
    discards = [x for x in order if x not in loads]          # bound, never read: `_` or any other name
    order = [x for x in order if x in loads]
    doc = DOC_LOCALS.get(fn.name, [])
    ren = {old: (doc[k] if k < len(doc) else f"_local{k}") for k, old in enumerate(order)}
    ren.update({old: "_" for old in discards})

    class Rename(ast.NodeTransformer):
        def visit_Name(self, n):
            if n.id in ren:
                n.id = ren[n.id]
            return n

    Rename().visit(fn)
    fn._orig = {new: old for old, new in ren.items() if new != "_"}
    fn._locals = order
    return fn


def _fn(src, rel, name):
    f = _alpha(src.find(rel, name))
    f._rel = rel
    f._lines = src.text(rel).splitlines()
    return f


def _here(fn, canon):
    """how the documented local `canon` is called in the current source (for AnchorMissing texts, H2)"""
    orig = getattr(fn, "_orig", {})
    if canon in orig:
        return f"`{canon}`" + ("" if orig[canon] == canon else f" (called `{orig[canon]}` in the current source)")
    return f"`{canon}` (documented local number {DOC_LOCALS.get(fn.name, []).index(canon) + 1 if canon in DOC_LOCALS.get(fn.name, []) else '?'}; the current source binds {getattr(fn, '_locals', [])})"


def _dump_pairs(fn):
    """normalised dump of a whole function as (text, line number): signature, then one entry per statement (nesting depth as leading
    dots, docstring dropped)"""
    E = core.norm_expr
    out = [("def " + fn.name + "(" + E(fn.args) + ")", fn.lineno)]

    def block(stmts, d):
        for s in stmts:
            pre = "." * d
            if isinstance(s, ast.Expr) and isinstance(s.value, ast.Constant) and isinstance(s.value.value, str):
                continue
            if isinstance(s, ast.If):
                out.append((pre + "if " + E(s.test), s.lineno))
                block(s.body, d + 1)
                if s.orelse:
                    out.append((pre + "else", s.orelse[0].lineno))
                    block(s.orelse, d + 1)
            elif isinstance(s, (ast.For, ast.While)):
                out.append((pre + ("for " + E(s.target) + " in " + E(s.iter) if isinstance(s, ast.For) else "while " + E(s.test)), s.lineno))
                block(s.body, d + 1)
                if s.orelse:
                    out.append((pre + "else", s.orelse[0].lineno))
                    block(s.orelse, d + 1)
            elif isinstance(s, (ast.With, ast.Try, ast.FunctionDef, ast.ClassDef, ast.Match) if hasattr(ast, "Match") else (ast.With, ast.Try, ast.FunctionDef, ast.ClassDef)):
                out.append((pre + type(s).__name__ + ":" + ast.unparse(s).replace(" ", "").replace("\n", ";"), s.lineno))
            else:
                out.append((pre + E(s), s.lineno))

    block(fn.body, 1)
    return out


def _dump(fn):
    return [t for t, _ in _dump_pairs(fn)]


_DOC_CACHE = {}


def _documented(name):
    """the hand-written list literal that Props/C18.lean states for `Gen.C18.<name>` (None when it cannot be read): used ONLY to point
    at the changed source line in the console output — the obligation itself is the Lean theorem"""
    import os, re
    if "text" not in _DOC_CACHE:
        try:
            _DOC_CACHE["text"] = open(os.path.join(core.LEAN, "CryoCat", "Props", "C18.lean")).read()
        except OSError:
            _DOC_CACHE["text"] = ""
    m = re.search(r"Gen\.C18\." + re.escape(name) + r"\s*=\s*\[", _DOC_CACHE["text"])
    if not m:
        return None
    out, i, t = [], m.end(), _DOC_CACHE["text"]
    while i < len(t):
        if t[i] == "]":
            return out
        if t[i] == '"':
            j, buf = i + 1, []
            while j < len(t) and t[j] != '"':
                if t[j] == "\\" and j + 1 < len(t):
                    buf.append(t[j + 1]); j += 2
                else:
                    buf.append(t[j]); j += 1
            out.append("".join(buf)); i = j + 1
        elif t[i] in " ,\n\r\t":
            i += 1
        else:
            return None
    return None


def _pointer(src, anchor_name, gen_name, fn_thunk):
    """Python-side diagnosis of a whole-body anchor: when the dump differs from the list documented in Props/C18.lean, record WHERE
    (file, line, the statement as it stands, the documented statement) as a failed anchor `…:changed`. The Lean theorem
    `body_…_documented` fails in exactly the same situations, so this adds a readable message, never a new reason to fail."""
    try:
        fn = fn_thunk()
        pairs = _dump_pairs(fn)
    except Exception:
        return
    doc = _documented(gen_name)
    cur = [t for t, _ in pairs]
    if doc is None or doc == cur:
        return
    import difflib
    msgs = []
    sm = difflib.SequenceMatcher(a=doc, b=cur, autojunk=False)
    for tag, i1, i2, j1, j2 in sm.get_opcodes():
        if tag == "equal":
            continue
        line = pairs[j1][1] if j1 < len(pairs) else (pairs[-1][1] if pairs else fn.lineno)
        now = "; ".join(fn._lines[pairs[j][1] - 1].strip() for j in range(j1, min(j2, j1 + 3))) if j2 > j1 else "(nothing)"
        was = "; ".join(doc[i1:min(i2, i1 + 3)]) if i2 > i1 else "(nothing)"
        verb = {"replace": "changed", "delete": "removed", "insert": "added"}[tag]
        msgs.append(f"{fn._rel}:{line}: {verb}: source now `{now}` | documented `{was}`")
    src.anchors.append(dict(name=anchor_name + ":changed", ok=False, value=None,
                            detail=f"{fn.name} differs from its documented body (Props/C18.lean, Gen.C18.{gen_name}) at: " + " || ".join(msgs[:4])))


def _assign_value(fn, target):
    """value expression of the first `target = ...` inside fn"""
    for n in ast.walk(fn):
        if isinstance(n, ast.Assign) and len(n.targets) == 1 and core.norm_expr(n.targets[0]) == target:
            return n.value
    raise core.AnchorMissing(f"{fn.name} ({getattr(fn, '_rel', '?')}:{fn.lineno}): no assignment `{target} = ...`; " + ", ".join(_here(fn, c) for c in target.strip("()").split(",")))


def _calls(fn, attr):
    return [n for n in ast.walk(fn) if isinstance(n, ast.Call) and isinstance(n.func, ast.Attribute) and n.func.attr == attr]


def _named_calls(fn, name):
    return [n for n in ast.walk(fn) if isinstance(n, ast.Call) and ((isinstance(n.func, ast.Attribute) and n.func.attr == name) or (isinstance(n.func, ast.Name) and n.func.id == name))]


def _append_arg(fn, listname):
    for n in ast.walk(fn):
        if (isinstance(n, ast.Call) and isinstance(n.func, ast.Attribute) and n.func.attr == "append"
                and isinstance(n.func.value, ast.Name) and n.func.value.id == listname):
            return n.args[0]
    raise core.AnchorMissing(f"{fn.name} ({getattr(fn, '_rel', '?')}:{fn.lineno}): no `{listname}.append(...)`; " + _here(fn, listname))


def _euler_calls(fn):
    """(sequence literal, degrees flag) of every from_euler / as_euler call, in source order"""
    out = []
    for n in sorted(_calls(fn, "from_euler") + _calls(fn, "as_euler"), key=lambda c: (c.lineno, c.col_offset)):
        seq = n.args[0].value if n.args and isinstance(n.args[0], ast.Constant) else None
        deg = any(k.arg == "degrees" and isinstance(k.value, ast.Constant) and k.value.value is True for k in n.keywords)
        if seq is None:
            raise core.AnchorMissing(f"{fn.name}: euler sequence is not a literal")
        out.append((seq, deg))
    if not out:
        raise core.AnchorMissing(f"{fn.name}: no from_euler/as_euler call")
    return out


def _defaults(fn):
    """['name=literal', ...] for every parameter of fn that has a default, in signature order"""
    a = fn.args
    names = [x.arg for x in a.posonlyargs + a.args]
    out = [f"{n}={ast.literal_eval(d)!r}" for n, d in zip(names[len(names) - len(a.defaults):], a.defaults)]
    out += [f"{x.arg}={ast.literal_eval(d)!r}" for x, d in zip(a.kwonlyargs, a.kw_defaults) if d is not None]
    return out


def translate(src):
    nn, gm, cm = "cryocat/nnana.py", "cryocat/geom.py", "cryocat/cryomotl.py"
    E = core.norm_expr
    S = core.lean_str

    def coord_cols():
        fn = _fn(src, cm, "Motl.get_coordinates")
        for n in ast.walk(fn):
            if isinstance(n, ast.Assign) and isinstance(n.value, ast.BinOp) and isinstance(n.value.op, ast.Add):
                lists = [src.literal(x) for x in ast.walk(n.value) if isinstance(x, ast.List)]
                if len(lists) == 2:
                    return lists
        raise core.AnchorMissing("Motl.get_coordinates: [x,y,z] + [shift_x,shift_y,shift_z]")

    cc = src.anchor("Motl.get_coordinates:columns", coord_cols)

    def angle_cols():
        fn = _fn(src, cm, "Motl.get_angles")
        for n in ast.walk(fn):
            if isinstance(n, ast.Assign) and any(isinstance(x, ast.List) for x in ast.walk(n.value)):
                return src.literal(next(x for x in ast.walk(n.value) if isinstance(x, ast.List)))
        raise core.AnchorMissing("Motl.get_angles: column list")

    ac = src.anchor("Motl.get_angles:columns", angle_cols)
    fi = lambda: _fn(src, nn, "get_feature_nn_indices")
    fd = lambda: _fn(src, nn, "get_nn_distances")
    fr = lambda: _fn(src, nn, "get_nn_rotations")
    fs = lambda: _fn(src, nn, "get_nn_stats")
    tcoord = src.anchor("get_feature_nn_indices:coordinates", lambda: E(_assign_value(fi(), "coord_a")) + ";" + E(_assign_value(fi(), "coord_nn")))
    subs_d = src.anchor("get_nn_distances:tomogram-subsets", lambda: E(_assign_value(fd(), "features")) + ";" + E(_assign_value(fd(), "fm_a")) + ";" + E(_assign_value(fd(), "fm_nn")))
    subs_r = src.anchor("get_nn_rotations:tomogram-subsets", lambda: E(_assign_value(fr(), "features")) + ";" + E(_assign_value(fr(), "fm_a")) + ";" + E(_assign_value(fr(), "fm_nn")))
    nn_count = src.anchor("get_feature_nn_indices:nn_count", lambda: E(_assign_value(fi(), "nn_count")))
    tree = src.anchor("get_feature_nn_indices:tree", lambda: E(_assign_value(fi(), "kdt_nn")))
    query = src.anchor("get_feature_nn_indices:query", lambda: E(_assign_value(fi(), "(nn_dist,nn_idx)")))
    inv_d = src.anchor("get_nn_distances:inverse-angles", lambda: E(_assign_value(fd(), "angles")))
    offs = src.anchor("get_nn_distances:offset", lambda: E(_assign_value(fd(), "c_coord")))
    dist = src.anchor("get_nn_distances:distance", lambda: E(_append_arg(fd(), "nn_dist")))
    frame = src.anchor("get_nn_distances:frame-offset", lambda: E(_append_arg(fd(), "rotated_coord")))
    angd = src.anchor("get_nn_distances:angular", lambda: E(_append_arg(fd(), "angular_distances")))
    sub_nn = src.anchor("get_nn_distances:subtomo-nn", lambda: E(_append_arg(fd(), "subtomo_idx_nn")) + ";" + E(_assign_value(fd(), "subtomos_nn")))
    sub_a = src.anchor("get_nn_distances:subtomo-a", lambda: E(_append_arg(fd(), "subtomo_idx")) + ";" + E(_assign_value(fd(), "subtomos_a")))
    scale = src.anchor("get_nn_distances:pixel-scaling", lambda: E(_assign_value(fd(), "coord_nn")) + ";" + E(_assign_value(fd(), "coord_a")))
    rots = src.anchor("get_nn_distances:rotations", lambda: E(_assign_value(fd(), "rotations")) + ";" + E(_assign_value(fd(), "rot")) + ";" + E(_assign_value(fd(), "rotations_nn")))
    eul_d = src.anchor("get_nn_distances:euler-calls", lambda: [f"{s}:{'deg' if d else 'rad'}" for s, d in _euler_calls(fd())])
    inv_r = src.anchor("get_nn_rotations:inverse-angles", lambda: E(_assign_value(fr(), "angles_ref_to_zero")))
    rel = src.anchor("get_nn_rotations:relative", lambda: E(_append_arg(fr(), "nn_rotations")) + ";" + E(_assign_value(fr(), "rot_to_zero")) + ";" + E(_assign_value(fr(), "rot_nn")))
    def inv_cols(fth, var):
        f = fth()
        node = _assign_value(f, var)
        lists = [x for x in ast.walk(node) if isinstance(x, ast.List)]
        if not (isinstance(node, ast.UnaryOp) and isinstance(node.op, ast.USub) and len(lists) == 1):
            raise core.AnchorMissing(f"{f.name} ({f._rel}:{node.lineno}): {_here(f, var)} is not `-<columns [c1, c2, c3] of the query subset>`: `{f._lines[node.lineno - 1].strip()}`")
        return src.literal(lists[0])

    invc_d = src.anchor("get_nn_distances:inverse-columns", lambda: inv_cols(fd, "angles"))
    invc_r = src.anchor("get_nn_rotations:inverse-columns", lambda: inv_cols(fr, "angles_ref_to_zero"))
    eul_r = src.anchor("get_nn_rotations:euler-calls", lambda: [f"{s}:{'deg' if d else 'rad'}" for s, d in _euler_calls(fr())])

    def stats_cols():
        for n in ast.walk(fs()):
            if isinstance(n, ast.keyword) and n.arg == "columns":
                return src.literal(n.value)
        raise core.AnchorMissing("get_nn_stats: columns=[...]")

    scol = src.anchor("get_nn_stats:columns", stats_cols)

    def stats_defaults():
        a = fs().args
        names = [x.arg for x in a.args]
        defs = dict(zip(names[len(names) - len(a.defaults):], a.defaults))
        return [str(src.literal(defs["feature_id"])), str(src.literal(defs["rotation_type"]))]

    sdef = src.anchor("get_nn_stats:defaults", stats_defaults)
    # G1: every signature default the statement depends on, and the keywords by which get_nn_stats hands its arguments on
    sig_s = src.anchor("get_nn_stats:signature-defaults", lambda: _defaults(fs()))
    sig_d = src.anchor("get_nn_distances:signature-defaults", lambda: _defaults(fd()))
    sig_r = src.anchor("get_nn_rotations:signature-defaults", lambda: _defaults(fr()))
    sig_i = src.anchor("get_feature_nn_indices:signature-defaults", lambda: _defaults(fi()))
    sig_g = src.anchor("geom:signature-defaults", lambda: [";".join(_defaults(_fn(src, gm, f))) for f in ("compare_rotations", "angular_distance", "visualize_rotations")])

    def inner_calls():
        f = fs()
        out = []
        for name in ("get_nn_distances", "get_nn_rotations"):
            c = _named_calls(f, name)
            if len(c) != 1:
                raise core.AnchorMissing(f"get_nn_stats: {len(c)} calls of {name}")
            out.append(E(c[0]))
        c = _named_calls(fr(), "visualize_rotations")
        if len(c) != 1:
            raise core.AnchorMissing("get_nn_rotations: visualize_rotations call")
        out.append(E(c[0]))
        c = _named_calls(fd(), "get_feature_nn_indices") + _named_calls(fr(), "get_feature_nn_indices")
        out.append(";".join(E(x) for x in c))
        return out

    icalls = src.anchor("get_nn_stats:inner-calls", inner_calls)
    shst = src.anchor("get_nn_stats:hstack-order", lambda: E(next(c for c in _calls(fs(), "hstack")).args[0]))

    def ang_formula():
        """the angle expression with an optional clamp `np.minimum(X, 1.0)` of the dot product removed (the clamp is recorded separately)"""
        node = _assign_value(_fn(src, gm, "angular_distance"), "angle")
        clamped = [False]

        class Strip(ast.NodeTransformer):
            def visit_Call(self, n):
                self.generic_visit(n)
                if (isinstance(n.func, ast.Attribute) and n.func.attr in ("minimum", "clip") and len(n.args) >= 2
                        and isinstance(n.args[-1], ast.Constant) and float(n.args[-1].value) == 1.0):
                    clamped[0] = True
                    return n.args[0]
                return n

        import copy
        return [E(Strip().visit(copy.deepcopy(node))), "clamped" if clamped[0] else "unclamped"]

    angf2 = src.anchor("geom.angular_distance:formula", ang_formula)
    angf, angc = (angf2 if angf2 else (None, None))

    def cmp_branch():
        fn = _fn(src, gm, "compare_rotations")
        dd = E(_assign_value(fn, "dist_degrees"))
        for n in ast.walk(fn):
            if isinstance(n, ast.If) and "'angular_distance'" in ast.unparse(n.test):
                return dd + ";" + E(n.test) + ";" + E(n.body[0])
        raise core.AnchorMissing("compare_rotations: angular_distance branch")

    cmpb = src.anchor("geom.compare_rotations:angular_distance-branch", cmp_branch)
    zax = src.anchor("geom.visualize_rotations:z-axis", lambda: E(_assign_value(_fn(src, gm, "visualize_rotations"), "starting_point")) + ";" +
                     E(_assign_value(_fn(src, gm, "visualize_rotations"), "new_points")))
    # G5: whole bodies (locals alpha-renamed), so that an added statement or a changed branch that no case executes is seen
    body_i = src.anchor("get_feature_nn_indices:body", lambda: _dump(fi()))
    body_d = src.anchor("get_nn_distances:body", lambda: _dump(fd()))
    body_r = src.anchor("get_nn_rotations:body", lambda: _dump(fr()))
    body_s = src.anchor("get_nn_stats:body", lambda: _dump(fs()))
    body_a = src.anchor("geom.angular_distance:body", lambda: _dump(_fn(src, gm, "angular_distance")))
    body_c = src.anchor("geom.compare_rotations:body", lambda: _dump(_fn(src, gm, "compare_rotations")))
    # the helpers the analysis goes through (work list 3): tomogram subsets, column access, complete positions, angles, z-axis image
    body_v = src.anchor("geom.visualize_rotations:body", lambda: _dump(_fn(src, gm, "visualize_rotations")))
    body_m = src.anchor("Motl.get_motl_subset:body", lambda: _dump(_fn(src, cm, "Motl.get_motl_subset")))
    body_f = src.anchor("Motl.get_feature:body", lambda: _dump(_fn(src, cm, "Motl.get_feature")))
    body_p = src.anchor("Motl.get_coordinates:body", lambda: _dump(_fn(src, cm, "Motl.get_coordinates")))
    body_g = src.anchor("Motl.get_angles:body", lambda: _dump(_fn(src, cm, "Motl.get_angles")))
    # executed on every call but without influence on the reported angle (rotation_type='angular_distance'): binding discipline only
    src.anchor("geom.cone_inplane_distance:bound", lambda: src.find(gm, "cone_inplane_distance").name)
    src.anchor("Motl.create_empty_motl_df:bound", lambda: src.find(cm, "Motl.create_empty_motl_df").name)
    src.anchor("Motl.__init__:bound", lambda: src.find(cm, "Motl.__init__").name)
    for an_, gn_, rel_, qn_ in (("get_feature_nn_indices:body", "bodyIndices", nn, "get_feature_nn_indices"), ("get_nn_distances:body", "bodyDistances", nn, "get_nn_distances"),
                            ("get_nn_rotations:body", "bodyRotations", nn, "get_nn_rotations"), ("get_nn_stats:body", "bodyStats", nn, "get_nn_stats"),
                            ("geom.angular_distance:body", "bodyAngular", gm, "angular_distance"), ("geom.compare_rotations:body", "bodyCompare", gm, "compare_rotations"),
                            ("geom.visualize_rotations:body", "bodyVisualize", gm, "visualize_rotations"), ("Motl.get_motl_subset:body", "bodySubset", cm, "Motl.get_motl_subset"),
                            ("Motl.get_feature:body", "bodyFeature", cm, "Motl.get_feature"), ("Motl.get_coordinates:body", "bodyCoordinates", cm, "Motl.get_coordinates"),
                            ("Motl.get_angles:body", "bodyAngles", cm, "Motl.get_angles")):
        _pointer(src, an_, gn_, lambda rel_=rel_, qn_=qn_: _fn(src, rel_, qn_))

    def L(v):
        return core.lean_str_list(v) if isinstance(v, list) and all(isinstance(x, str) for x in v) else core.lean_str_list([MISSING])

    def LL(v):
        if not (isinstance(v, list) and all(isinstance(x, str) for x in v)):
            return core.lean_str_list([MISSING])
        return "[\n  " + ",\n  ".join(S(x) for x in v) + "]"

    def T(v):
        return S(v if isinstance(v, str) else MISSING)

    return f"""-- GENERATED by harness/props/c18.py from {nn}, {gm}, {cm}; do not edit
namespace CryoCat.Gen.C18
def anchorsOk : Bool := {"true" if src.ok else "false"}
def coordColumns : List String := {L(cc[0] if cc else None)}
def shiftColumns : List String := {L(cc[1] if cc else None)}
def angleColumns : List String := {L(ac)}
def treeCoordinates : String := {T(tcoord)}
def subsetsDistances : String := {T(subs_d)}
def subsetsRotations : String := {T(subs_r)}
def nnCountExpr : String := {T(nn_count)}
def treeExpr : String := {T(tree)}
def queryExpr : String := {T(query)}
def invAnglesDistances : String := {T(inv_d)}
def invAnglesRotations : String := {T(inv_r)}
def invColumnsDistances : List String := {L(invc_d)}
def invColumnsRotations : List String := {L(invc_r)}
def offsetExpr : String := {T(offs)}
def distanceExpr : String := {T(dist)}
def frameOffsetExpr : String := {T(frame)}
def angularExpr : String := {T(angd)}
def subtomoNnExpr : String := {T(sub_nn)}
def subtomoAExpr : String := {T(sub_a)}
def pixelScalingExpr : String := {T(scale)}
def rotationsExpr : String := {T(rots)}
def eulerCallsDistances : List String := {L(eul_d)}
def relativeExpr : String := {T(rel)}
def eulerCallsRotations : List String := {L(eul_r)}
def statsColumns : List String := {L(scol)}
def statsDefaults : List String := {L(sdef)}
def statsHstack : String := {T(shst)}
def angularFormula : String := {T(angf)}
def angularDotClamp : String := {T(angc)}
def compareBranch : String := {T(cmpb)}
def zAxisExpr : String := {T(zax)}
def sigStats : List String := {L(sig_s)}
def sigDistances : List String := {L(sig_d)}
def sigRotations : List String := {L(sig_r)}
def sigIndices : List String := {L(sig_i)}
def sigGeom : List String := {L(sig_g)}
def innerCalls : List String := {L(icalls)}
def bodyIndices : List String := {LL(body_i)}
def bodyDistances : List String := {LL(body_d)}
def bodyRotations : List String := {LL(body_r)}
def bodyStats : List String := {LL(body_s)}
def bodyAngular : List String := {LL(body_a)}
def bodyCompare : List String := {LL(body_c)}
def bodyVisualize : List String := {LL(body_v)}
def bodySubset : List String := {LL(body_m)}
def bodyFeature : List String := {LL(body_f)}
def bodyCoordinates : List String := {LL(body_p)}
def bodyAngles : List String := {LL(body_g)}
end CryoCat.Gen.C18
"""


# ------------------------------------------------------------------ own numpy geometry
class HarnessError(RuntimeError):
    """a failure of this module's own code (never attributed to cryoCAT)"""


def rz(a):
    c, s = math.cos(a), math.sin(a)
    return np.array([[c, -s, 0.0], [s, c, 0.0], [0.0, 0.0, 1.0]])


def rx(a):
    c, s = math.cos(a), math.sin(a)
    return np.array([[1.0, 0.0, 0.0], [0.0, c, -s], [0.0, s, c]])


def zxz_matrix(phi, theta, psi):
    """extrinsic zxz of (phi, theta, psi) in degrees: Rz(psi) Rx(theta) Rz(phi)"""
    return rz(math.radians(psi)) @ rx(math.radians(theta)) @ rz(math.radians(phi))


def zxz_angles(R):
    """(phi, theta, psi) in degrees with zxz_matrix(phi, theta, psi) = R, accurate also next to the gimbal lock: psi comes from the
    (possibly ill-conditioned) third column, phi from the always well-conditioned sum phi+psi (cos theta >= 0: R00+R11 = (1+cos)cos(phi+psi),
    R10-R01 = (1+cos)sin(phi+psi)) or difference psi-phi (cos theta < 0: R00-R11 = (1-cos)cos(psi-phi), R10+R01 = (1-cos)sin(psi-phi)),
    so that an error of psi is compensated in phi"""
    st = math.hypot(R[0, 2], R[1, 2])
    theta = math.atan2(st, R[2, 2])
    psi = math.atan2(R[0, 2], -R[1, 2]) if st > 1e-300 else 0.0
    if R[2, 2] >= 0:
        phi = math.atan2(R[1, 0] - R[0, 1], R[0, 0] + R[1, 1]) - psi
    else:
        phi = psi - math.atan2(R[1, 0] + R[0, 1], R[0, 0] - R[1, 1])
    phi = math.atan2(math.sin(phi), math.cos(phi))
    out = (math.degrees(phi), math.degrees(theta), math.degrees(psi))
    if not np.abs(zxz_matrix(*out) - R).max() <= 1e-12:
        raise HarnessError(f"own Euler extraction failed (dev {np.abs(zxz_matrix(*out) - R).max():.3g})")
    return out


def quat_matrix(q):
    w, x, y, z = np.array(q, dtype=float) / np.linalg.norm(q)
    return np.array([[1 - 2 * (y * y + z * z), 2 * (x * y - z * w), 2 * (x * z + y * w)],
                     [2 * (x * y + z * w), 1 - 2 * (x * x + z * z), 2 * (y * z - x * w)],
                     [2 * (x * z - y * w), 2 * (y * z + x * w), 1 - 2 * (x * x + y * y)]])


def rot_angle_deg(M):
    sk = math.sqrt((M[2, 1] - M[1, 2]) ** 2 + (M[0, 2] - M[2, 0]) ** 2 + (M[1, 0] - M[0, 1]) ** 2)
    return math.degrees(math.atan2(sk / 2.0, (np.trace(M) - 1.0) / 2.0))


def move_list(rows, Q, t, only=None):
    """rigid motion of the particles of the tomograms in `only` (None: every tomogram): complete position -> Q pos + t,
    orientation R -> Q R; shifts kept; the other particles are returned unchanged"""
    out = []
    for r in rows:
        tomo, sub, x, y, z, sx, sy, sz, ph, th, ps = r
        if only is not None and int(tomo) not in only:
            out.append(list(r))
            continue
        p = Q @ np.array([x + sx, y + sy, z + sz]) + t
        a = zxz_angles(Q @ zxz_matrix(ph, th, ps))
        out.append([tomo, sub, float(p[0] - sx), float(p[1] - sy), float(p[2] - sz), sx, sy, sz, a[0], a[1], a[2]])
    return out


def _moved(case):
    Q, t = quat_matrix(case["Q"]), np.array(case["t"], dtype=float)
    mt = case.get("move_tomos")
    only = None if mt is None else {int(x) for x in mt}
    return move_list(case["a"], Q, t, only), move_list(case["nn"], Q, t, only)


# ------------------------------------------------------------------ generators
def _ties(a, nn, k):
    """True when, for some query, two of the k+1 smallest squared distances to same-tomogram candidates coincide (exact integers)"""
    A = np.array([[r[0]] + [round((r[2 + i] + r[5 + i]) * GRID) for i in range(3)] for r in a], dtype=np.int64)
    B = np.array([[r[0]] + [round((r[2 + i] + r[5 + i]) * GRID) for i in range(3)] for r in nn], dtype=np.int64)
    for t in set(A[:, 0]) & set(B[:, 0]):
        pa, pb = A[A[:, 0] == t][:, 1:], B[B[:, 0] == t][:, 1:]
        if len(pb) < 2:
            continue
        D = ((pa[:, None, :] - pb[None, :, :]) ** 2).sum(-1)
        D.sort(axis=1)
        m = min(k + 1, D.shape[1])
        if (np.diff(D[:, :m], axis=1) == 0).any():
            return True
    return False


def _angle(rng, kind):
    u = rng.random()
    if u < 0.55:
        return rng.uniform(0, 180) if kind == "theta" else rng.uniform(-180, 180)
    if u < 0.70:  # H3: decimal angles with 1..3 decimals, as written in a STAR / text file (off the dyadic grid)
        return round(rng.uniform(0, 180) if kind == "theta" else rng.uniform(-180, 180), rng.choice([1, 2, 2, 3]))
    if u < 0.82:
        return rng.choice([0.0, 90.0, 180.0, -90.0, 45.0, 30.0, 120.0])
    if u < 0.88:
        return rng.choice([0.0, 180.0]) if kind == "theta" else rng.choice([0.0, 360.0, -180.0])
    if u < 0.90 and kind == "theta":
        return rng.choice([0.0, 180.0]) + rng.choice([-1, 1]) * 10 ** rng.uniform(-9, -4)  # next to the gimbal lock
    return rng.uniform(-720, 720)  # out of the canonical range


def _g(rng, R):
    return rng.randint(-R * GRID, R * GRID) / GRID


def _tomoseq(rng, counts, order):
    """tomogram number of every row of a list with `counts` = [(tomogram, number of particles)]"""
    blocks = [[t] * c for t, c in counts]
    if order == "interleaved":
        seq = [t for b in blocks for t in b]
        rng.shuffle(seq)
        return seq
    if order == "ascending":
        blocks.sort(key=lambda b: b[0])
    elif order == "descending":
        blocks.sort(key=lambda b: -b[0])
    else:
        rng.shuffle(blocks)
    return [t for b in blocks for t in b]


def _subids(rng, seq, submode, sub0):
    """subtomogram numbers: unique in the list, or restarting in every tomogram (unique only within list x tomogram)"""
    n = len(seq)
    if submode == "unique":
        return rng.sample(range(sub0, sub0 + 5 * n + 10), n)
    pools = {}
    out = []
    for t in seq:
        if t not in pools:
            c = seq.count(t)
            pools[t] = rng.sample(range(1, c + 3), c)
        out.append(pools[t].pop())
    return out


def _particles(rng, seq, layout, R, submode, sub0, pool=None):
    n = len(seq)
    subs = _subids(rng, seq, submode, sub0)
    rows = []
    centres = [[_g(rng, R) for _ in range(3)] for _ in range(3)]
    for i in range(n):
        if layout == "wide":
            p = [_g(rng, R) for _ in range(3)]
        elif layout == "cluster":
            c = rng.choice(centres)
            p = [c[j] + _g(rng, max(1, R // 16)) for j in range(3)]
        else:  # lattice with a small jitter: many nearly equal distances
            p = [float(rng.randint(-6, 6) * 4) + rng.randint(-20, 20) / GRID for _ in range(3)]
        if rng.random() < 0.8:
            sh = [rng.randint(-4 * GRID, 4 * GRID) / GRID for _ in range(3)]
        else:
            sh = [0.0, 0.0, 0.0]
        if pool is not None and rng.random() < 0.8:
            ang = list(rng.choice(pool))  # orientations from a discrete set (template matching): query and neighbour bit-identical
            if rng.random() < 0.25:       # ... or a hair apart: the relative orientation sits next to the Euler pole
                ang[1] += rng.choice([-1, 1]) * 10 ** rng.uniform(-9, -4)
        else:
            ang = [_angle(rng, "phi"), _angle(rng, "theta"), _angle(rng, "psi")]
        rows.append([seq[i], subs[i], p[0] - sh[0], p[1] - sh[1], p[2] - sh[2], sh[0], sh[1], sh[2]] + ang)
    return rows


def _size(rng, tier):
    u = rng.random()
    if tier == "search":
        return rng.randint(1, 12)
    if u < 0.15:
        return rng.randint(1, 3)
    if u < 0.70:
        return rng.randint(2, 30)
    if u < 0.92:
        return rng.randint(20, 90)
    return rng.randint(90, 200)


def _split(rng, n, tomos):
    """[(tomogram, count >= 1)] with the counts adding up to max(n, len(tomos))"""
    c = {t: 1 for t in tomos}
    for _ in range(max(0, n - len(tomos))):
        c[rng.choice(tomos)] += 1
    return [(t, c[t]) for t in tomos]


def _tomoconfig(rng, tier, k):
    """tomogram sets and sizes of the two lists -> (counts_a, counts_nn, family)"""
    na, nb = _size(rng, tier), _size(rng, tier)
    u = rng.random()
    if rng.random() < 0.5:
        ids = sorted(rng.sample(range(1, 400), 7))  # arbitrary non-contiguous numbers
    else:
        ids = list(range(1, 8))                      # 1, 2, 3 ... as in real projects
    if u < 0.40:
        nt = rng.choice([1, 1, 2, 3, 4])
        T = rng.sample(ids, nt)
        return _split(rng, na, T), _split(rng, nb, T), "same"
    if u < 0.72:
        # partial overlap; half of the time the tomogram one list lacks sorts BELOW a common one
        nc = rng.choice([1, 1, 2, 3])
        ne = rng.choice([1, 1, 2])
        if rng.random() < 0.5:
            chosen = sorted(rng.sample(ids, nc + ne))
            extra, common = chosen[:ne], chosen[ne:]
        else:
            chosen = rng.sample(ids, nc + ne)
            extra, common = chosen[:ne], chosen[ne:]
        side = rng.choice(["a", "nn", "both"])
        ea = extra if side == "a" else (extra[:1] if side == "both" else [])
        en = extra if side == "nn" else (extra[1:] if side == "both" else [])
        ta, tn = (common + ea)[:4], (common + en)[:4]
        rng.shuffle(ta); rng.shuffle(tn)
        return _split(rng, na, ta), _split(rng, nb, tn), "partial"
    if u < 0.82:
        T = rng.sample(ids, rng.choice([2, 3, 4]))
        cut = rng.randint(1, len(T) - 1)
        return _split(rng, na, T[:cut]), _split(rng, nb, T[cut:]), "disjoint"
    # "clamp": an early tomogram has fewer candidates than k, a later one has more
    nt = rng.choice([2, 2, 3, 4])
    T = sorted(rng.sample(ids, nt))
    ca = _split(rng, max(na, nt), T)
    cn = [(T[0], rng.randint(1, max(1, k - 1)))] + [(t, k + rng.randint(1, 6)) for t in T[1:]]
    if rng.random() < 0.3:
        rng.shuffle(cn)
    return ca, cn, "clamp"


def _one(rng, tier):
    k = rng.choice([1, 1, 2, 3, 4, 5])
    ca, cn, family = _tomoconfig(rng, tier, k)
    if family == "clamp" and k == 1:
        k = rng.choice([2, 3, 4, 5])
        ca, cn, family = _tomoconfig_clamp(rng, tier, k)
    layout = rng.choice(["wide", "wide", "cluster", "lattice"])
    R = rng.choice([8, 32, 256]) if layout != "lattice" else 32
    order_a = rng.choice(["interleaved", "interleaved", "ascending", "descending", "blocks"])
    order_n = rng.choice(["interleaved", "interleaved", "ascending", "descending", "blocks"])
    submode = "per-tomogram" if rng.random() < 0.35 else "unique"
    pool = None
    if rng.random() < 0.2:
        pool = [[_angle(rng, "phi"), _angle(rng, "theta"), _angle(rng, "psi")] for _ in range(rng.randint(1, 4))]
    a = _particles(rng, _tomoseq(rng, ca, order_a), layout, R, submode, 1, pool)
    rel = rng.random()
    if rel < 0.15 and family != "clamp":
        nn, relation = [list(r) for r in a], "coincident"
    elif rel < 0.27 and family != "clamp":
        extra = _particles(rng, _tomoseq(rng, _split(rng, sum(c for _, c in cn), [t for t, _ in ca]), order_n), layout, R, "unique", 5000, pool)
        nn = [list(r) for r in a] + extra
        rng.shuffle(nn)
        nn, relation = nn[:200], "superset"
        if submode == "per-tomogram":
            cnt = {}
            for r in nn:
                cnt[r[0]] = cnt.get(r[0], 0) + 1
                r[1] = cnt[r[0]]
    else:
        nn, relation = _particles(rng, _tomoseq(rng, cn, order_n), layout, R, submode, 1 if submode == "per-tomogram" else 5000, pool), "independent"
    px = rng.choice([1.0, 1.0, 0.5, 2.0, rng.randint(1, 128) / 8.0, rng.randint(1, 128) / 8.0,
                     round(rng.uniform(0.5, 20.0), rng.choice([2, 3])), rng.choice([1.35, 2.176, 13.48, 0.834, 3.42])])  # H3: decimal pixel sizes (Angstrom / px)
    # H3: column types and row labels a user naturally has. 'int-ids': identifier columns int64 (a STAR file with integer tokens),
    # 'int64': EVERY column int64 (all-integer file: integer positions, shifts and angles); labels: what Motl(df) keeps after
    # remove_feature (gaps), concatenation without reset (duplicates), sorting (not ascending)
    dtype = rng.choice(["float64"] * 6 + ["int-ids"] * 2 + ["int64"] * 2)
    if dtype == "int64":
        for l in ((a,) if nn is a else (a, nn)):
            for r in l:
                c = [float(round(r[2 + i] + r[5 + i])) for i in range(3)]
                sh = [float(round(x)) for x in r[5:8]]
                r[2:11] = [c[0] - sh[0], c[1] - sh[1], c[2] - sh[2]] + sh + [float(round(x)) for x in r[8:11]]
    labels = {"a": _labels(rng, len(a)), "nn": _labels(rng, len(nn))}
    forms = [f for f, pr in (("k_numpy", 0.15), ("px_numpy", 0.1)) if rng.random() < pr]
    # round 7: the particle lists are objects of Motl (65 %) or of one of its format subclasses, independently for the two lists
    # round 8: stored column order of the two DataFrames (70 % canonical for both)
    colorder = {"a": None, "nn": None} if rng.random() < 0.7 else {"a": _colorder(rng), "nn": _colorder(rng)}
    receiver = {"a": "Motl", "nn": "Motl"} if rng.random() < 0.65 else {"a": rng.choice(RECEIVERS), "nn": rng.choice(RECEIVERS)}
    if float(px) == int(px) and rng.random() < 0.4:
        forms.append("px_int")
    qk = rng.random()
    if qk < 0.08:
        Q = [1.0, 0.0, 0.0, 0.0]
    elif qk < 0.16:
        Q = rng.choice([[0.0, 1.0, 0.0, 0.0], [0.0, 0.0, 1.0, 0.0], [0.0, 0.0, 0.0, 1.0], [1.0, 0.0, 0.0, 1.0]])
    else:
        Q = [rng.gauss(0, 1) for _ in range(4)]
    t = [0.0, 0.0, 0.0] if rng.random() < 0.08 else [rng.uniform(-1000, 1000) for _ in range(3)]
    # G1: leave keywords out so that the library's own defaults are exercised
    omit = [kw for kw in ("feature_id", "rotation_type") if rng.random() < 0.3]
    if px == 1.0 and rng.random() < 0.3:
        omit.append("pixel_size")
    if k == 1 and rng.random() < 0.3:
        omit.append("nn_number")
    # G2: the same caller-owned Motl objects across two calls, moved in place between them
    mode, reuse = "fresh", None
    if rng.random() < 0.35:
        mode, reuse = "inplace", rng.choice(["both", "both", "nn", "a"])
    move_tomos = None
    alltomos = sorted({int(r[0]) for r in a} | {int(r[0]) for r in nn})
    if rng.random() < 0.4 and len(alltomos) > 1:
        move_tomos = sorted(rng.sample(alltomos, rng.randint(1, len(alltomos) - 1)))
    ta, tn = {int(r[0]) for r in a}, {int(r[0]) for r in nn}
    overlap = "disjoint" if not (ta & tn) else ("same" if ta == tn else "partial")
    return dict(a=a, nn=nn, k=k, px=px, Q=Q, t=t, layout=layout, relation=relation, overlap=overlap, family=family, submode=submode,
                omit=omit, mode=mode, reuse=reuse, move_tomos=move_tomos, dtype=dtype, labels=labels, forms=forms, receiver=receiver, colorder=colorder)


def _labels(rng, n):
    """row labels of the caller's DataFrame: None = 0..n-1"""
    u = rng.random()
    if u < 0.6:
        return None
    if u < 0.75:   # gaps, ascending (rows were removed)
        return sorted(rng.sample(range(0, 3 * n + 5), n))
    if u < 0.87:   # duplicates (two tables concatenated without reset)
        h = max(1, n // 2)
        return (list(range(h)) + list(range(n - h)))[:n] if n > 1 else [0]
    if u < 0.95:   # not ascending (sorted by another column)
        l = list(range(n))
        rng.shuffle(l)
        return l
    return [7] * n  # one label for every row


def _tomoconfig_clamp(rng, tier, k):
    while True:
        ca, cn, family = _tomoconfig(rng, tier, k)
        if family == "clamp":
            return ca, cn, family


def generate(rng, tier, n):
    for _ in range(n):
        for attempt in range(40):
            case = _one(rng, tier)
            if not _ties(case["a"], case["nn"], case["k"]):
                break
        else:
            continue
        yield case


def shrink(case):
    def ok(c):
        if len(c["a"]) < 1 or len(c["nn"]) < 1 or _ties(c["a"], c["nn"], c["k"]):
            return False
        if "pixel_size" in c.get("omit", []) and c["px"] != 1.0:
            return False
        if "nn_number" in c.get("omit", []) and c["k"] != 1:
            return False
        if c.get("dtype") == "int64" and any(float(x) != round(x) for l in (c["a"], c["nn"]) for r in l for x in r[2:11]):
            return False
        for name in ("a", "nn"):
            lab = (c.get("labels") or {}).get(name)
            if lab is not None and len(lab) != len(c[name]):
                return False
        return True

    cands = []
    for name in ("a", "nn"):
        l = case[name]
        if len(l) > 1:
            lab = (case.get("labels") or {}).get(name)
            h = len(l) // 2
            for part, lp in ((l[:h], lab[:h] if lab else None), (l[h:], lab[h:] if lab else None)):
                c = dict(case, **{name: part}, relation="independent", labels=dict(case.get("labels") or {}, **{name: lp}))
                cands.append(c)
            if len(l) <= 12:
                for i in range(len(l)):
                    cands.append(dict(case, **{name: l[:i] + l[i + 1:]}, relation="independent",
                                      labels=dict(case.get("labels") or {}, **{name: (lab[:i] + lab[i + 1:]) if lab else None})))
    if case.get("omit"):
        cands.append(dict(case, omit=[]))
    if case.get("dtype", "float64") != "float64":
        cands.append(dict(case, dtype="float64"))
        if case["dtype"] == "int64":
            cands.append(dict(case, dtype="int-ids"))
    if any((case.get("labels") or {}).values()):
        cands.append(dict(case, labels={"a": None, "nn": None}))
    if case.get("forms"):
        cands.append(dict(case, forms=[]))
    if any((case.get("colorder") or {}).values()):
        cands.append(dict(case, colorder={"a": None, "nn": None}))
        for nm in ("a", "nn"):
            if (case["colorder"] or {}).get(nm) not in (None, list(reversed(COLS))):
                cands.append(dict(case, colorder=dict(case["colorder"], **{nm: list(reversed(COLS))})))
    if any(v != "Motl" for v in (case.get("receiver") or {}).values()):
        cands.append(dict(case, receiver={"a": "Motl", "nn": "Motl"}))
    if case.get("mode", "fresh") != "fresh":
        cands.append(dict(case, mode="fresh", reuse=None))
    if case.get("move_tomos") is not None:
        cands.append(dict(case, move_tomos=None))
    if case["k"] > 1:
        cands.append(dict(case, k=case["k"] - 1))
    if case["px"] != 1.0:
        cands.append(dict(case, px=1.0))
    if case["Q"] != [1.0, 0.0, 0.0, 0.0]:
        cands.append(dict(case, Q=[1.0, 0.0, 0.0, 0.0]))
        if case["Q"] != [1.0, 0.0, 0.0, 1.0]:
            cands.append(dict(case, Q=[1.0, 0.0, 0.0, 1.0]))
    if case["t"] != [0.0, 0.0, 0.0]:
        cands.append(dict(case, t=[0.0, 0.0, 0.0]))
    for name in ("a", "nn"):
        l = case[name]
        if any(r[5:8] != [0.0, 0.0, 0.0] for r in l):
            cands.append(dict(case, **{name: [[r[0], r[1], r[2] + r[5], r[3] + r[6], r[4] + r[7], 0.0, 0.0, 0.0] + r[8:] for r in l]}, relation="independent"))
        if any(r[8:] != [0.0, 0.0, 0.0] for r in l):
            cands.append(dict(case, **{name: [r[:8] + [0.0, 0.0, 0.0] for r in l]}, relation="independent"))
            cands.append(dict(case, **{name: [r[:8] + [float(round(x / 30.0) * 30 % 360) for x in r[8:]] for r in l]}, relation="independent"))
        if any(float(x) != round(x) for r in l for x in r[2:5]):
            cands.append(dict(case, **{name: [r[:2] + [float(round(x)) for x in r[2:5]] + r[5:] for r in l]}, relation="independent"))
    for c in cands:
        if c != case and ok(c):
            yield c


# ------------------------------------------------------------------ implementation
MOTL_FIELDS = ["tomo_id", "subtomo_id", "x", "y", "z", "shift_x", "shift_y", "shift_z", "phi", "theta", "psi"]


INT_ID_COLUMNS = ["subtomo_id", "tomo_id", "object_id", "class", "geom1", "geom2"]


RECEIVERS = ["Motl", "EmMotl", "RelionMotl", "StopgapMotl", "DynamoMotl", "ModMotl"]


def _colorder(rng):
    """stored order of the 20 motl columns in the caller's DataFrame (round 8): None = Motl.motl_columns; Motl.__init__ accepts any
    order (it compares the sorted names) and every documented access is by column NAME"""
    u = rng.random()
    if u < 0.25:
        return None
    if u < 0.5:
        return list(reversed(COLS))
    if u < 0.7:   # x, y, z (and the shifts) stored as z, y, x
        sw = {"x": "z", "z": "x", "shift_x": "shift_z", "shift_z": "shift_x"}
        return [sw.get(c, c) for c in COLS]
    if u < 0.8:   # written down by hand: identifiers, position, shifts, angles, the rest
        first = ["subtomo_id", "tomo_id", "x", "y", "z", "shift_x", "shift_y", "shift_z", "phi", "theta", "psi"]
        return first + [c for c in COLS if c not in first]
    l = list(COLS)
    rng.shuffle(l)
    return l


def _motl(rows, dtype="float64", labels=None, receiver="Motl", colorder=None):
    """the caller's particle list: a Motl — or one of its format subclasses (round 7: the receiver class decides which
    get_motl_subset / get_coordinates / ... the analysis calls) — around a DataFrame with the given column types and row labels (H3)"""
    import pandas as pd
    from cryocat import cryomotl
    df = pd.DataFrame(0.0, index=range(len(rows)), columns=COLS)
    arr = np.array(rows, dtype=float).reshape(len(rows), 11)
    for j, c in enumerate(MOTL_FIELDS):
        df[c] = arr[:, j]
    df["score"] = np.linspace(0.1, 0.9, len(rows)) if dtype != "int64" else (np.arange(len(rows)) % 3).astype(float)
    df["object_id"] = np.arange(len(rows))[::-1] % 7
    df["geom1"] = 1.0
    if dtype == "int64" and all(float(x) == round(x) for x in arr[:, 2:].ravel()):
        df = df.astype("int64")
    elif dtype in ("int-ids", "int64"):  # a moved copy of an all-integer list has real coordinates: only the identifiers stay integer
        if dtype == "int64":
            df["score"] = np.linspace(0.1, 0.9, len(rows))
        df = df.astype({c: "int64" for c in INT_ID_COLUMNS})
    if labels is not None:
        if len(labels) != len(rows):
            raise HarnessError("case carries row labels for another number of rows")
        df.index = list(labels)
    if colorder is not None:
        if sorted(colorder) != sorted(COLS):
            raise HarnessError("case carries a column order that is not a permutation of the 20 motl columns")
        df = df[list(colorder)]                # same table, same names, other stored order; everything below addresses columns by name
    if receiver in (None, "Motl"):
        return cryomotl.Motl(motl_df=df)
    if receiver not in RECEIVERS:
        raise HarnessError(f"unknown receiver class {receiver}")
    m = getattr(cryomotl, receiver)(df)       # the subclass constructors take a DataFrame in motl format (they copy and re-label it)
    if dtype != "float64" or labels is not None or colorder is not None:
        m.df = df                             # ... and a user who wants her own table keeps it by plain attribute assignment
    return m


def _rewrite_in_place(m, rows):
    """the caller edits ITS OWN particle list between two analyses: same Motl object, same DataFrame object, new numbers. Written
    so that it works for every column type and every labelling (positional; an integer column that receives real numbers is
    replaced as a whole, as `df[c] = values` does)"""
    arr = np.array(rows, dtype=float).reshape(len(rows), 11)
    for j, c in enumerate(MOTL_FIELDS):
        if j >= 2:
            if m.df[c].dtype.kind == "f":
                m.df.iloc[:, m.df.columns.get_loc(c)] = arr[:, j]
            else:
                m.df[c] = arr[:, j]


def _snap(m):
    df = m.df
    return dict(id=id(df), cols=[str(c) for c in df.columns], index=[repr(i) for i in df.index], dtypes=[str(d) for d in df.dtypes],
                values=df.to_numpy(dtype=float, copy=True))


def _snapdiff(name, before, m):
    """what the call changed in a caller-owned particle list (empty when nothing)"""
    out = []
    after = _snap(m)
    if after["id"] != before["id"]:
        out.append(f"{name}.df was replaced by another DataFrame object")
    for key in ("cols", "index", "dtypes"):
        if after[key] != before[key]:
            out.append(f"{name}.df {key} changed: {str(before[key])[:80]} -> {str(after[key])[:80]}")
    if after["values"].shape != before["values"].shape:
        out.append(f"{name}.df shape {before['values'].shape} -> {after['values'].shape}")
    elif not np.array_equal(after["values"], before["values"], equal_nan=True):
        r, c = np.argwhere(~((after["values"] == before["values"]) | (np.isnan(after["values"]) & np.isnan(before["values"]))))[0]
        out.append(f"{name}.df row {int(r)} column {before['cols'][int(c)]}: {before['values'][r, c]!r} -> {after['values'][r, c]!r}")
    return out


def _exc_info(e):
    import traceback
    tb = traceback.extract_tb(e.__traceback__)
    where = ""
    for fr in reversed(tb):
        if "/cryocat/" in fr.filename:
            where = f"{fr.filename.rsplit('/', 1)[-1]}:{fr.lineno}"
            break
    last = f"{tb[-1].filename.rsplit('/', 1)[-1]}:{tb[-1].lineno}" if tb else ""
    return dict(type=type(e).__name__, msg=str(e)[:300], where=where, in_cryocat=bool(where), last=last)


def _observe(t):
    """what came back, with its types: no coercion (G3)"""
    import pandas as pd
    if not isinstance(t, pd.DataFrame):
        return {"not_a_table": type(t).__name__}
    cols = [str(c) for c in t.columns]
    dtypes, data, text = {}, {}, {}
    for c in cols:
        col = t[c]
        dtypes[c] = str(col.dtype)
        if pd.api.types.is_numeric_dtype(col.dtype) and not pd.api.types.is_bool_dtype(col.dtype) and not pd.api.types.is_complex_dtype(col.dtype):
            data[c] = col.to_numpy().tolist()
        else:
            text[c] = sorted({repr(x) for x in col.head(50)})[:5]
    return {"cols": cols, "dtypes": dtypes, "data": data, "text": text, "nrows": int(len(t))}


def _call(ma, mn, case):
    from cryocat import nnana
    forms = case.get("forms") or []
    px = int(case["px"]) if "px_int" in forms and float(case["px"]) == int(case["px"]) else (np.float64(case["px"]) if "px_numpy" in forms else case["px"])
    kw = dict(pixel_size=px, feature_id="tomo_id", nn_number=np.int64(case["k"]) if "k_numpy" in forms else case["k"], rotation_type="angular_distance")
    for o in case.get("omit", []):
        kw.pop(o, None)
    ba, bn = _snap(ma), (None if mn is ma else _snap(mn))
    try:
        t = nnana.get_nn_stats(ma, mn, **kw)
    except Exception as e:
        out = {"raised": _exc_info(e)}
    else:
        out = _observe(t)
    out["mutated"] = _snapdiff("first list", ba, ma) + ([] if mn is ma else _snapdiff("second list", bn, mn))
    out["keywords"] = sorted(kw)
    return out


def run_impl(case):
    a, nn = case["a"], case["nn"]
    if "pixel_size" in case.get("omit", []) and case["px"] != 1.0 or "nn_number" in case.get("omit", []) and case["k"] != 1:
        raise HarnessError("case omits a keyword whose value is not the documented default")
    same_obj = case.get("relation") == "coincident" and a == nn
    a2, nn2 = _moved(case)
    out = {"moved_lists": {"a": a2, "nn": nn2}}
    dt = case.get("dtype", "float64")
    la, ln = (case.get("labels") or {}).get("a"), (case.get("labels") or {}).get("nn")
    ra, rn = (case.get("receiver") or {}).get("a", "Motl"), (case.get("receiver") or {}).get("nn", "Motl")
    ca, cn_ = (case.get("colorder") or {}).get("a"), (case.get("colorder") or {}).get("nn")
    ma = _motl(a, dt, la, ra, ca)
    mn = ma if same_obj else _motl(nn, dt, ln, rn, cn_)
    out["orig"] = _call(ma, mn, case)
    if case.get("mode", "fresh") == "inplace":
        reuse = case.get("reuse") or "both"
        if same_obj:
            _rewrite_in_place(ma, a2)
            mb = mc = ma
        else:
            if reuse in ("both", "a"):
                _rewrite_in_place(ma, a2)
                mb = ma
            else:
                mb = _motl(a2, dt, la, ra, ca)
            if reuse in ("both", "nn"):
                _rewrite_in_place(mn, nn2)
                mc = mn
            else:
                mc = _motl(nn2, dt, ln, rn, cn_)
        out["moved"] = _call(mb, mc, case)
    else:
        mb = _motl(a2, dt, la, ra, ca)
        mc = mb if same_obj else _motl(nn2, dt, ln, rn, cn_)
        out["moved"] = _call(mb, mc, case)
    return out


def _wire(rows):
    return [[int(r[0]), int(r[1])] + [f2b(x) for x in r[2:]] for r in rows]


# ------------------------------------------------------------------ reading one table
REQUIRED = STATS_COLUMNS


def _rows_of(tab):
    """rows in STATS_COLUMNS order from an observed table, or (None, why)"""
    if "data" not in tab:
        return None, "no table"
    miss = [c for c in REQUIRED if c not in tab["cols"]]
    if miss:
        return None, f"columns missing: {miss}"
    if not tab["nrows"]:
        return [], None  # an empty table: whatever dtype pandas gave its (empty) columns
    bad = [c for c in REQUIRED if c not in tab["data"]]
    if bad:
        return None, f"not numeric: {bad}"
    return [list(x) for x in zip(*[tab["data"][c] for c in REQUIRED])], None


def _subsets(rows):
    out = {}
    for r in rows:
        out.setdefault(int(r[0]), []).append(r)
    return out


def _cpos(r):
    return np.array([r[2] + r[5], r[3] + r[6], r[4] + r[7]])


def _layout(a, nn, k, nrows):
    """(tomogram, query position) per row index in the documented layout (common tomograms ascending, rank, query in list order);
    None when the table does not have the expected number of rows. Used ONLY to choose among pairs about which a row says exactly
    the same (same numbers, same distance, offsets, angle, orientation), never to decide what a row means otherwise."""
    sa, sn = _subsets(a), _subsets(nn)
    out = []
    for t in sorted(set(sa) & set(sn)):
        for rank in range(min(k, len(sn[t]))):
            out += [(t, i) for i in range(len(sa[t]))]
    return out if len(out) == nrows else None


def _identify(a, nn, px, rows, k=None):
    """which (tomogram, position in the tomogram's subset) of the first / second list every reported row talks about:
    (t, i, t2, j) per row, None when the reported subtomogram numbers name no such pair. Subtomogram numbers may repeat across
    tomograms: among the pairs that carry the two reported numbers, pairs within one tomogram are preferred and the pair whose
    distance and offset are closest to the reported ones is taken."""
    sa, sn = _subsets(a), _subsets(nn)
    qmap, nmap = {}, {}
    for t, l in sa.items():
        for i, r in enumerate(l):
            qmap.setdefault(int(r[1]), []).append((t, i))
    for t, l in sn.items():
        for j, r in enumerate(l):
            nmap.setdefault(int(r[1]), []).append((t, j))
    out = []
    used_pair, used_query = {}, {}
    hint = _layout(a, nn, k, len(rows)) if k is not None else None
    for n_, r in enumerate(rows):
        s_q, s_n = r[14], r[15]
        if not (isinstance(s_q, (int, float)) and isinstance(s_n, (int, float)) and s_q == s_q and s_n == s_n
                and abs(s_q) < 2 ** 53 and abs(s_n) < 2 ** 53 and s_q == int(s_q) and s_n == int(s_n)):
            out.append(None)
            continue
        pairs = [(t, i, t2, j) for (t, i) in qmap.get(int(s_q), []) for (t2, j) in nmap.get(int(s_n), [])]
        same = [p for p in pairs if p[0] == p[2]]
        cand = same or pairs
        if not cand:
            out.append(None)
            continue
        if len(cand) > 1:
            # first what the grid decides exactly (distance and tomogram-frame offset of the pair), then, among the pairs that
            # fit equally, everything else the row says
            br = {p: _brute(px, sa[p[0]][p[1]], sn[p[2]][p[3]]) for p in cand}

            def geo(p):
                b = br[p]
                s = (abs(r[0] - b["dist"]) + float(np.abs(np.array(r[1:4]) - b["off"]).max())) / (1 + abs(b["dist"]))
                return s if s == s else float("inf")

            def rest(p):
                b = br[p]
                s = float(np.abs(np.array(r[4:7]) - b["frame"]).max()) / (1 + abs(b["dist"])) + abs(r[7] - b["ang"]) + float(np.abs(zxz_matrix(r[11], r[12], r[13]) - b["rel"]).max())
                return s if s == s else float("inf")

            g = {p: geo(p) for p in cand}
            cand = [p for p in cand if g[p] <= min(g.values()) + 1e-9 or g[p] == min(g.values())]
            sc = {p: rest(p) for p in cand}
            best = min(sc.values())
            # rows that say exactly the same about several pairs are interchangeable: spread them over the pairs
            cand = sorted((p for p in cand if sc[p] <= best + 1e-9 or sc[p] == best), key=lambda p: (0 if hint and hint[n_] == p[:2] else 1, used_pair.get(p, 0), used_query.get(p[:2], 0)))
        p = cand[0]
        used_pair[p] = used_pair.get(p, 0) + 1
        used_query[p[:2]] = used_query.get(p[:2], 0) + 1
        out.append(p)
    return out


def _claims(a, nn, ident):
    """per query of a common tomogram: [tomogram, query index, candidate indices in the order of their rows]"""
    sa, sn = _subsets(a), _subsets(nn)
    common = sorted(set(sa) & set(sn))
    per = {(t, i): [] for t in common for i in range(len(sa[t]))}
    stray = []
    for n, p in enumerate(ident):
        if p is None:
            continue
        t, i, t2, j = p
        if (t, i) not in per:
            stray.append(n)
            continue
        per[(t, i)].append(j if t2 == t else 10 ** 6)  # a neighbour from another tomogram can never pass the checker
    return [[t, i, js] for (t, i), js in sorted(per.items())], stray


def _tables(case, obs):
    """[(label, first list, second list, observed table)] of the calls of the case"""
    out = [("orig", case["a"], case["nn"], obs["orig"])]
    if "moved" in obs and "moved_lists" in obs:
        out.append(("moved", obs["moved_lists"]["a"], obs["moved_lists"]["nn"], obs["moved"]))
    return out


def _plan(case, obs):
    """[(tag, driver request)]: the model's table for every call, and the verified checker on every table that could be read"""
    plan = []
    if not isinstance(obs, dict) or "orig" not in obs:
        return [("stats:orig", dict(op="stats", k=case["k"], px=f2b(case["px"]), a=_wire(case["a"]), nn=_wire(case["nn"])))]
    for label, a, nn, tab in _tables(case, obs):
        base = dict(k=case["k"], px=f2b(case["px"]), a=_wire(a), nn=_wire(nn))
        plan.append(("stats:" + label, dict(base, op="stats")))
        rows, _ = _rows_of(tab)
        if rows is not None:
            claims, _ = _claims(a, nn, _identify(a, nn, case["px"], rows, case["k"]))
            plan.append(("check:" + label, dict(base, op="check", claims=claims)))
    return plan


def requests(case, obs):
    return [r for _, r in _plan(case, obs)]


# ------------------------------------------------------------------ judgement
# rigid-motion invariance of distance / frame offset / relative orientation between two real runs: the thorough tier (2 510 cases)
# shows at most 1e-12 relative to 1 + distance; tolerance = 10 x that, plus the rounding the harness' own motion puts into the moved
# coordinates (32 ulp of pixel size x largest moved coordinate), which is not the library's doing
INV_TOL = 1e-11
K1_CLAUSE = "disjoint-empty-result"


ANG_DOT_ERR = 4e-15  # rounding of |q1.q2| (unit quaternions to ~2 ulp each, 4-term dot product): 18 ulp of 1, observed <= 6 ulp


def _ang_tol(theta_deg):
    """error of 2*arccos(c) when c carries an absolute error d = ANG_DOT_ERR: 2*d/sin(theta/2) away from 0, and never more than
    2*arccos(1-d) ~ 2*sqrt(2d) (arccos is only 1/2-Hoelder at 1: a rotation compared with a bit-identical copy of itself gives
    q.q = 1 - 6e-16 and hence 4e-6 degrees, not 0 — second audit round, false alarm on seeds 14/66/1234)"""
    s = abs(math.sin(math.radians(theta_deg) / 2.0))
    lin = 2.0 * ANG_DOT_ERR / s if s > 0 else float("inf")
    return 1e-9 + math.degrees(min(lin, 2.0 * math.sqrt(2.0 * ANG_DOT_ERR)))


ANG_CAP = math.degrees(2.0 * math.sqrt(2.0 * ANG_DOT_ERR))  # 1.02e-5 degrees: the largest error _ang_tol ever allows


def _ang_tol_measured(theta_measured_deg):
    """_ang_tol decreases with the angle, and a MEASURED angle may exceed the true one by up to ANG_CAP: evaluate the bound at the
    smallest true angle compatible with the measurement (matters only below ~1e-5 degrees, next to the arccos singularity)"""
    return _ang_tol(max(0.0, abs(theta_measured_deg) - ANG_CAP))


def _euler_tol(rel):
    """tolerance for a rotation matrix rebuilt from REPORTED Euler angles: scipy's as_euler treats |sin theta| <= 1e-7 as gimbal lock, sets the
    third angle to 0 and returns angles of a rotation that is off by up to 2 sin(theta) (a representation limit of the Euler triple next to
    the pole, 1e-5 degrees at most, not a statement about cryoCAT); outside that zone 1e-9"""
    st = math.hypot(rel[0][2], rel[1][2])
    return 1e-9 + (3.0 * st + 1e-12 if st <= 1.5e-7 else 0.0)


def _brute(px, q, n):
    """the statement evaluated directly for one (query, neighbour) pair (own numpy): expected dist, frame offset, angle, relative matrix"""
    pq, pn = _cpos(q), _cpos(n)
    Rq, Rn = zxz_matrix(*q[8:11]), zxz_matrix(*n[8:11])
    off = (pn - pq) * px
    rel = Rq.T @ Rn
    return dict(dist=float(np.linalg.norm(pn - pq) * px), off=off, frame=Rq.T @ off, ang=rot_angle_deg(rel), rel=rel)


def _decade(x):
    return "0" if x == 0 else ("nan" if x != x else f"1e{int(math.floor(math.log10(x)))}")


def _judge_table(label, case, a, nn, tab, stats_resp, check_resp, dev):
    """findings about ONE call of get_nn_stats on the lists (a, nn); returns (findings, rows or None, ident)"""
    out = []
    k, px = case["k"], case["px"]
    pre = "" if label == "orig" else "second call (lists after the rigid motion): "
    sa, sn = _subsets(a), _subsets(nn)
    common = sorted(set(sa) & set(sn))
    if tab.get("mutated"):
        out.append(dict(kind="corr", clause="input-unchanged", detail=pre + "get_nn_stats edited a particle list it was given: " + "; ".join(tab["mutated"])[:400]))
    if "raised" in tab:
        e = tab["raised"]
        txt = f"{e['type']}: {e['msg']} @{e['where'] or e['last']}"
        if not e["in_cryocat"]:
            out.append(dict(kind="corr", clause="harness-or-library-raised", detail=pre + "exception without a frame inside cryocat/: " + txt))
        elif not common:
            # lists that share no tomogram are inside the quantifier ("possibly disjoint tomogram sets") and the documented behaviour
            # ("work only with the intersection") is the empty table: ANY exception raised inside cryocat on this class is this clause
            out.append(dict(kind="spec", clause=K1_CLAUSE, detail=pre + "lists sharing no tomogram: expected an empty table, got " + txt))
        else:
            out.append(dict(kind="spec", clause="raises", detail=pre + txt + (f" (common tomograms {common})" if common else " (no common tomogram)")))
        return out, None, None
    if "not_a_table" in tab:
        out.append(dict(kind="corr", clause="table-columns", detail=pre + f"get_nn_stats returned a {tab['not_a_table']}, not a DataFrame"))
        return out, None, None
    if tab["cols"] != STATS_COLUMNS + ["type"]:
        out.append(dict(kind="corr", clause="table-columns", detail=pre + f"columns {tab['cols']} differ from the documented 16 + 'type'"))
    textual = [c for c in REQUIRED if c in tab["cols"] and c not in tab["data"]] if tab["nrows"] else []
    if textual:
        out.append(dict(kind="corr", clause="column-types", detail=pre + "numeric fields came back as text/object: " + ", ".join(f"{c} ({tab['dtypes'][c]}: {tab['text'].get(c)})" for c in textual)))
        return out, None, None
    rows, why = _rows_of(tab)
    if rows is None:
        return out, None, None
    model = stats_resp if isinstance(stats_resp, dict) else {"error": "no response"}
    # ---- the statement, evaluated on the implementation's table -------------------------------------
    ident = _identify(a, nn, px, rows, k)
    unnamed = [n for n, p in enumerate(ident) if p is None]
    claims, stray = _claims(a, nn, ident)
    if unnamed:
        r = rows[unnamed[0]]
        out.append(dict(kind="spec", clause="subtomogram-number", detail=pre + f"row {unnamed[0]}: subtomo_idx={r[14]} subtomo_nn_idx={r[15]} do not name a particle of the first list and a particle of the second list"))
        return out, rows, ident
    if stray:
        r = rows[stray[0]]
        t, i, t2, j = ident[stray[0]]
        out.append(dict(kind="spec", clause="same-tomogram", detail=pre + f"row {stray[0]}: query {r[14]} lies in tomogram {t}, which the second list does not have; neighbour {r[15]} is from tomogram {t2}"))
        return out, rows, ident
    ncand = {t: len(sn[t]) for t in common}
    chk = check_resp["ok"] if isinstance(check_resp, dict) and "ok" in check_resp else None
    if chk is None:
        out.append(dict(kind="corr", clause="checker-error", detail=pre + str(check_resp)[:300]))
    else:
        for (t, i, js), okk in zip(claims, chk):
            if not okk:
                q = sa[t][i]
                if any(j >= 10 ** 6 for j in js):
                    out.append(dict(kind="spec", clause="same-tomogram", detail=pre + f"a neighbour reported for query subtomo {q[1]} (tomogram {t}, position {i}) is a particle of another tomogram"))
                    break
                out.append(dict(kind="spec", clause="k-closest-ascending",
                                detail=pre + f"Lean checkKnn rejects the neighbours reported for query subtomo {q[1]} (position {i}) in tomogram {t}: candidate indices {js} (k={k}, {ncand[t]} candidates)"))
                break
    for n, (r, p) in enumerate(zip(rows, ident)):
        t, i, t2, j = p
        b = _brute(px, sa[t][i], sn[t2][j])
        if t != t2:
            out.append(dict(kind="spec", clause="same-tomogram", detail=pre + f"row {n}: neighbour {r[15]} (tomogram {t2}) of query {r[14]} (tomogram {t}) lies in another tomogram")); break
        e = abs(r[0] - b["dist"]) / (1 + abs(b["dist"]))
        if not (e <= 1e-9):
            out.append(dict(kind="spec", clause="distance", detail=pre + f"row {n}: distance {r[0]!r}, Euclidean distance of complete positions x pixel size = {b['dist']!r}")); break
        s = 1 + float(np.abs(b["off"]).max())
        e = float(np.abs(np.array(r[4:7]) - b["frame"]).max()) / s
        if not (e <= 1e-9):
            out.append(dict(kind="spec", clause="frame-offset", detail=pre + f"row {n}: particle-frame offset {r[4:7]}, inverse orientation applied to the offset = {b['frame'].tolist()}")); break
        if not (abs(r[7] - b["ang"]) <= _ang_tol(b["ang"])):
            out.append(dict(kind="spec", clause="angular-distance", detail=pre + f"row {n}: angular distance {r[7]!r}, angle of the relative rotation = {b['ang']!r}")); break
        e = float(np.abs(zxz_matrix(r[11], r[12], r[13]) - b["rel"]).max())
        ez = float(np.abs(np.array(r[8:11]) - b["rel"][:, 2]).max())
        if not (e <= _euler_tol(b["rel"]) and ez <= 1e-9):
            e = max(e, ez)
            out.append(dict(kind="spec", clause="relative-orientation", detail=pre + f"row {n}: Euler angles {r[11:14]} / z-axis {r[8:11]} are not inverse(query orientation) * neighbour orientation (max dev {e:.3g})")); break
    # ---- correspondence with the Lean model (kind corr: the model is not the statement) ----------------
    if "error" in model or "rows" not in model:
        out.append(dict(kind="corr", clause="model-error", detail=pre + str(model)[:300]))
        return out, rows, ident
    if model["features"] != common:
        out.append(dict(kind="corr", clause="model-features", detail=pre + f"{model['features']} vs {common}"))
    mrows = model["rows"]
    if len(mrows) != len(rows):
        out.append(dict(kind="corr", clause="row-count", detail=pre + f"implementation reports {len(rows)} rows, the model {len(mrows)} (one per query of a common tomogram and rank < min(k, candidates))"))
        return out, rows, ident
    seen = {}
    for n, (r, mr_, p) in enumerate(zip(rows, mrows, ident)):
        t, rank, sub, subnn, j = mr_[:5]
        i = seen.get((t, rank), 0)
        seen[(t, rank)] = i + 1
        f = [b2f(x) for x in mr_[5:]]
        d2, dist, off, frame, rel, tr, sk, ang = f[0], f[1], f[2:5], f[5:8], np.array(f[8:17]).reshape(3, 3), f[17], f[18], f[19]
        if int(r[14]) != sub or int(r[15]) != subnn or p != (t, i, t, j):
            out.append(dict(kind="corr", clause="row-identity", detail=pre + f"row {n}: implementation (query {r[14]}, neighbour {r[15]}) = (tomogram, position) {p}, model (query {sub}, neighbour {subnn}, tomogram {t}, rank {rank}, query position {i}, candidate {j})")); break
        e1 = abs(r[0] - dist) / (1 + abs(dist))
        e2 = max(float(np.abs(np.array(r[1:4]) - np.array(off)).max()), float(np.abs(np.array(r[4:7]) - np.array(frame)).max())) / (1 + float(np.abs(off).max()))
        e3 = abs(r[7] - ang)
        e4e, e4 = float(np.abs(zxz_matrix(r[11], r[12], r[13]) - rel).max()), float(np.abs(np.array(r[8:11]) - rel[:, 2]).max())
        if _euler_tol(rel) == 1e-9 or e4e > _euler_tol(rel):
            e4 = max(e4, e4e)
        dev["dist"], dev["frame"], dev["rel"] = max(dev["dist"], e1), max(dev["frame"], e2), max(dev["rel"], e4)
        dev["ang"] = max(dev["ang"], e3)
        if not (e1 <= 1e-9 and e2 <= 1e-9 and e3 <= _ang_tol(ang) and e4 <= 1e-9):
            out.append(dict(kind="corr", clause="row-values", detail=pre + f"row {n}: implementation {r}, model dist={dist} offset={off} frame={frame} ang={ang} (dev dist {e1:.3g} offsets {e2:.3g} ang {e3:.3g} rel {e4:.3g})")); break
    return out, rows, ident


_memo = {}


def _compare(case, obs, resps):
    """returns (findings, deviations)"""
    # keyed by CONTENT (round 7): id() of a freed case may be re-used by another one during shrinking
    ck = (key(case), hashlib.sha1(json.dumps([obs, resps], sort_keys=True, default=repr).encode()).hexdigest())
    if _memo.get("key") == ck:
        return _memo["val"]
    val = _compare_(case, obs, resps)
    _memo["key"], _memo["val"] = ck, val
    return val


def _compare_(case, obs, resps):
    out, dev = [], dict(dist=0.0, frame=0.0, ang=0.0, rel=0.0, inv=0.0, inv_ang=0.0, inv_over_tol=0.0)
    if "error" in obs:
        if obs.get("where"):
            return [dict(kind="spec", clause="raises", detail=obs["error"] + " @" + obs.get("where", ""))], dev
        return [dict(kind="corr", clause="harness-or-library-raised", detail="exception without a frame inside cryocat/: " + obs["error"])], dev
    by = dict(zip([t for t, _ in _plan(case, obs)], resps))
    res = {}
    for label, a, nn, tab in _tables(case, obs):
        f, rows, ident = _judge_table(label, case, a, nn, tab, by.get("stats:" + label), by.get("check:" + label), dev)
        # the known finding is reported once per case, not once per call
        out += [x for x in f if not (x["clause"] == K1_CLAUSE and any(y["clause"] == K1_CLAUSE for y in out))]
        res[label] = (rows, ident)
    # ---- rigid-motion invariance: two runs of the real code -----------------------------------------
    if "moved" in res and res["orig"][0] is not None and res["moved"][0] is not None:
        rows, mr = res["orig"][0], res["moved"][0]
        id1, id2 = res["orig"][1], res["moved"][1]
        if len(mr) != len(rows):
            out.append(dict(kind="spec", clause="rigid-invariance", detail=f"{len(rows)} rows before, {len(mr)} rows after the rigid motion"))
        elif None not in id1 and None not in id2:
            # pair the rows of the two tables by WHAT they are about (query, rank), not by their position in the table
            def keyed(rr, idd):
                d, cnt = {}, {}
                for r, p in zip(rr, idd):
                    q = (p[0], p[1])
                    d[(q, cnt.get(q, 0))] = (r, p)
                    cnt[q] = cnt.get(q, 0) + 1
                return d
            k1, k2 = keyed(rows, id1), keyed(mr, id2)
            mscale = max([1.0] + [abs(x) + abs(y) for r_ in obs["moved_lists"]["a"] + obs["moved_lists"]["nn"] for x, y in zip(r_[2:5], r_[5:8])])
            for key_ in sorted(k1):
                (r, p), (r2, p2) = k1[key_], k2.get(key_, (None, None))
                if r2 is None:
                    out.append(dict(kind="spec", clause="rigid-invariance", detail=f"query at (tomogram, position) {key_[0]} rank {key_[1]} is reported before but not after the rigid motion")); break
                if p != p2:
                    out.append(dict(kind="spec", clause="rigid-invariance", detail=f"query {r[14]} at (tomogram, position) {key_[0]}, rank {key_[1]}: neighbour {r[15]} {p[2:]} before, {r2[15]} {p2[2:]} after the rigid motion")); break
                M1, M2 = zxz_matrix(r[11], r[12], r[13]), zxz_matrix(r2[11], r2[12], r2[13])
                ee = float(np.abs(M1 - M2).max())
                if ee <= _euler_tol(M1) + _euler_tol(M2) - 2e-9:  # both triples may sit in scipy's gimbal-lock zone
                    ee = min(ee, 0.0)
                e = max(abs(r[0] - r2[0]) / (1 + abs(r[0])),
                        float(np.abs(np.array(r[4:7]) - np.array(r2[4:7])).max()) / (1 + abs(r[0])),
                        ee,
                        float(np.abs(np.array(r[8:11]) - np.array(r2[8:11])).max()))
                ea = abs(r[7] - r2[7])
                tol = INV_TOL + 32 * 2.220446049250313e-16 * case["px"] * mscale / (1 + abs(r[0]))
                dev["inv"] = max(dev["inv"], e) if e == e else float("nan")
                dev["inv_over_tol"] = max(dev["inv_over_tol"], e / tol) if e == e else float("nan")
                # both runs measure the SAME true angle, each with the arccos error of that angle (derivation: _ang_tol); the bound is taken at
                # the smaller measurement pushed down by ANG_CAP, which is <= the true angle
                atol = 2 * _ang_tol_measured(min(r[7], r2[7])) if r[7] == r[7] and r2[7] == r2[7] else 0.0
                dev["inv_ang"] = max(dev["inv_ang"], max(0.0, ea - atol)) if ea == ea else float("nan")
                if not (e <= tol) or not (ea <= INV_TOL + atol):
                    out.append(dict(kind="spec", clause="rigid-invariance",
                                    detail=f"query {r[14]}, neighbour {r[15]} (tomogram {p[0]}): distance/frame offset/relative orientation change by {e:.3g}, angular distance by {ea:.3g} under the rigid motion: before {r[:14]}, after {r2[:14]}")); break
    return out, dev


def judge(case, obs, resps):
    return _compare(case, obs, resps)[0]


def classify(case, obs, finding):
    """C18 has no open known finding: C18-K1 (lists sharing no tomogram raised ValueError instead of giving an empty table) is FIXED by
    C18-fix-1 (empty-result path in get_nn_distances / get_nn_rotations); on a tree without that fix the clause
    `disjoint-empty-result` is an ordinary spec finding with a replay."""
    return None


def nontrivial(case, obs):
    if "error" in obs or case["Q"] == [1.0, 0.0, 0.0, 0.0]:
        return False
    if not any(r[5:8] != [0.0, 0.0, 0.0] for r in case["a"] + case["nn"]):
        return False
    ta, tn = {}, {}
    for r in case["a"]:
        ta[r[0]] = ta.get(r[0], 0) + 1
    for r in case["nn"]:
        tn[r[0]] = tn.get(r[0], 0) + 1
    return any(ta[t] >= 2 and tn.get(t, 0) > case["k"] for t in ta)


def key(case):
    return hashlib.sha1(json.dumps(case, sort_keys=True).encode()).hexdigest()


def _bucket(n):
    return "1" if n == 1 else "2-5" if n <= 5 else "6-30" if n <= 30 else "31-90" if n <= 90 else "91-200"


def _first_appearance(rows, common):
    seq = []
    for r in rows:
        if int(r[0]) in common and int(r[0]) not in seq:
            seq.append(int(r[0]))
    return "single" if len(seq) < 2 else ("ascending" if seq == sorted(seq) else "not-ascending")


def stats(case, obs, resps):
    ta, tn = {int(r[0]) for r in case["a"]}, {int(r[0]) for r in case["nn"]}
    common = ta & tn
    ncand = {t: sum(1 for r in case["nn"] if int(r[0]) == t) for t in common}
    _, dev = _compare(case, obs, resps)
    o = obs.get("orig", {}) if isinstance(obs, dict) else {}
    nrows = o.get("nrows", 0)
    subs_a = [int(r[1]) for r in case["a"]]
    cs = sorted(common)
    clamp = any(ncand[cs[i]] < case["k"] and any(ncand[t] > ncand[cs[i]] for t in cs[i + 1:]) for i in range(len(cs)))
    below = bool(common) and any(t < max(common) for t in (ta ^ tn))
    d = {"n_a": _bucket(len(case["a"])), "n_nn": _bucket(len(case["nn"])), "tomograms_a": len(ta), "tomograms_nn": len(tn),
         "common_tomograms": len(common), "overlap": "disjoint" if not common else ("same" if ta == tn else "partial"),
         "relation": case.get("relation", "?"), "layout": case.get("layout", "?"), "k": case["k"],
         "k_vs_candidates": ["k>=cands" if c <= case["k"] else "k<cands" for c in ncand.values()] or ["no-candidates"],
         "rows": _bucket(nrows) if nrows else "0",
         "result": "raised:" + o["raised"]["type"] if "raised" in o else ("table" if "data" in o else "other"),
         "Q": "identity" if case["Q"] == [1.0, 0.0, 0.0, 0.0] else ("special" if all(float(x) == round(x) for x in case["Q"]) else "random"),
         "px": "1" if case["px"] == 1.0 else "other",
         "omitted_keywords": case.get("omit") or ["none"],
         "mode": case.get("mode", "fresh") + (":" + case["reuse"] if case.get("reuse") else ""),
         "moved_tomograms": "all" if case.get("move_tomos") is None else "some",
         "column_types": case.get("dtype", "float64"),
         "row_labels": ["default" if l is None else ("duplicated" if len(set(l)) < len(l) else ("ascending-gaps" if l == sorted(l) else "not-ascending"))
                        for l in ((case.get("labels") or {}).get("a"), (case.get("labels") or {}).get("nn"))],
         "argument_forms": case.get("forms") or ["plain"],
         "column_order": ["canonical" if o is None else ("reversed" if o == list(reversed(COLS)) else "other") for o in ((case.get("colorder") or {}).get("a"), (case.get("colorder") or {}).get("nn"))],
         "receiver_classes": [(case.get("receiver") or {}).get("a", "Motl"), (case.get("receiver") or {}).get("nn", "Motl")],
         "pixel_size_kind": "dyadic" if float(case["px"] * 1024).is_integer() else "decimal",
         "subtomo_ids": "repeat-across-tomograms" if len(set(subs_a)) < len(subs_a) else "unique-in-list",
         "first_appearance_a": _first_appearance(case["a"], common),
         "missing_tomogram_sorts_below_a_common_one": below,
         "early_tomogram_clamps_k": clamp,
         "identical_orientation_pairs": any(r[8:11] == n[8:11] for r in case["a"][:40] for n in case["nn"][:40] if int(r[0]) == int(n[0])),
         "dtypes": sorted(set(o.get("dtypes", {}).values())) or ["-"],
         "subtomo_idx_dtype": o.get("dtypes", {}).get("subtomo_idx", "-"),
         "type_column": o.get("text", {}).get("type", ["-"])}
    for k_, v in dev.items():
        d["maxdev_" + k_] = _decade(v)
    return d


def sample_view(case):
    return dict(n_a=len(case["a"]), n_nn=len(case["nn"]), k=case["k"], px=case["px"], Q=case["Q"], t=case["t"], relation=case.get("relation"),
                layout=case.get("layout"), omit=case.get("omit"), mode=case.get("mode"), reuse=case.get("reuse"), move_tomos=case.get("move_tomos"),
                dtype=case.get("dtype"), forms=case.get("forms"), receiver=case.get("receiver"), labels={k_: (v if v is None else v[:6]) for k_, v in (case.get("labels") or {}).items()},
                first_a=case["a"][0], first_nn=case["nn"][0])


# ------------------------------------------------------------------ probes of the recorded assumptions
def probes(rng):
    out = []
    try:
        import sklearn.neighbors as sn
        from scipy.spatial.transform import Rotation as srot
        worst = 0
        okk = True
        for _ in range(20):
            n = rng.randint(2, 150)
            B = np.array([[rng.randint(-2000, 2000) / GRID for _ in range(3)] for _ in range(n)])
            A = np.array([[rng.randint(-2000, 2000) / GRID for _ in range(3)] for _ in range(30)])
            k = rng.randint(1, min(5, n))
            d, idx = sn.KDTree(B).query(A, k=k)
            D = np.sqrt(((A[:, None, :] - B[None, :, :]) ** 2).sum(-1))
            srt = np.sort(D, axis=1)[:, :k]
            okk = okk and bool(np.abs(d - srt).max() <= 1e-12) and bool(np.abs(np.take_along_axis(D, idx, 1) - d).max() <= 1e-12)
        out.append(dict(name="sklearn KDTree.query(k) = brute force (20 random dyadic point sets)", ok=okk, detail=""))
        e1 = e2 = e3 = 0.0
        zone = 0
        for _ in range(300):
            ang = [_angle(rng, "phi"), _angle(rng, "theta"), _angle(rng, "psi")]
            M = srot.from_euler("zxz", ang, degrees=True).as_matrix()
            e1 = max(e1, float(np.abs(M - zxz_matrix(*ang)).max()))
            back = srot.from_matrix(M).as_euler("zxz", degrees=True)
            tol = _euler_tol(M)
            zone += tol > 1e-9
            e2 = max(e2, float(np.abs(zxz_matrix(*back) - M).max()) / tol)
            e3 = max(e3, float(np.abs(zxz_matrix(*zxz_angles(M)) - M).max()))
        out.append(dict(name="scipy from_euler('zxz') = Rz(psi)Rx(theta)Rz(phi); own Euler extraction exact to 1e-12 everywhere; scipy as_euler returns the same rotation within 1e-9, within 3 sin(theta) inside its gimbal-lock zone |sin theta| <= 1e-7",
                        ok=e1 < 1e-12 and e2 <= 1.0 and e3 <= 1e-12,
                        detail=f"max dev {e1:.2e} / own {e3:.2e} / as_euler {e2:.2f} of its tolerance ({zone} of 300 orientations in the gimbal zone)"))
    except Exception as e:
        out.append(dict(name="assumption probes", ok=False, detail=f"{type(e).__name__}: {e}"))
    return out


LEVEL_TEXT = ("Lean 4 theorems about an executable model of nnana.get_nn_stats, for all lists, all k, all pixel sizes: the k-nearest-neighbour selection meets KnnSpec "
              "(min(k,n) distinct candidates of the same tomogram, ascending in the squared distance of complete positions, nothing left out is closer) for every key "
              "function (knn_spec), is the only such list when there are no ties (knn_unique), and the Boolean checker run on the implementation's own neighbour "
              "lists decides KnnSpec exactly (checkKnn_iff); every row of the table is the report about a query and a same-tomogram particle with the stated distance, "
              "subtomogram numbers, particle-frame offset, relative orientation and angle (nnStats_sound), every query of a common tomogram gets all its rows "
              "(nnStats_complete), rows are ordered tomogram/rank/query (nnStats_order, tomoRows_queries_in_list_order, tomoRows_length); the code's "
              "from_euler('zxz', -[psi,theta,phi]) is exactly the inverse orientation (inverse_orientation); over the reals, with the real counterparts of the driver's "
              "services, the row's angular distance IS the rotation angle arccos((trace-1)/2) of the relative orientation R_q^T R_n and IS the quaternion form "
              "2 arccos min(|q1.q2|,1) that geom.angular_distance evaluates (angular_distance_is_rotation_angle, nnStats_angular_real, through C06); and for every "
              "orthogonal Q and every translation the whole table is unchanged except that the tomogram-frame offset co-rotates (nnStats_rigid, pair_rigid), for k neighbours, any k; "
              "for ANY correct neighbour search (KnnSpec answers, pairwise distinct distances) the table is the model's table and the reported neighbour order is invariant "
              "(nnStatsWith_eq, neighbour_order_rigid, nnStats_rigid_any_search); lists without a common tomogram give the empty table (k1_model_returns_empty); tomogram subsets and "
              "column access are part of the model (motl_subset_is_filter, orientation_from_columns). Tied to the "
              "source by 49 regenerated anchors + 15 binding obligations (expressions with local variables renamed by binding order, signature defaults, call keywords, whole function bodies) and by "
              "a differential run of the real get_nn_stats against the model, the verified checker on the real output of BOTH calls, two real runs on rigidly moved copies "
              "or on the same objects moved in place, and before/after comparison of the caller's lists")
LEVEL_NOTE = ("partial: KD-tree = brute force, scipy Euler conversions, binary64 square root / arccos are outside the proofs "
              "(services or assumptions, probed and compared numerically each run); theorems are exact-arithmetic facts, the implementation runs in binary64 "
              "(exact on the generated 1/64 grid for all neighbour decisions); C18-K1 (disjoint tomogram sets raised ValueError) is fixed by C18-fix-1 and has no rule left")
TECHNIQUE = "Lean 4 proof (sorting/permutation lemmas, 3x3 matrix algebra over any commutative ring, relational lifting over lists, real analysis through C06 for the angle) + regenerated structural anchors + differential correspondence + verified checker on the implementation's output + cross-call state stream"
DESIGN_REF = "DESIGN.md section 4, C18"
