"""C14 — map rotation, placement, windowing, symmetrisation share one active convention (DESIGN.md section 4, C14)."""
import ast, math, itertools
from fractions import Fraction
import numpy as np
import core
from core import f2b, b2f

PROP = "C14"
COUNT = {"quick": 500, "thorough": 12000, "search": 1500}
PARALLEL = True
EXHAUSTIVE = {"quick": False, "thorough": True}
TOL = 1e-9          # exact paths (spline prefilter / float matrix round-off only)
TOL_BLOB = 0.02     # interpolated paths, relative to the map's peak (the property's "smooth map" clauses)
RULE = ("six case kinds from one PRNG: rot24 = one of the 64 quarter-turn zxz triples (all 24 cube rotations) on an integer-valued box "
        "5..9 per axis (odd, even, non-cubic), every voxel >=1 away from the faces compared; rotblob = random zxz angles on 1-3 "
        "isotropic Gaussians (sigma 1.75-2.75, 3.3 sigma inside the box) in a 18-24 box, compared with the analytic Gaussians at c+R*v (R*v from the Lean zxz at Float) "
        "and rotate-back; extract = extract_subvolume/crop windows (even sizes mostly, some odd) fully inside / partly / fully outside "
        "integer-valued volumes, centre coordinates on the 1/4 grid; place = place_object with 1..20 poses (quarter-turn orientations -> "
        "fully modelled; 25 % arbitrary orientations -> mask taken from the real rotate), positions x+shift on the 1/4 grid in and "
        "around the container, colouring field object_id/score/geom1/class, default / offset / shuffled DataFrame index, volume or "
        "volume_shape; symexact = symmetrize_volume n in {1,2,4} on integer boxes (exact); symblob = n in 2..12 on Gaussian blobs. "
        "non-trivial = rotation != identity / window not trivially the whole volume / >=1 stamped voxel / n>=2; distinct = distinct case content")
ASSUMPTIONS = [
    "scipy.ndimage.affine_transform(order=3, mode='constant') reproduces samples at integer source coordinates (to 1e-9) and returns 0 for "
    "sources outside [0,N-1]; probed each run (identity and quarter-turn rotations); sources exactly on a face are excluded (rounding)",
    "scipy Rotation.from_euler('zxz',[phi,theta,psi],degrees=True).as_matrix() = Rz(psi)Rx(theta)Rz(phi) = Lean zxz; probed each run on the 64 quarter-turn triples and on random angles",
    "numpy float arithmetic on integer-valued / dyadic voxels is exact (sums, mean = correctly rounded quotient)",
    "spline interpolation accuracy on band-limited blobs is scipy's: the 2 % clauses are validated, not proved",
]
TRUSTED = ["props/c14.py independent evaluators of the statement (painter's algorithm, window formula, analytic Gaussians)"]

MAP = "cryocat/cryomap.py"
MOTL = "cryocat/cryomotl.py"
COLUMNS = ["score", "geom1", "geom2", "subtomo_id", "tomo_id", "object_id", "subtomo_mean", "x", "y", "z",
           "shift_x", "shift_y", "shift_z", "geom3", "geom4", "geom5", "phi", "psi", "theta", "class"]

# ------------------------------------------------------------------ translator (pure ast)
def _assign_value(fn, target):
    """normalised right-hand sides of every `target = ...` statement in fn, in source order"""
    out = []
    for n in ast.walk(fn):
        if isinstance(n, ast.Assign) and len(n.targets) == 1 and ast.unparse(n.targets[0]).replace(" ", "") == target:
            out.append((n.lineno, core.norm_expr(n.value)))
    if not out:
        raise core.AnchorMissing(f"{fn.name}: no assignment to {target}")
    return [v for _, v in sorted(out)]


def _calls(fn, name):
    out = [n for n in ast.walk(fn) if isinstance(n, ast.Call) and ast.unparse(n.func) == name]
    if not out:
        raise core.AnchorMissing(f"{fn.name}: no call of {name}")
    return sorted(out, key=lambda n: (n.lineno, n.col_offset))


def _default(fn, arg):
    a = fn.args
    names = [x.arg for x in a.args]
    defaults = [None] * (len(names) - len(a.defaults)) + list(a.defaults)
    for n, d in zip(names, defaults):
        if n == arg and d is not None:
            return ast.literal_eval(d)
    raise core.AnchorMissing(f"{fn.name}: no default for {arg}")


def translate(src):
    A = src.anchor
    S = core.lean_str
    SL = core.lean_str_list
    rot = lambda: src.find(MAP, "rotate")
    # ---- rotate ------------------------------------------------------------------------------
    centre = A("rotate:structure_center", lambda: _assign_value(rot(), "structure_center"))
    tcol = A("rotate:T[:3,-1]", lambda: _assign_value(rot(), "T[:3,-1]"))
    rm = A("rotate:rot_matrix[0:3,0:3] (transpose branch, plain branch, angles branch)", lambda: _assign_value(rot(), "rot_matrix[0:3,0:3]"))
    fe = A("rotate:from_euler", lambda: _assign_value(rot(), "rot"))
    fm = A("rotate:final_matrix", lambda: _assign_value(rot(), "final_matrix"))

    def affine():
        c = _calls(rot(), "affine_transform")[0]
        return sorted(f"{k.arg}={core.norm_expr(k.value)}" for k in c.keywords) + [core.norm_expr(a) for a in c.args]
    aff = A("rotate:affine_transform(...)", affine)
    seq = A("rotate:coord_space default", lambda: _default(rot(), "coord_space"))
    deg = A("rotate:degrees default", lambda: _default(rot(), "degrees"))
    tdef = A("rotate:transpose_rotation default", lambda: _default(rot(), "transpose_rotation"))
    order = A("rotate:spline_order default", lambda: _default(rot(), "spline_order"))

    def branch_tests():
        fn = rot()
        tests = []
        for n in ast.walk(fn):
            if isinstance(n, ast.If):
                tests.append((n.lineno, core.norm_expr(n.test)))
        return [t for _, t in sorted(tests)]
    tests = A("rotate:if-tests", branch_tests)
    # ---- get_start_end_indices ------------------------------------------------------------------
    gse = lambda: src.find(MAP, "get_start_end_indices")

    def gse_body():
        fn = gse()
        out = []
        for st in fn.body:
            if isinstance(st, ast.Assign):
                out.append(core.norm_expr(st.targets[0]) + "=" + core.norm_expr(st.value))
            elif isinstance(st, ast.Return):
                out.append("return " + core.norm_expr(st.value))
        return out
    body = A("get_start_end_indices:statements", gse_body)
    # ---- extract_subvolume / crop ---------------------------------------------------------------
    ext = lambda: src.find(MAP, "extract_subvolume")

    def ext_items():
        fn = ext()
        call = core.norm_expr(_calls(fn, "get_start_end_indices")[0])
        subs = _assign_value(fn, "subvolume")
        sl = []
        for n in ast.walk(fn):
            if isinstance(n, ast.Assign) and isinstance(n.targets[0], ast.Subscript) and ast.unparse(n.targets[0].value) == "subvolume":
                sl.append((n.lineno, core.norm_expr(n.targets[0]) + "=" + core.norm_expr(n.value)))
        return [call] + subs + [s for _, s in sorted(sl)]
    exti = A("extract_subvolume:fill and slice assignment", ext_items)

    def crop_items():
        fn = src.find(MAP, "crop")
        return [core.norm_expr(_calls(fn, "get_start_end_indices")[0])] + _assign_value(fn, "cropped_volume") + _assign_value(fn, "crop_coord")
    cropi = A("crop:window", crop_items)
    # ---- place_object --------------------------------------------------------------------------
    po = lambda: src.find(MAP, "place_object")
    p_rot = A("place_object:rotations", lambda: _assign_value(po(), "rotations"))
    p_coord = A("place_object:coordinates", lambda: _assign_value(po(), "coordinates"))
    p_col = A("place_object:colors", lambda: _assign_value(po(), "colors"))
    p_obj = A("place_object:object_map", lambda: _assign_value(po(), "object_map"))
    p_idx = A("place_object:get_start_end_indices call", lambda: [core.norm_expr(c) for c in _calls(po(), "get_start_end_indices")])
    p_shape = A("place_object:object_shape", lambda: _assign_value(po(), "object_shape"))
    p_loop = A("place_object:loop", lambda: [core.norm_expr(n.target) + " in " + core.norm_expr(n.iter) for n in ast.walk(po()) if isinstance(n, ast.For)])

    def p_assign():
        out = []
        for n in ast.walk(po()):
            if isinstance(n, ast.Assign) and isinstance(n.targets[0], ast.Subscript) and ast.unparse(n.targets[0].value) == "object_container":
                out.append(core.norm_expr(n.targets[0]) + "=" + core.norm_expr(n.value))
        if not out:
            raise core.AnchorMissing("place_object: no assignment into object_container[...]")
        return out
    p_asg = A("place_object:stamp assignment", p_assign)

    def p_offset():
        fn = po()
        for n in ast.walk(fn):
            if isinstance(n, ast.Assign) and ast.unparse(n.targets[0]) == "coordinates" and isinstance(n.value, ast.BinOp) and isinstance(n.value.op, ast.Sub) and isinstance(n.value.right, ast.Constant):
                fr = Fraction(str(n.value.right.value))
                if fr.denominator != 1:
                    raise core.AnchorMissing("place_object: offset is not an integer")
                return int(fr)
        raise core.AnchorMissing("place_object: coordinates = <expr> - <const>")
    off = A("place_object:1-based offset", p_offset)

    def p_thr():
        fn = po()
        for n in ast.walk(fn):
            if isinstance(n, ast.Call) and ast.unparse(n.func) == "np.where" and isinstance(n.args[0], ast.Compare) and ast.unparse(n.args[0].left) == "object_map" \
                    and isinstance(n.args[0].comparators[0], ast.Constant):
                cmp_ = type(n.args[0].ops[0]).__name__
                return [cmp_, str(n.args[0].comparators[0].value), str(ast.literal_eval(n.args[1])), str(ast.literal_eval(n.args[2]))]
        raise core.AnchorMissing("place_object: np.where(object_map <cmp> <const>, on, off)")
    thr = A("place_object:threshold", p_thr)
    # ---- symmetrize_volume ---------------------------------------------------------------------
    sy = lambda: src.find(MAP, "symmetrize_volume")
    s_step = A("symmetrize_volume:inplane_step", lambda: _assign_value(sy(), "inplane_step"))
    s_sum = A("symmetrize_volume:rotated_sum (init, accumulate)", lambda: _assign_value(sy(), "rotated_sum"))
    s_rot = A("symmetrize_volume:rotated_volume", lambda: _assign_value(sy(), "rotated_volume"))
    s_loop = A("symmetrize_volume:loop", lambda: [core.norm_expr(n.target) + " in " + core.norm_expr(n.iter) for n in ast.walk(sy()) if isinstance(n, ast.For)])
    s_out = A("symmetrize_volume:sym_vol", lambda: _assign_value(sy(), "sym_vol"))
    # ---- cryomotl: the particle convention -----------------------------------------------------
    m_rot = A("Motl.get_rotations:from_euler", lambda: _assign_value(src.find(MOTL, "Motl.get_rotations"), "rotations"))

    def m_angles():
        fn = src.find(MOTL, "Motl.get_angles")
        out = []
        for n in ast.walk(fn):
            if isinstance(n, ast.List) and n.elts and all(isinstance(e, ast.Constant) and isinstance(e.value, str) for e in n.elts):
                out.append((n.lineno, [e.value for e in n.elts]))
        if not out:
            raise core.AnchorMissing("Motl.get_angles: no column list")
        first = sorted(out)[0][1]
        if any(o != first for _, o in out):
            raise core.AnchorMissing("Motl.get_angles: branches select different columns")
        return first
    m_ang = A("Motl.get_angles:columns", m_angles)

    def m_coords():
        fn = src.find(MOTL, "Motl.get_coordinates")
        return _assign_value(fn, "coord")[0]
    m_crd = A("Motl.get_coordinates:x+shift_x", m_coords)

    def m_shift():
        fn = src.find(MOTL, "Motl.shift_positions.shift_coords")
        return _assign_value(fn, "euler_angles") + _assign_value(fn, "orientations") + _assign_value(fn, "rshifts")
    m_sh = A("Motl.shift_positions:orientation applied to the shift", m_shift)

    ls = lambda v: SL(v if isinstance(v, list) else [])
    thr_ok = isinstance(thr, list)
    thr_fr = Fraction(thr[1]) if thr_ok else Fraction(0)
    return f"""-- GENERATED by harness/props/c14.py from {MAP} and {MOTL}; do not edit
namespace CryoCat.Gen.C14
def anchorsOk : Bool := {"true" if src.ok else "false"}
-- rotate
def rotCentre : List String := {ls(centre)}
def rotTranslationColumn : List String := {ls(tcol)}
def rotMatrixBranches : List String := {ls(rm)}
def rotFromEuler : List String := {ls(fe)}
def rotFinalMatrix : List String := {ls(fm)}
def rotAffineCall : List String := {ls(aff)}
def rotIfTests : List String := {ls(tests)}
def rotSeqDefault : String := {S(seq if isinstance(seq, str) else "")}
def rotDegreesDefault : Bool := {"true" if deg is True else "false"}
def rotTransposeDefault : Bool := {"true" if tdef is True else "false"}
def rotSplineOrder : Nat := {order if isinstance(order, int) and order >= 0 else 0}
-- get_start_end_indices / extract_subvolume / crop
def windowStatements : List String := {ls(body)}
def extractItems : List String := {ls(exti)}
def cropItems : List String := {ls(cropi)}
-- place_object
def placeRotations : List String := {ls(p_rot)}
def placeCoordinates : List String := {ls(p_coord)}
def placeColors : List String := {ls(p_col)}
def placeObjectMap : List String := {ls(p_obj)}
def placeIndexCall : List String := {ls(p_idx)}
def placeObjectShape : List String := {ls(p_shape)}
def placeLoop : List String := {ls(p_loop)}
def placeAssignment : List String := {ls(p_asg)}
def placeOffset : Int := {off if isinstance(off, int) else 0}
def placeThreshold : Rat := mkRat ({thr_fr.numerator}) {thr_fr.denominator}
def placeThresholdCmp : String := {S(thr[0] if thr_ok else "")}
def placeOnOff : List String := {ls(thr[2:] if thr_ok else [])}
-- symmetrize_volume
def symStep : List String := {ls(s_step)}
def symSum : List String := {ls(s_sum)}
def symRotated : List String := {ls(s_rot)}
def symLoop : List String := {ls(s_loop)}
def symOut : List String := {ls(s_out)}
-- cryomotl
def motlRotations : List String := {ls(m_rot)}
def motlAngleColumns : List String := {ls(m_ang)}
def motlCoordinates : String := {S(m_crd if isinstance(m_crd, str) else "")}
def motlShiftPositions : List String := {ls(m_sh)}
end CryoCat.Gen.C14
"""


# ------------------------------------------------------------------ small exact helpers (independent of model and implementation)
_Q = [(1, 0), (0, 1), (-1, 0), (0, -1)]


def _rz(c, s):
    return np.array([[c, -s, 0], [s, c, 0], [0, 0, 1]])


def _rx(c, s):
    return np.array([[1, 0, 0], [0, c, -s], [0, s, c]])


def cube(a, b, c):
    """documented particle convention: zxz(phi,theta,psi) = Rz(psi) Rx(theta) Rz(phi), for quarter turns a,b,c"""
    return _rz(*_Q[c % 4]) @ _rx(*_Q[b % 4]) @ _rz(*_Q[a % 4])


def _grid(shape):
    return np.stack(np.meshgrid(*[np.arange(n) for n in shape], indexing="ij"))  # (3, nx, ny, nz)


def _src(M, shape):
    """index of the input voxel sampled for every output voxel: c + M (o - c)"""
    c = (np.asarray(shape) // 2).reshape(3, 1, 1, 1)
    return c + np.einsum("ij,jxyz->ixyz", np.asarray(M), _grid(shape) - c)


def _interior(idx, shape):
    return np.all([(idx[i] >= 1) & (idx[i] <= shape[i] - 2) for i in range(3)], axis=0)


def _outside(idx, shape):
    return np.any([(idx[i] <= -1) | (idx[i] >= shape[i]) for i in range(3)], axis=0)


def _take(vol, idx, shape):
    cl = [np.clip(idx[i], 0, shape[i] - 1) for i in range(3)]
    return vol[cl[0], cl[1], cl[2]]


def _floor_start(num, den, s):
    return [math.floor(Fraction(n, den) - Fraction(k, 2)) for n, k in zip(num, s)]


def _ratvol(resp_data):
    return np.array([[[Fraction(n, d) for n, d in r] for r in pl] for pl in resp_data], dtype=object).astype(float)


def _blob(N, blobs, centres=None):
    g = _grid((N, N, N)).astype(float)
    c = N // 2
    out = np.zeros((N, N, N))
    for k, (amp, sig, v) in enumerate(blobs):
        ctr = [c + v[i] for i in range(3)] if centres is None else centres[k]
        d2 = sum((g[i] - ctr[i]) ** 2 for i in range(3))
        out += amp * np.exp(-d2 / (2 * sig * sig))
    return out


# ------------------------------------------------------------------ generators
def _intvol(rng, shape, zero_faces=False, sparse=False):
    a = np.zeros(shape, dtype=int)
    for idx in itertools.product(*[range(n) for n in shape]):
        if zero_faces and any(i == 0 or i == n - 1 for i, n in zip(idx, shape)):
            continue
        if sparse and rng.random() < 0.6:
            continue
        a[idx] = rng.randint(-9, 9)
    return a.tolist()


def _shape(rng, lo, hi):
    k = rng.random()
    if k < 0.5:
        n = rng.randint(lo, hi)
        return [n, n, n]
    return [rng.randint(lo, hi) for _ in range(3)]


def gen_rot24(rng, q=None, shape=None):
    shape = shape or _shape(rng, 5, 9)
    q = q or [rng.randrange(4) for _ in range(3)]
    return dict(kind="rot24", shape=shape, data=_intvol(rng, shape, sparse=rng.random() < 0.3), q=list(q))


def _blobs(rng, N, nmax=3):
    """isotropic Gaussians whose 3.3-sigma ball stays >= 1 voxel inside the box under every rotation about the centre"""
    out = []
    for _ in range(rng.randint(1, nmax)):
        smax = min(22, int(8 * (N / 2 - 1 - 1.0) / 3.3))
        sig = rng.randint(14, max(14, smax)) / 8.0
        rmax = N / 2 - 1 - 3.3 * sig
        while True:
            v = [rng.randint(-40, 40) / 8.0 for _ in range(3)]
            if math.sqrt(sum(x * x for x in v)) <= max(rmax, 0.0):
                break
        out.append([rng.randint(4, 16) / 4.0, sig, v])
    return out


def gen_rotblob(rng):
    N = rng.randint(18, 24)
    ang = [rng.randint(-1440, 1440) / 4.0, rng.randint(0, 720) / 4.0, rng.randint(-1440, 1440) / 4.0]
    return dict(kind="rotblob", N=N, blobs=_blobs(rng, N), angles=ang)


def gen_extract(rng):
    V = _shape(rng, 4, 10)
    sub = [rng.choice([2, 4, 6, 8]) for _ in range(3)]
    if rng.random() < 0.15:
        sub = [rng.randint(1, 7) for _ in range(3)]
    den = rng.choice([1, 1, 2, 4])
    mode = rng.choice(["inside", "inside", "partly", "partly", "outside", "any"])
    if mode == "inside":
        sub = [rng.choice([k for k in (2, 4, 6, 8) if k <= v]) for v in V]
    num = []
    for v, s in zip(V, sub):
        if mode == "inside" and s <= v:
            lo, hi = s / 2, v - s / 2
        elif mode == "outside":
            lo, hi = (-s - 3, -s / 2 - 0.5) if rng.random() < 0.5 else (v + s / 2 + 0.5, v + s + 3)
            if rng.random() < 0.5:
                lo, hi = -s, v + s  # only some axes outside
        else:
            lo, hi = -s / 2 - 1, v + s / 2 + 1
        num.append(rng.randint(math.ceil(lo * den), math.floor(hi * den)))
    return dict(kind="extract", data=_intvol(rng, V), num=num, den=den, sub=sub)


def gen_place(rng, tier="quick"):
    C = _shape(rng, 8, 14)
    ts = rng.choice([4, 6, 8])
    tshape = [ts, ts, ts] if rng.random() < 0.7 else [rng.choice([4, 6, 8]) for _ in range(3)]
    tden = 16
    vals = [0, 0, 1, 2, 3, 8, 16, 16, 48, -16]        # /16: 1/16 and 0.1 > 1.5/16 below the threshold, 2/16 = 0.125 above
    t = np.zeros(tshape, dtype=int)
    for idx in itertools.product(*[range(1, n - 1) for n in tshape]):
        t[idx] = rng.choice(vals)
    if not (t > 1).any():
        t[tuple(n // 2 for n in tshape)] = 16
    n = rng.randint(1, 20) if rng.random() < 0.8 else rng.randint(1, 3)
    feature = rng.choice(["object_id", "object_id", "score", "geom1", "class"])
    general = rng.random() < 0.25
    parts = []
    for i in range(n):
        pos = [rng.randint(-2, c + 3) for c in C]
        sh4 = [rng.randint(-8, 8) if rng.random() < 0.6 else 0 for _ in range(3)]
        if feature == "score":
            col = [rng.randint(1, 64), 64]
        else:
            col = [rng.randint(1, 30), 1]
        p = dict(pos=pos, shift4=sh4, col=col)
        if general:
            p["angles"] = [rng.randint(-720, 720) / 4.0, rng.randint(0, 720) / 4.0, rng.randint(-720, 720) / 4.0]
        else:
            p["q"] = [rng.randrange(4) for _ in range(3)]
        parts.append(p)
    cinit = None
    if rng.random() < 0.4:
        cinit = [[[rng.choice([0, 0, 0, 77, -5]) for _ in range(C[2])] for _ in range(C[1])] for _ in range(C[0])]
    return dict(kind="place", cshape=C, cinit=cinit, tshape=tshape, tdata=t.tolist(), tden=tden, parts=parts, feature=feature,
                index=rng.choice(["default", "offset", "shuffled", "filtered"]))


def gen_symexact(rng, n=None):
    n = n or rng.choice([2, 4, 4, 2, 1])
    shape = _shape(rng, 5, 9)
    if rng.random() < 0.5:
        shape[1] = shape[0]
    zf = rng.random() < 0.5
    return dict(kind="symexact", n=n, shape=shape, data=_intvol(rng, shape, zero_faces=zf), zero_faces=zf, form=rng.choice(["int", "str"]))


def gen_symblob(rng, n=None):
    N = rng.randint(20, 24)
    return dict(kind="symblob", n=n or rng.randint(2, 12), N=N, blobs=_blobs(rng, N), form=rng.choice(["int", "str"]))


def generate(rng, tier, n):
    # systematic part
    reps = {}
    for a, b, c in itertools.product(range(4), repeat=3):
        reps.setdefault(tuple(cube(a, b, c).flatten()), []).append((a, b, c))
    assert len(reps) == 24
    if tier == "thorough":     # exhaustive: every quarter-turn triple x boxes 5..9 (cubic) + one non-cubic box each
        for tr in itertools.product(range(4), repeat=3):
            for N in range(5, 10):
                yield gen_rot24(rng, q=tr, shape=[N, N, N])
            yield gen_rot24(rng, q=tr, shape=[rng.randint(5, 9) for _ in range(3)])
    elif tier == "quick":      # every one of the 24 rotations once on an odd and once on an even box
        for key, trs in sorted(reps.items()):
            yield gen_rot24(rng, q=rng.choice(trs), shape=rng.choice([[5, 5, 5], [7, 7, 7], [9, 9, 9], [5, 7, 9]]))
            yield gen_rot24(rng, q=rng.choice(trs), shape=rng.choice([[6, 6, 6], [8, 8, 8], [6, 7, 8], [8, 5, 6]]))
    if tier in ("quick", "thorough"):
        for k in range(2, 13):
            yield gen_symblob(rng, n=k)
        for k in (1, 2, 4):
            yield gen_symexact(rng, n=k)
    weights = [("rot24", 10), ("rotblob", 12), ("extract", 34), ("place", 26), ("symexact", 10), ("symblob", 8)]
    kinds = [k for k, w in weights for _ in range(w)]
    for _ in range(n):
        k = rng.choice(kinds)
        if k == "rot24":
            yield gen_rot24(rng)
        elif k == "rotblob":
            yield gen_rotblob(rng)
        elif k == "extract":
            yield gen_extract(rng)
        elif k == "place":
            yield gen_place(rng, tier)
        elif k == "symexact":
            yield gen_symexact(rng)
        else:
            yield gen_symblob(rng)


def shrink(case):
    k = case["kind"]
    if k == "place":
        parts = case["parts"]
        if len(parts) > 1:
            yield dict(case, parts=parts[:len(parts) // 2])
            yield dict(case, parts=parts[len(parts) // 2:])
            for i in range(len(parts)):
                yield dict(case, parts=parts[:i] + parts[i + 1:])
        if case.get("cinit") is not None:
            yield dict(case, cinit=None)
        if case["index"] != "default":
            yield dict(case, index="default")
        for i, p in enumerate(parts):
            if any(p["shift4"]):
                yield dict(case, parts=parts[:i] + [dict(p, shift4=[0, 0, 0])] + parts[i + 1:])
            if "q" in p and any(p["q"]):
                yield dict(case, parts=parts[:i] + [dict(p, q=[0, 0, 0])] + parts[i + 1:])
    elif k in ("rot24", "symexact", "extract"):
        d = np.array(case["data"])
        nz = np.argwhere(d != 0)
        if len(nz) > 1:
            for keep in (nz[: len(nz) // 2], nz[len(nz) // 2:]):
                e = np.zeros_like(d)
                for i in keep:
                    e[tuple(i)] = d[tuple(i)]
                yield dict(case, data=e.tolist())
        if k == "extract" and case["den"] != 1:
            yield dict(case, num=[n // case["den"] for n in case["num"]], den=1)
    elif k in ("rotblob", "symblob"):
        if len(case["blobs"]) > 1:
            for b in case["blobs"]:
                yield dict(case, blobs=[b])


# ------------------------------------------------------------------ implementation
def _motl(case):
    import pandas as pd
    from cryocat import cryomotl
    parts = case["parts"]
    n = len(parts)
    df = pd.DataFrame({c: np.zeros(n) for c in COLUMNS})
    for i, p in enumerate(parts):
        df.loc[i, ["x", "y", "z"]] = [float(v) for v in p["pos"]]
        df.loc[i, ["shift_x", "shift_y", "shift_z"]] = [v / 4.0 for v in p["shift4"]]
        ang = p["angles"] if "angles" in p else [90.0 * q for q in p["q"]]
        df.loc[i, ["phi", "theta", "psi"]] = ang
        df.loc[i, "subtomo_id"] = i + 1
        df.loc[i, "tomo_id"] = 1
        df.loc[i, case["feature"]] = p["col"][0] / p["col"][1]
    mode = case.get("index", "default")
    if mode == "offset":
        df.index = np.arange(n) + 5
    elif mode == "shuffled":
        df.index = [(7 * i + 3) % n for i in range(n)] if n > 1 and math.gcd(7, n) == 1 else np.arange(n)[::-1]
    elif mode == "filtered":       # what a user gets after filtering a longer list: labels with gaps
        df.index = np.arange(n) * 2 + 1
    return cryomotl.Motl(df)


def run_impl(case):
    from cryocat import cryomap
    from scipy.spatial.transform import Rotation as srot
    k = case["kind"]
    if k == "rot24":
        vol = np.array(case["data"], dtype=float)
        ang = [90.0 * q for q in case["q"]]
        out = cryomap.rotate(vol, rotation_angles=ang)
        R = srot.from_euler("zxz", ang, degrees=True)
        out2 = cryomap.rotate(vol, rotation=R, transpose_rotation=True)
        back = cryomap.rotate(out, rotation_angles=[-ang[2], -ang[1], -ang[0]])
        return dict(out=out.tolist(), out_rotobj=out2.tolist(), back=back.tolist(), scipyR=np.rint(R.as_matrix()).astype(int).flatten().tolist(),
                    scipyR_dev=float(np.abs(R.as_matrix() - np.rint(R.as_matrix())).max()))
    if k == "rotblob":
        N = case["N"]
        vol = _blob(N, case["blobs"])
        ang = case["angles"]
        out = cryomap.rotate(vol, rotation_angles=ang)
        back = cryomap.rotate(out, rotation_angles=[-ang[2], -ang[1], -ang[0]])
        R = srot.from_euler("zxz", ang, degrees=True).as_matrix()
        return dict(out=out.tolist(), inv_err=float(np.abs(back - vol).max() / np.abs(vol).max()), scipyR=R.flatten().tolist(),
                    face_mass=float(max(np.abs(out[0]).max(), np.abs(out[-1]).max(), np.abs(out[:, 0]).max(), np.abs(out[:, -1]).max(),
                                        np.abs(out[:, :, 0]).max(), np.abs(out[:, :, -1]).max()) / np.abs(vol).max()))
    if k == "extract":
        vol = np.array(case["data"], dtype=float)
        coord = np.array(case["num"], dtype=float) / case["den"]
        out = cryomap.extract_subvolume(vol, coord, list(case["sub"]))
        obs = dict(out=out.tolist(), shape=list(out.shape))
        if case["den"] == 1:
            cr = cryomap.crop(vol, list(case["sub"]), crop_coord=[int(v) for v in case["num"]])
            obs["crop"] = cr.tolist()
            obs["crop_shape"] = list(cr.shape)
        return obs
    if k == "place":
        tmpl = np.array(case["tdata"], dtype=float) / case["tden"]
        motl = _motl(case)
        kw = dict(feature_to_color=case["feature"])
        if case.get("cinit") is not None:
            kw["volume"] = np.array(case["cinit"], dtype=float)
        else:
            kw["volume_shape"] = tuple(case["cshape"])
        out = cryomap.place_object(tmpl.copy(), motl, **kw)
        obs = dict(out=out.tolist())
        if any("angles" in p for p in case["parts"]):
            masks, margin = [], 1.0
            for p in case["parts"]:
                R = srot.from_euler("zxz", p["angles"] if "angles" in p else [90.0 * q for q in p["q"]], degrees=True)
                r = cryomap.rotate(tmpl.copy(), rotation=R, transpose_rotation=True)
                margin = min(margin, float(np.abs(r - 0.1).min()))
                masks.append((r > 0.1).astype(int).tolist())
            obs["masks"] = masks
            obs["margin"] = margin
        return obs
    if k == "symexact":
        vol = np.array(case["data"], dtype=float)
        n = case["n"]
        out = cryomap.symmetrize_volume(vol, n if case["form"] == "int" else f"C{n}")
        rot1 = cryomap.rotate(out, rotation_angles=[0, 0, 360.0 / n])
        return dict(out=out.tolist(), rot1=rot1.tolist())
    if k == "symblob":
        N, n = case["N"], case["n"]
        vol = _blob(N, case["blobs"])
        out = cryomap.symmetrize_volume(vol, n if case["form"] == "int" else f"C{n}")
        rot1 = cryomap.rotate(out, rotation_angles=[0, 0, 360.0 / n])
        copies = [cryomap.rotate(vol, rotation_angles=[0, 0, j * 360.0 / n]) for j in range(1, n + 1)]
        mean = sum(copies) / n
        peak = float(np.abs(vol).max())
        sub = lambda a: [[[f2b(x) for x in r] for r in pl] for pl in a[1:-1:3, 1:-1:3, 1:-1:3].tolist()]   # symmetrizeF is voxel-wise: a sub-lattice suffices
        return dict(out=sub(out), copies=[sub(c) for c in copies],
                    inv_err=float(np.abs(rot1 - out).max() / peak), total_err=float(abs(out.sum() - vol.sum()) / abs(vol.sum())),
                    mean_err=float(np.abs(out - mean)[1:-1, 1:-1, 1:-1].max() / peak), asym=float(np.abs(copies[0] - vol).max() / peak))
    raise ValueError("unknown kind")


def requests(case, obs):
    k = case["kind"]
    if "error" in obs:
        return []
    if k == "rot24":
        return [dict(op="rotate", data=case["data"], q=case["q"])]
    if k == "rotblob":
        cs = []
        for a in case["angles"]:
            r = math.radians(a)
            cs += [f2b(math.cos(r)), f2b(math.sin(r))]
        return [dict(op="zxzapply", cs=cs, v=[f2b(x) for x in b[2]]) for b in case["blobs"]]
    if k == "extract":
        reqs = [dict(op="extract", data=case["data"], num=case["num"], den=case["den"], sub=case["sub"])]
        if case["den"] == 1:
            reqs.append(dict(op="crop", data=case["data"], num=case["num"], den=1, sub=case["sub"]))
        return reqs
    if k == "place":
        parts = []
        for i, p in enumerate(case["parts"]):
            d = dict(num=[4 * x + s for x, s in zip(p["pos"], p["shift4"])], den=4, col=p["col"])
            if "masks" in obs:
                d["mask"] = obs["masks"][i]
            else:
                d["q"] = p["q"]
            parts.append(d)
        r = dict(op="place", cshape=case["cshape"], tdata=case["tdata"], tden=case["tden"], parts=parts)
        if case.get("cinit") is not None:
            r["cdata"] = case["cinit"]
        return [r]
    if k == "symexact":
        return [dict(op="symexact", data=case["data"], n=case["n"])]
    if k == "symblob":
        return [dict(op="symmean", copies=obs["copies"], n=case["n"])]
    return []


# ------------------------------------------------------------------ judgement
def _F(kind, clause, detail):
    return dict(kind=kind, clause=clause, detail=detail)


def _worst(mask, a, b):
    d = np.where(mask, np.abs(a - b), 0.0)
    i = np.unravel_index(np.argmax(d), d.shape)
    return float(d[i]), [int(x) for x in i]


def _paint(case):
    """independent evaluation of the placement clause (quarter-turn poses, any template size): painter's algorithm"""
    C = case["cshape"]
    out = np.zeros(C) if case.get("cinit") is None else np.array(case["cinit"], dtype=float)
    t = np.array(case["tdata"]) / case["tden"]
    s = t.shape
    c = [n // 2 for n in s]
    for p in case["parts"]:
        R = cube(*p["q"])
        pos = [Fraction(4 * x + sh, 4) - 1 for x, sh in zip(p["pos"], p["shift4"])]
        start = [math.floor(pos[i] - Fraction(s[i], 2)) for i in range(3)]
        col = p["col"][0] / p["col"][1]
        for idx in itertools.product(*[range(n) for n in s]):
            if t[idx] > 0.1:
                v = np.array(idx) - c
                w = R @ v
                tt = [c[i] + int(w[i]) for i in range(3)]
                if all(0 <= tt[i] < s[i] for i in range(3)):
                    pp = [start[i] + tt[i] for i in range(3)]
                    if all(0 <= pp[i] < C[i] for i in range(3)):
                        out[tuple(pp)] = col
    return out


def judge(case, obs, resps):
    k = case["kind"]
    out = []
    if "error" in obs:
        return [_F("spec", "raises", f"{k}: {obs['error']} @{obs.get('where', '')}")]
    for r in resps:
        if "error" in r:
            out.append(_F("corr", "model-rejects", f"{k}: {r}"))
    if out:
        return out
    if k == "rot24":
        shape = case["shape"]
        vol = np.array(case["data"], dtype=float)
        R = cube(*case["q"])
        if resps[0]["R"] != R.flatten().tolist() or not resps[0]["in24"]:
            out.append(_F("corr", "cube-matrix", f"Lean cubeZxz{case['q']} = {resps[0]['R']} but Rz(psi)Rx(theta)Rz(phi) = {R.flatten().tolist()}"))
        if obs["scipyR"] != R.flatten().tolist() or obs["scipyR_dev"] > 1e-12:
            out.append(_F("corr", "scipy-zxz-convention", f"scipy from_euler('zxz',{case['q']}*90) = {obs['scipyR']}"))
        got = np.array(obs["out"])
        src = _src(R.T, shape)
        o_int = _interior(_grid(shape), shape)
        m_val = o_int & _interior(src, shape)
        m_zero = o_int & _outside(src, shape)
        exp = np.where(m_val, _take(vol, src, shape), 0.0)
        d, at = _worst(m_val | m_zero, got, exp)
        if d > TOL:
            out.append(_F("spec", "rotate-active-permutation",
                          f"q={case['q']} shape={shape}: out{at}={got[tuple(at)]!r} but in[c+R^-1(o-c)]={exp[tuple(at)]!r} (density at offset v must move to R v)"))
        d2, at2 = _worst(m_val | m_zero, np.array(obs["out_rotobj"]), exp)
        if d2 > TOL:
            out.append(_F("spec", "rotate-rotation-object-path", f"rotate(rotation=R, transpose_rotation=True) differs at {at2} by {d2}"))
        fwd = _src(R, shape)     # where voxel u of the input lands: c + R (u - c)
        m_back = o_int & _interior(fwd, shape)
        d3, at3 = _worst(m_back, np.array(obs["back"]), vol)
        if d3 > TOL:
            out.append(_F("spec", "rotate-inverse-restores", f"rotating by the inverse does not restore voxel {at3}: off by {d3}"))
        model = np.array(resps[0]["data"], dtype=float)
        d4, at4 = _worst(m_val | m_zero, got, model)
        if d4 > TOL:
            out.append(_F("corr", "rotate-vs-model", f"voxel {at4}: impl {got[tuple(at4)]!r} model {model[tuple(at4)]!r}"))
        return out
    if k == "rotblob":
        N = case["N"]
        c = N // 2
        centres, devR = [], 0.0
        Rs = np.array(obs["scipyR"]).reshape(3, 3)
        for b, r in zip(case["blobs"], resps):
            w = [b2f(x) for x in r["Rv"]]
            centres.append([c + x for x in w])
            devR = max(devR, float(np.abs(Rs @ np.array(b[2]) - np.array(w)).max()))
            back = [b2f(x) for x in r["back"]]
            if max(abs(x - y) for x, y in zip(back, b[2])) > 1e-12:
                out.append(_F("corr", "srcCoord-inverse", f"srcCoord R^T (R v) = {back} != v = {b[2]}"))
        if devR > 1e-12:
            out.append(_F("corr", "scipy-zxz-convention", f"scipy matrix and Lean zxz differ by {devR} on the blob offsets"))
        exp = _blob(N, case["blobs"], centres)
        got = np.array(obs["out"])
        err = float(np.abs(got - exp).max() / np.abs(exp).max())
        if err > TOL_BLOB:
            out.append(_F("spec", "rotate-active-blob", f"angles={case['angles']}: rotated map differs from the Gaussians re-centred at c+R*v by {err:.3f} of the peak"))
        if obs["inv_err"] > TOL_BLOB:
            out.append(_F("spec", "rotate-inverse-blob", f"rotate(R^-1) after rotate(R) differs from the map by {obs['inv_err']:.3f} of the peak"))
        return out
    if k == "extract":
        vol = np.array(case["data"], dtype=float)
        V, s = vol.shape, case["sub"]
        start = _floor_start(case["num"], case["den"], s)
        mean = float(Fraction(int(np.array(case["data"]).sum()), vol.size))
        got = np.array(obs["out"], dtype=float)
        if list(got.shape) != list(s):
            return [_F("spec", "window-shape", f"requested {s}, got {list(got.shape)}")]
        exp = np.full(s, mean)
        for t in itertools.product(*[range(n) for n in s]):
            p = [start[i] + t[i] for i in range(3)]
            if all(0 <= p[i] < V[i] for i in range(3)):
                exp[t] = vol[tuple(p)]
        d, at = _worst(np.ones(s, bool), got, exp)
        if d > TOL:
            out.append(_F("spec", "window-content", f"coord={case['num']}/{case['den']} sub={s} vol={list(V)}: out{at}={got[tuple(at)]!r}, window says {exp[tuple(at)]!r}"))
        if resps[0]["start"] != start:
            out.append(_F("corr", "window-start", f"model start {resps[0]['start']} vs floor(coord - s/2) = {start}"))
        model = _ratvol(resps[0]["data"])
        d2, at2 = _worst(np.ones(s, bool), got, model)
        if d2 > TOL:
            out.append(_F("corr", "extract-vs-model", f"voxel {at2}: impl {got[tuple(at2)]!r} model {model[tuple(at2)]!r}"))
        if "crop" in obs:
            cm = resps[1]
            lo = [min(max(0, start[i]), V[i]) for i in range(3)]
            hi = [max(min(V[i], start[i] + s[i]), 0) for i in range(3)]
            exps = [max(0, hi[i] - lo[i]) for i in range(3)]
            if obs["crop_shape"] != exps:
                out.append(_F("spec", "crop-shape", f"crop returned shape {obs['crop_shape']}, the window clipped to the volume is {exps}"))
            elif 0 not in exps and not np.array_equal(np.array(obs["crop"]), vol[lo[0]:hi[0], lo[1]:hi[1], lo[2]:hi[2]]):
                out.append(_F("spec", "crop-content", "crop is not the clipped window"))
            if cm["shape"] != obs["crop_shape"] or (0 not in exps and np.abs(np.array(cm["data"], dtype=float) - np.array(obs["crop"])).max() > TOL):
                out.append(_F("corr", "crop-vs-model", f"model shape {cm['shape']} impl {obs['crop_shape']}"))
        return out
    if k == "place":
        got = np.array(obs["out"], dtype=float)
        if list(got.shape) != list(case["cshape"]):
            return [_F("spec", "place-shape", f"container {case['cshape']} -> {list(got.shape)}")]
        if "masks" not in obs:
            exp = _paint(case)
            d, at = _worst(np.ones(got.shape, bool), got, exp)
            if d > TOL:
                out.append(_F("spec", "place-stamp", f"voxel {at}: placed map has {got[tuple(at)]!r}, stamping the rotated thresholded template at pos-1 with the field value gives {exp[tuple(at)]!r}"))
        elif obs["margin"] < 1e-6:
            return []   # a rotated template value within rounding of the threshold: outcome depends on rounding (excluded)
        model = _ratvol(resps[0]["data"])
        d2, at2 = _worst(np.ones(got.shape, bool), got, model)
        if d2 > TOL:
            out.append(_F("corr" if "masks" not in obs else "spec", "place-vs-model" if "masks" not in obs else "place-stamp-given-masks",
                          f"voxel {at2}: impl {got[tuple(at2)]!r} model {model[tuple(at2)]!r}"))
        return out
    if k == "symexact":
        shape, n = case["shape"], case["n"]
        vol = np.array(case["data"], dtype=float)
        got = np.array(obs["out"], dtype=float)
        g = _grid(shape)
        o_int = _interior(g, shape)
        srcs = [_src(cube(0, 0, (j * (4 // n)) % 4).T, shape) for j in range(1, n + 1)]
        safe = o_int.copy()
        deep = o_int.copy()
        acc = np.zeros(shape)
        for sidx in srcs:
            safe &= _interior(sidx, shape) | _outside(sidx, shape)
            deep &= _interior(sidx, shape)
            acc += np.where(_interior(sidx, shape), _take(vol, sidx, shape), 0.0)
        exp = acc / n
        d, at = _worst(safe, got, exp)
        if d > TOL:
            out.append(_F("spec", "sym-mean-of-rotated-copies", f"n={n} shape={shape}: voxel {at} is {got[tuple(at)]!r}, the mean of the {n} rotated copies is {exp[tuple(at)]!r}"))
        # invariance, on voxels whose whole orbit is interior
        nxt = _take(got, srcs[0], shape)
        d2, at2 = _worst(deep, got, nxt)
        if d2 > TOL:
            out.append(_F("spec", "sym-invariant", f"n={n}: symmetrised map differs between voxel {at2} and its image under the 360/{n} rotation by {d2}"))
        d3, at3 = _worst(deep, np.array(obs["rot1"]), got)
        if d3 > TOL:
            out.append(_F("spec", "sym-invariant-under-rotate", f"rotate(sym, 360/{n}) differs from sym at {at3} by {d3}"))
        if case["zero_faces"] and (n <= 2 or shape[0] == shape[1]):
            if abs(got.sum() - vol.sum()) > 1e-8:
                out.append(_F("spec", "sym-total-density", f"sum {got.sum()!r} vs {vol.sum()!r}"))
        model = _ratvol(resps[0]["data"])
        d4, at4 = _worst(safe, got, model)
        if d4 > TOL:
            out.append(_F("corr", "symmetrize-vs-model", f"voxel {at4}: impl {got[tuple(at4)]!r} model {model[tuple(at4)]!r}"))
        return out
    if k == "symblob":
        n = case["n"]
        if obs["mean_err"] > TOL:
            out.append(_F("spec", "sym-mean-of-rotated-copies", f"n={n}: differs from the mean of the copies rotated by k*360/{n} by {obs['mean_err']:.3g} of the peak"))
        if obs["inv_err"] > TOL_BLOB:
            out.append(_F("spec", "sym-invariant-under-rotate", f"n={n}: rotate(sym, 360/{n}) differs from sym by {obs['inv_err']:.3f} of the peak"))
        if obs["total_err"] > TOL_BLOB:
            out.append(_F("spec", "sym-total-density", f"n={n}: total density changed by {obs['total_err']:.3f}"))
        got = np.array([[[b2f(x) for x in r] for r in pl] for pl in obs["out"]])
        model = np.array([[[b2f(x) for x in r] for r in pl] for pl in resps[0]["data"]])
        dm = float(np.abs(got - model).max())
        if dm > TOL:
            out.append(_F("corr", "symmetrize-vs-model", f"n={n}: impl and symmetrizeF(copies) differ by {dm}"))
        return out
    return [_F("corr", "unknown-kind", k)]


def nontrivial(case, obs):
    k = case["kind"]
    if "error" in obs:
        return False
    if k == "rot24":
        return not np.array_equal(cube(*case["q"]), np.eye(3, dtype=int)) and len(set(np.array(case["data"]).flatten().tolist())) > 2
    if k == "rotblob":
        return True
    if k == "extract":
        return True
    if k == "place":
        init = np.zeros(case["cshape"]) if case.get("cinit") is None else np.array(case["cinit"], dtype=float)
        return bool((np.array(obs["out"]) != init).any())
    if k == "symexact":
        return case["n"] >= 2
    if k == "symblob":
        return obs["asym"] > 0.05
    return False


def stats(case, obs, resps):
    k = case["kind"]
    st = {"kind": k}
    if "error" in obs:
        st["error"] = obs["error"][:60]
        return st
    if k == "rot24":
        st["rot24:box"] = "x".join(map(str, case["shape"]))
        st["rot24:matrix"] = "".join("+0-"[0 if x > 0 else (1 if x == 0 else 2)] for x in cube(*case["q"]).flatten())
    elif k == "rotblob":
        st["rotblob:inverse_error(of peak, tol 0.02)"] = "%.3f" % obs["inv_err"]
        try:
            c = case["N"] // 2
            centres = [[c + b2f(x) for x in r["Rv"]] for r in resps]
            exp = _blob(case["N"], case["blobs"], centres)
            st["rotblob:active_error(of peak, tol 0.02)"] = "%.3f" % float(np.abs(np.array(obs["out"]) - exp).max() / np.abs(exp).max())
        except Exception:
            pass
    elif k == "extract":
        V, s = np.array(case["data"]).shape, case["sub"]
        start = _floor_start(case["num"], case["den"], s)
        ins = [max(0, min(V[i], start[i] + s[i]) - max(0, start[i])) for i in range(3)]
        st["extract:window"] = "inside" if ins == list(s) else ("outside" if 0 in ins else "partly")
        st["extract:sub_parity"] = "even" if all(x % 2 == 0 for x in s) else "odd"
        st["extract:den"] = case["den"]
    elif k == "place":
        st["place:poses"] = len(case["parts"])
        st["place:index"] = case["index"]
        st["place:feature"] = case["feature"]
        st["place:mode"] = "masks-from-rotate" if "masks" in obs else "cube-poses"
        st["place:container"] = "volume" if case.get("cinit") is not None else "volume_shape"
    elif k in ("symexact", "symblob"):
        st[k + ":n"] = case["n"]
        if k == "symblob":
            st["symblob:invariance_error(of peak, tol 0.02)"] = "%.3f" % obs["inv_err"]
            st["symblob:total_density_error(tol 0.02)"] = "%.4f" % obs["total_err"]
            st["symblob:mean_of_copies_error(tol 1e-9)"] = "%.0e" % obs["mean_err"]
        else:
            st["symexact:box"] = "x".join(map(str, case["shape"]))
    return st


def sample_view(case):
    v = {kk: vv for kk, vv in case.items() if kk not in ("data", "tdata", "cinit")}
    if "data" in case:
        v["data_shape"] = list(np.array(case["data"]).shape)
    if "parts" in case:
        v["parts"] = case["parts"][:3]
        v["n_parts"] = len(case["parts"])
    return v


def classify(case, obs, finding):
    return None


def probes(rng):
    core.use_repo()
    from cryocat import cryomap
    from scipy.spatial.transform import Rotation as srot
    out = []
    v = np.array(_intvol(rng, [6, 7, 5]), dtype=float)
    r = cryomap.rotate(v, rotation_angles=[0, 0, 0])
    out.append(dict(name="affine_transform identity reproduces samples", ok=bool(np.abs(r - v).max() < 1e-9), detail=f"max dev {np.abs(r - v).max():.2e}"))
    dev = 0.0
    for a, b, c in itertools.product(range(4), repeat=3):
        dev = max(dev, float(np.abs(srot.from_euler("zxz", [90.0 * a, 90.0 * b, 90.0 * c], degrees=True).as_matrix() - cube(a, b, c)).max()))
    out.append(dict(name="scipy zxz = Rz(psi)Rx(theta)Rz(phi) on the 64 quarter-turn triples", ok=dev < 1e-12, detail=f"max dev {dev:.2e}"))
    dev = 0.0
    for _ in range(20):
        ang = [rng.uniform(-360, 360) for _ in range(3)]
        cs = [(math.cos(math.radians(x)), math.sin(math.radians(x))) for x in ang]
        M = _rz(*cs[2]) @ _rx(*cs[1]) @ _rz(*cs[0])
        dev = max(dev, float(np.abs(srot.from_euler("zxz", ang, degrees=True).as_matrix() - M).max()))
    out.append(dict(name="scipy zxz = Rz(psi)Rx(theta)Rz(phi) on random angles", ok=dev < 1e-12, detail=f"max dev {dev:.2e}"))
    return out


LEVEL_TEXT = ("Lean 4 theorems about an index-level executable model of cryomap.rotate / get_start_end_indices / extract_subvolume / crop / "
              "place_object / symmetrize_volume: active index law out[c+Rv]=in[c+v] for every orthogonal integer matrix and the 24 enumerated "
              "cube rotations (= all quarter-turn zxz triples), inverse rotation restores, the continuous coordinate law over any commutative "
              "ring, window and stamping specifications from the clipping formulas, painter's-algorithm characterisation of the placement "
              "loop with the template centre landing on floor(pos-1)+Rv, and invariance + conservation for the mean over an exact cyclic action; "
              "tied to the source by regenerated statement/expression anchors and an exact differential run against the real functions")
LEVEL_NOTE = ("partial: spline interpolation accuracy (the 2 % clauses on smooth blobs, n not dividing 4) is validated against analytic Gaussians "
              "and rotate-back, not proved; trusted: Lean kernel, translator anchors, scipy affine_transform sample reproduction and zxz convention (probed)")
TECHNIQUE = "Lean 4 proof (integer index algebra, omega on the clipping formulas, list induction, Finset re-indexing) + regenerated anchors + exact differential correspondence"
DESIGN_REF = "DESIGN.md section 4, C14"
