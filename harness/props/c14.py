"""C14 — map rotation, placement, windowing, symmetrisation share one active convention (DESIGN.md section 4, C14)."""
import ast, math, itertools
from fractions import Fraction
import numpy as np
import core
from core import f2b, b2f

PROP = "C14"
COUNT = {"quick": 500, "thorough": 12000, "search": 1500}
PARALLEL = True
EXHAUSTIVE = {"quick": False, "thorough": True}
TOL = 1e-9          # exact paths (spline prefilter / float matrix round-off only)
# Interpolated paths (the property's "smooth map" clauses), relative to the map's peak.  H4 derivation: one cubic-spline resampling
# of a Gaussian of width sigma has error ~ K h^4 |d4f/dx4| = K' / sigma^4 of the peak (measured on 300 random rotations, sigma 1.75..2.75:
# K' <= 0.042; 0.05 is used), plus the Gaussian tail the 3.3-sigma generator rule lets touch the zero boundary of affine_transform,
# exp(-3.3^2/2) = 0.0043.  A rotate-then-invert (or symmetrise-then-rotate) path resamples twice: twice the bound.  At the smallest
# generated sigma (1.75) this gives 0.0098 for one pass (largest seen 0.0036) and 0.0196 for two (largest seen 0.00702, audit 2).
def _tol_blob(sigmas, passes=1):
    return passes * (0.05 / min(sigmas) ** 4 + 0.0045)


BLOB_SHELL = 0.015  # placeblob: voxels whose analytic value is within this of the 0.1 threshold may fall either way (spline error)
RULE = ("seven case kinds from one PRNG: rot24 = one of the 64 quarter-turn zxz triples (all 24 cube rotations) on an integer-valued box "
        "(half of the boxes in sevenths: not representable in binary) 5..9 per axis (odd, even, non-cubic) and non-cubic boxes up to 16 whose first/last floor-halves differ, every voxel >=1 away from the "
        "faces compared; the rotation-object path with transpose_rotation=True (70 %) or omitted (30 %, library default); in 60 % one more call "
        "with a non-default option or argument form (radians, intrinsic 'ZXZ', spline_order=1, tuple / ndarray angles, a file name); rotblob = "
        "random zxz angles on 1-3 isotropic Gaussians (sigma 1.75-2.75, 3.3 sigma inside the box) in a 18-24 box, compared with the analytic "
        "Gaussians at c+R*v (numpy Rz Rx Rz, independent of implementation and model) and rotate-back, tolerance 0.05/sigma^4+0.0045 per "
        "resampling; extract = extract_subvolume windows of any parity (1..13 per axis, up to and beyond the volume size, incl. all-odd >= 9) "
        "fully inside / partly / fully outside volumes of dtype float64 (integer or eighth-valued) / int16 / int32 / uint8, centre coordinates on "
        "the 1/4 grid given as ndarray / tuple / list, shape as list / tuple / ndarray; then enforce_shape=True (25 %), crop with and without "
        "crop_coord (30 % default centre), pad with and without fill_value (default mean; 15 % of pads to a smaller size: reject branch), 12 % of "
        "crop / pad through a file name; then the SAME volume array is flipped and offset in place, the coordinate moved, and a second extract "
        "is judged on the edited inputs; place = place_object with 1..20 poses, templates 3..9 per axis (odd, even, mixed parity, non-cubic), one "
        "template or a list of different templates with repeated bit-identical angles, right-angle orientations of either sign and beyond one turn "
        "(fully modelled, from the table rows through get_rotations / get_coordinates) or 20 % arbitrary orientations with two decimals (mask "
        "taken from the real rotate: consistency only; angles with three decimals or in sevenths of a degree), complete positions on the 1/4 grid "
        "(boundaries included) or on a grid binary floats cannot hold (1/100, 1/1000, 1/6, 1/14; >= 1/20 from the voxel boundaries) in and around "
        "the container, split at random between x/y/z and the shift columns (x fractional in half of the particles), subtomo_id / tomo_id "
        "unsorted with ids restarting per tomogram, the 20 columns stored in canonical, reversed, z-y-x or randomly permuted order (observed by name), "
        "colouring field object_id (keyword omitted in 2/3 of these: default) / score / geom1 / class with values <= 0 too, default / offset / "
        "shuffled / filtered / duplicated DataFrame index, float or int64 columns, volume (array or file name) or volume_shape (tuple / list); "
        "30 % with Motl.shift_positions(v) (in place, default, or inplace=False) before placing; 40 % with a second call on the same template "
        "array(s) and Motl after in-place edits of the template (flip), the colour, the Euler angles (+quarter turns), x (+-2) and shift (+-1); "
        "after every call get_angles / get_rotations / get_coordinates are compared with the table; placeblob = a Gaussian-blob template at "
        "offset v, one particle with arbitrary orientation (two decimals or 1/4 degree): stamped voxels vs the analytic ball at (voxel of pos-1) + "
        "R*v (exact outside a thin threshold shell) and centre of mass within 0.1 voxel, orientation matrix to 1e-12; symexact = "
        "symmetrize_volume n in {1,2,4} on integer or seventh-valued boxes (exact), symmetry given as int / 'C<n>' / 'c<n>' / float / np.int64 / "
        "np.int32 / np.float32 / np.float64; symblob = n in 2..12 on Gaussian blobs "
        "vs the analytic mean of the rotated Gaussians. `at the particle's position` is judged by the statement (template centre floor(s/2) on "
        "the voxel of pos-1, floor or round-half-up for fractional positions), not by the code's window formula (defect D33: odd template axes "
        "with frac(pos) < 1/2 sat one voxel low). Every "
        "call: caller-owned inputs compared before/after, dtype / type / shape of the result recorded (corr). non-trivial = rotation != identity "
        "/ >=1 stamped voxel / n>=2 / blob asymmetric; distinct = distinct case content")
ASSUMPTIONS = [
    "scipy.ndimage.affine_transform(order=3, mode='constant') reproduces samples at integer source coordinates (to 1e-9) and returns 0 for "
    "sources outside [0,N-1]; probed each run (identity and quarter-turn rotations); sources exactly on a face are excluded (rounding)",
    "scipy Rotation.from_euler('zxz',[phi,theta,psi],degrees=True).as_matrix() = Rz(psi)Rx(theta)Rz(phi) = Lean zxz; probed each run on the 64 quarter-turn triples and on random angles",
    "numpy float arithmetic on integer-valued / dyadic voxels is exact (sums, mean = correctly rounded quotient)",
    "place_object containers are floating-point arrays (volume_shape, or a float volume): an integer-typed container given as `volume` takes the "
    "colours through numpy's casting assignment (a score of 0.7 becomes 0), which is the caller's choice of dtype, not a clause of the statement: outside",
    "spline interpolation accuracy on band-limited blobs is scipy's: the smooth-map clauses are validated against analytic Gaussians with the tolerance "
    "0.05/sigma^4 + 0.0045 of the peak per resampling (derivation at _tol_blob; largest seen: 0.36 % one pass, 0.70 % rotate-then-invert), not proved",
]
TRUSTED = ["props/c14.py independent evaluators of the statement (painter's algorithm with the template centre on the voxel of pos-1, window formula, "
           "analytic Gaussians, numpy Rz Rx Rz of the angle columns, exact x + shift)"]

MAP = "cryocat/cryomap.py"
MOTL = "cryocat/cryomotl.py"
COLUMNS = ["score", "geom1", "geom2", "subtomo_id", "tomo_id", "object_id", "subtomo_mean", "x", "y", "z",
           "shift_x", "shift_y", "shift_z", "geom3", "geom4", "geom5", "phi", "psi", "theta", "class"]

# ------------------------------------------------------------------ translator (pure ast)
# Real local variable names as the source has them today (a name that is bound but never read is a DISCARD: every discard
# binding is shown as `_` and none of them takes part in the renaming, so `vs, ve, _, _ = f()` and `vs, ve, _a, _b = f()` are
# the same statement).  Canonicalisation is by NAME first: a local that still carries its documented name keeps it, wherever
# it is bound; only locals with an undocumented name are mapped - in order of their binding occurrence - onto the documented
# names that no longer occur.  A pure renaming of locals therefore leaves every anchor unchanged, a re-ordered statement shows
# up as exactly that statement (never as a cascade of shifted names), and an added local keeps its own name in the dump.
DOC_LOCALS = {
    "rotate": ["T", "structure_center", "rot_matrix", "rot", "final_matrix", "rot_struct"],
    "get_start_end_indices": ["subvolume_half", "volume_start", "volume_end", "volume_start_clip", "volume_end_clip", "subvolume_start", "subvolume_end"],
    "extract_subvolume": ["vs", "ve", "ss", "se", "subvolume"],
    "crop": ["vs", "ve", "cropped_volume"],
    "pad": ["volume", "padded_volume", "vol_size", "x_start", "y_start", "z_start", "x_end", "y_end", "z_end"],
    "place_object": ["object_container", "rotations", "coordinates", "colors", "i", "coord", "object_map", "centre_coord", "ls", "le", "os", "oe", "object_shape"],
    "symmetrize_volume": ["nfold", "inplane_step", "rotated_sum", "inplane", "rotated_volume", "sym_vol"],
    "Motl.get_rotations": ["angles", "rotations"],
    "Motl.get_angles": ["angles"],
    "Motl.get_coordinates": ["coord"],
    "Motl.shift_positions": ["shift_coords", "row", "v", "euler_angles", "orientations", "rshifts", "new_motl"],
}
_LOG_CALLS = ("print", "warn", "warning", "info", "debug", "error", "critical", "exception", "log")


def _params(fn):
    a = fn.args
    return [x.arg for x in a.posonlyargs + a.args + a.kwonlyargs] + ([a.vararg.arg] if a.vararg else []) + ([a.kwarg.arg] if a.kwarg else [])


class _Strip(ast.NodeTransformer):
    """H1: what the model mirrors is the computation - type annotations (`x: T = v` is `x = v`), docstrings and the wording of
    exception / warning / log messages are not part of it"""

    def _fn(self, n):
        self.generic_visit(n)
        n.returns = None
        a = n.args
        for x in a.posonlyargs + a.args + a.kwonlyargs + [y for y in (a.vararg, a.kwarg) if y is not None]:
            x.annotation = None
        if n.body and _is_doc(n.body[0]):
            n.body = n.body[1:] or [ast.Pass()]
        return n
    visit_FunctionDef = _fn
    visit_AsyncFunctionDef = _fn

    def visit_AnnAssign(self, n):
        self.generic_visit(n)
        if n.value is None:
            return None
        return ast.copy_location(ast.Assign(targets=[n.target], value=n.value), n)

    def visit_Raise(self, n):      # the exception class, not the wording of its message
        self.generic_visit(n)
        if isinstance(n.exc, ast.Call):
            n.exc = n.exc.func
        n.cause = None
        return n

    def visit_Call(self, n):
        self.generic_visit(n)
        f = n.func.attr if isinstance(n.func, ast.Attribute) else (n.func.id if isinstance(n.func, ast.Name) else "")
        if f in _LOG_CALLS:
            msg = lambda x: isinstance(x, ast.JoinedStr) or (isinstance(x, ast.Constant) and isinstance(x.value, str))
            n.args = [ast.Constant("<msg>") if msg(x) else x for x in n.args]
        return n


def _bindings(fn):
    """binding occurrences inside fn in source order: assigned names, loop / with / except targets, nested functions and the
    parameters of nested functions (the parameters of fn itself are its interface and keep their names)"""
    params = set(_params(fn))
    occ = []
    for n in ast.walk(fn):
        if isinstance(n, ast.Name) and isinstance(n.ctx, ast.Store) and n.id not in params:
            occ.append((n.lineno, n.col_offset, n.id))
        elif isinstance(n, (ast.FunctionDef, ast.AsyncFunctionDef)) and n is not fn:
            occ.append((n.lineno, n.col_offset, n.name))
            a = n.args
            for x in a.posonlyargs + a.args + a.kwonlyargs + [y for y in (a.vararg, a.kwarg) if y is not None]:
                occ.append((x.lineno, x.col_offset, x.arg))
        elif isinstance(n, ast.ExceptHandler) and n.name:
            occ.append((n.lineno, n.col_offset, n.name))
    out = []
    for _, _, name in sorted(occ):
        if name not in out:
            out.append(name)
    return out


def _canon(fn, doc):
    """copy of fn, stripped (H1) and with its locals canonically named (H2); `fn.c14_orig` maps canonical name -> source name"""
    import copy
    fn = _Strip().visit(copy.deepcopy(fn))
    ast.fix_missing_locations(fn)
    bound = _bindings(fn)
    read = {n.id for n in ast.walk(fn) if isinstance(n, ast.Name) and isinstance(n.ctx, ast.Load)}
    nested = {n.name for n in ast.walk(fn) if isinstance(n, (ast.FunctionDef, ast.AsyncFunctionDef)) and n is not fn}
    real = [b for b in bound if b in read or b in nested]
    ren = {b: "_" for b in bound if b not in real}                 # discards: each binding on its own, all shown as `_`
    unknown = [b for b in real if b not in doc]
    missing = [d for d in doc if d not in real]
    ren.update(dict(zip(unknown, missing)))
    # a rename must not capture another identifier of the function (a global that happens to carry a documented name)
    free = {n.id for n in ast.walk(fn) if isinstance(n, ast.Name)} - set(bound)
    for old, new_ in ren.items():
        if new_ != old and new_ != "_" and new_ in free:
            raise core.AnchorMissing(f"{fn.name}: local `{old}` would be renamed onto the free name `{new_}`")
    for n in ast.walk(fn):
        if isinstance(n, ast.Name) and n.id in ren:
            n.id = ren[n.id]
        elif isinstance(n, (ast.FunctionDef, ast.AsyncFunctionDef)) and n.name in ren:
            n.name = ren[n.name]
        elif isinstance(n, ast.arg) and n.arg in ren and n.arg not in _params(fn):
            n.arg = ren[n.arg]
        elif isinstance(n, ast.ExceptHandler) and n.name in ren:
            n.name = ren[n.name]
    fn.c14_orig = {new_: old for old, new_ in ren.items() if new_ != old and new_ != "_"}
    return fn


def _as_source(fn, text):
    """the identifiers of `text` (canonical names) as the source spells them today - for messages"""
    import re
    orig = getattr(fn, "c14_orig", {})
    src = re.sub(r"[A-Za-z_][A-Za-z_0-9]*", lambda m: orig.get(m.group(0), m.group(0)), text)
    return f"`{text}`" if src == text else f"`{text}` (in the source today: `{src}`)"


def _is_doc(st):
    return isinstance(st, ast.Expr) and isinstance(st.value, ast.Constant) and isinstance(st.value.value, str)


def _dump(stmts, depth=0, strict=None):
    """normalised dump of a statement list: one string per statement, nesting shown by leading '>'; `strict` = the only
    statement classes accepted (anything else is a missing anchor, not silently skipped)"""
    out = []
    pre = ">" * depth
    for k, st in enumerate(stmts):
        if depth == 0 and k == 0 and _is_doc(st):
            continue
        if strict is not None and not isinstance(st, strict):
            raise core.AnchorMissing(f"statement kind {type(st).__name__} at line {st.lineno} is not one the model mirrors")
        if isinstance(st, ast.Assign):
            out.append(pre + "=".join(core.norm_expr(t) for t in st.targets) + "=" + core.norm_expr(st.value))
        elif isinstance(st, ast.Return):
            out.append(pre + "return " + (core.norm_expr(st.value) if st.value is not None else ""))
        elif isinstance(st, ast.If):
            out.append(pre + "if " + core.norm_expr(st.test) + ":")
            out += _dump(st.body, depth + 1, strict)
            if st.orelse:
                out.append(pre + "else:")
                out += _dump(st.orelse, depth + 1, strict)
        elif isinstance(st, (ast.For, ast.While)):
            head = ("for " + core.norm_expr(st.target) + " in " + core.norm_expr(st.iter)) if isinstance(st, ast.For) else ("while " + core.norm_expr(st.test))
            out.append(pre + head + ":")
            out += _dump(st.body, depth + 1, strict)
            if st.orelse:
                out.append(pre + "else:")
                out += _dump(st.orelse, depth + 1, strict)
        elif isinstance(st, (ast.FunctionDef, ast.AsyncFunctionDef)):
            out.append(pre + "def " + st.name + "(" + ",".join(_sig(st)) + "):")
            out += _dump(st.body, depth + 1, strict)
        elif isinstance(st, ast.Raise):   # the exception class, not the wording of its message
            e = st.exc.func if isinstance(st.exc, ast.Call) else st.exc
            out.append(pre + "Raise:" + (core.norm_expr(e) if e is not None else ""))
        else:   # AugAssign, Expr, With, Try, Assert, Delete, ...: the whole statement, kind first
            out.append(pre + type(st).__name__ + ":" + ast.unparse(st).replace(" ", "").replace("\n", ";"))
    return out


def _sig(fn):
    """parameters in order, `name` or `name=default`"""
    a = fn.args
    pos = a.posonlyargs + a.args
    dfl = [None] * (len(pos) - len(a.defaults)) + list(a.defaults)
    out = [x.arg if d is None else f"{x.arg}={core.norm_expr(d)}" for x, d in zip(pos, dfl)]
    if a.vararg:
        out.append("*" + a.vararg.arg)
    out += [x.arg if d is None else f"{x.arg}={core.norm_expr(d)}" for x, d in zip(a.kwonlyargs, a.kw_defaults)]
    if a.kwarg:
        out.append("**" + a.kwarg.arg)
    return out


def _assign_value(fn, target):
    """normalised right-hand sides of every `target = ...` statement in fn, in source order"""
    out = []
    for n in ast.walk(fn):
        if isinstance(n, ast.Assign) and len(n.targets) == 1 and ast.unparse(n.targets[0]).replace(" ", "") == target:
            out.append((n.lineno, core.norm_expr(n.value)))
    if not out:
        raise core.AnchorMissing(f"{fn.name}: no assignment to {_as_source(fn, target)}")
    return [v for _, v in sorted(out)]


def _calls(fn, name):
    out = [n for n in ast.walk(fn) if isinstance(n, ast.Call) and ast.unparse(n.func) == name]
    if not out:
        raise core.AnchorMissing(f"{fn.name}: no call of {name}")
    return sorted(out, key=lambda n: (n.lineno, n.col_offset))


def _default(fn, arg):
    a = fn.args
    names = [x.arg for x in a.args]
    defaults = [None] * (len(names) - len(a.defaults)) + list(a.defaults)
    for n, d in zip(names, defaults):
        if n == arg and d is not None:
            return ast.literal_eval(d)
    raise core.AnchorMissing(f"{fn.name}: no default for {arg}")


def translate(src):
    A = src.anchor
    S = core.lean_str
    SL = core.lean_str_list
    cache = {}

    def cf(rel, qual):
        """the function with its locals renamed to the documented names (rename-insensitive view)"""
        if (rel, qual) not in cache:
            cache[(rel, qual)] = _canon(src.find(rel, qual), DOC_LOCALS[qual])
        return cache[(rel, qual)]
    rot = lambda: cf(MAP, "rotate")
    # ---- rotate ------------------------------------------------------------------------------
    centre = A("rotate:structure_center", lambda: _assign_value(rot(), "structure_center"))
    tcol = A("rotate:T[:3,-1]", lambda: _assign_value(rot(), "T[:3,-1]"))
    rm = A("rotate:rot_matrix[0:3,0:3] (transpose branch, plain branch, angles branch)", lambda: _assign_value(rot(), "rot_matrix[0:3,0:3]"))
    fe = A("rotate:from_euler", lambda: _assign_value(rot(), "rot"))
    fm = A("rotate:final_matrix", lambda: _assign_value(rot(), "final_matrix"))

    def affine():
        c = _calls(rot(), "affine_transform")[0]
        return sorted(f"{k.arg}={core.norm_expr(k.value)}" for k in c.keywords) + [core.norm_expr(a) for a in c.args]
    aff = A("rotate:affine_transform(...)", affine)
    seq = A("rotate:coord_space default", lambda: _default(rot(), "coord_space"))
    deg = A("rotate:degrees default", lambda: _default(rot(), "degrees"))
    tdef = A("rotate:transpose_rotation default", lambda: _default(rot(), "transpose_rotation"))
    order = A("rotate:spline_order default", lambda: _default(rot(), "spline_order"))

    def branch_tests():
        fn = rot()
        tests = []
        for n in ast.walk(fn):
            if isinstance(n, ast.If):
                tests.append((n.lineno, core.norm_expr(n.test)))
        return [t for _, t in sorted(tests)]
    tests = A("rotate:if-tests", branch_tests)
    # ---- get_start_end_indices ------------------------------------------------------------------
    gse = lambda: cf(MAP, "get_start_end_indices")
    # the model mirrors straight-line code: assignments and one return; any other statement kind (If, AugAssign, Expr, For, ...)
    # is a missing anchor
    body = A("get_start_end_indices:statements (straight-line only)", lambda: _dump(gse().body, strict=(ast.Assign, ast.Return)))
    # ---- extract_subvolume / crop ---------------------------------------------------------------
    ext = lambda: cf(MAP, "extract_subvolume")

    def ext_items():
        fn = ext()
        call = core.norm_expr(_calls(fn, "get_start_end_indices")[0])
        subs = _assign_value(fn, "subvolume")
        sl = []
        for n in ast.walk(fn):
            if isinstance(n, ast.Assign) and isinstance(n.targets[0], ast.Subscript) and ast.unparse(n.targets[0].value) == "subvolume":
                sl.append((n.lineno, core.norm_expr(n.targets[0]) + "=" + core.norm_expr(n.value)))
        return [call] + subs + [s for _, s in sorted(sl)]
    exti = A("extract_subvolume:fill and slice assignment", ext_items)

    def crop_items():
        fn = cf(MAP, "crop")
        return [core.norm_expr(_calls(fn, "get_start_end_indices")[0])] + _assign_value(fn, "cropped_volume") + _assign_value(fn, "crop_coord")
    cropi = A("crop:window", crop_items)
    # ---- place_object --------------------------------------------------------------------------
    po = lambda: cf(MAP, "place_object")
    p_rot = A("place_object:rotations", lambda: _assign_value(po(), "rotations"))
    p_coord = A("place_object:coordinates", lambda: _assign_value(po(), "coordinates"))
    p_col = A("place_object:colors", lambda: _assign_value(po(), "colors"))
    p_obj = A("place_object:object_map", lambda: _assign_value(po(), "object_map"))
    p_ctr = A("place_object:centre_coord (half a voxel up on axes of odd template size)", lambda: _assign_value(po(), "centre_coord"))
    p_idx = A("place_object:get_start_end_indices call", lambda: [core.norm_expr(c) for c in _calls(po(), "get_start_end_indices")])
    p_shape = A("place_object:object_shape", lambda: _assign_value(po(), "object_shape"))
    p_loop = A("place_object:loop", lambda: [core.norm_expr(n.target) + " in " + core.norm_expr(n.iter) for n in ast.walk(po()) if isinstance(n, ast.For)])

    def p_assign():
        out = []
        for n in ast.walk(po()):
            if isinstance(n, ast.Assign) and isinstance(n.targets[0], ast.Subscript) and ast.unparse(n.targets[0].value) == "object_container":
                out.append(core.norm_expr(n.targets[0]) + "=" + core.norm_expr(n.value))
        if not out:
            raise core.AnchorMissing("place_object: no assignment into object_container[...]")
        return out
    p_asg = A("place_object:stamp assignment", p_assign)

    def p_offset():
        fn = po()
        for n in ast.walk(fn):
            if isinstance(n, ast.Assign) and ast.unparse(n.targets[0]) == "coordinates" and isinstance(n.value, ast.BinOp) and isinstance(n.value.op, ast.Sub) and isinstance(n.value.right, ast.Constant):
                fr = Fraction(str(n.value.right.value))
                if fr.denominator != 1:
                    raise core.AnchorMissing("place_object: offset is not an integer")
                return int(fr)
        raise core.AnchorMissing("place_object: coordinates = <expr> - <const>")
    off = A("place_object:1-based offset", p_offset)

    def p_thr():
        fn = po()
        for n in ast.walk(fn):
            if isinstance(n, ast.Call) and ast.unparse(n.func) == "np.where" and isinstance(n.args[0], ast.Compare) and ast.unparse(n.args[0].left) == "object_map" \
                    and isinstance(n.args[0].comparators[0], ast.Constant):
                cmp_ = type(n.args[0].ops[0]).__name__
                return [cmp_, str(n.args[0].comparators[0].value), str(ast.literal_eval(n.args[1])), str(ast.literal_eval(n.args[2]))]
        raise core.AnchorMissing("place_object: np.where(object_map <cmp> <const>, on, off)")
    thr = A("place_object:threshold", p_thr)
    # ---- symmetrize_volume ---------------------------------------------------------------------
    sy = lambda: cf(MAP, "symmetrize_volume")
    s_step = A("symmetrize_volume:inplane_step", lambda: _assign_value(sy(), "inplane_step"))
    s_sum = A("symmetrize_volume:rotated_sum (init, accumulate)", lambda: _assign_value(sy(), "rotated_sum"))
    s_rot = A("symmetrize_volume:rotated_volume", lambda: _assign_value(sy(), "rotated_volume"))
    s_loop = A("symmetrize_volume:loop", lambda: [core.norm_expr(n.target) + " in " + core.norm_expr(n.iter) for n in ast.walk(sy()) if isinstance(n, ast.For)])
    s_out = A("symmetrize_volume:sym_vol", lambda: _assign_value(sy(), "sym_vol"))
    # ---- cryomotl: the particle convention -----------------------------------------------------
    m_rot = A("Motl.get_rotations:from_euler", lambda: _assign_value(cf(MOTL, "Motl.get_rotations"), "rotations"))

    def m_angles():
        fn = cf(MOTL, "Motl.get_angles")
        out = []
        for n in ast.walk(fn):
            if isinstance(n, ast.List) and n.elts and all(isinstance(e, ast.Constant) and isinstance(e.value, str) for e in n.elts):
                out.append((n.lineno, [e.value for e in n.elts]))
        if not out:
            raise core.AnchorMissing("Motl.get_angles: no column list")
        first = sorted(out)[0][1]
        if any(o != first for _, o in out):
            raise core.AnchorMissing("Motl.get_angles: branches select different columns")
        return first
    m_ang = A("Motl.get_angles:columns", m_angles)

    def m_coords():
        fn = cf(MOTL, "Motl.get_coordinates")
        return _assign_value(fn, "coord")[0]
    m_crd = A("Motl.get_coordinates:x+shift_x", m_coords)

    def m_shift():
        fn = cf(MOTL, "Motl.shift_positions")      # the nested shift_coords(row) is canonicalised with it (its parameter is a local)
        return _assign_value(fn, "euler_angles") + _assign_value(fn, "orientations") + _assign_value(fn, "rshifts")
    m_sh = A("Motl.shift_positions:orientation applied to the shift", m_shift)
    # ---- whole bodies (every statement, nested blocks included) and signatures (every default) ----
    FNS = [("rotate", MAP, "rotate"), ("window", MAP, "get_start_end_indices"), ("extract", MAP, "extract_subvolume"), ("crop", MAP, "crop"),
           ("pad", MAP, "pad"), ("place", MAP, "place_object"), ("sym", MAP, "symmetrize_volume"),
           # the accessors place_object relies on, and the method that moves a particle by an offset in its own frame
           ("motlRotations", MOTL, "Motl.get_rotations"), ("motlAngles", MOTL, "Motl.get_angles"), ("motlCoords", MOTL, "Motl.get_coordinates"),
           ("motlShift", MOTL, "Motl.shift_positions")]
    bodies = {k: A(f"{q}:whole body", (lambda r=r, q=q: _dump(cf(r, q).body))) for k, r, q in FNS}
    sigs = {k: A(f"{q}:signature and defaults", (lambda r=r, q=q: _sig(cf(r, q)))) for k, r, q in FNS}

    ls = lambda v: SL(v if isinstance(v, list) else [])
    thr_ok = isinstance(thr, list)
    # a missing anchor never silently changes the model: the documented value is used (anchorsOk is false anyway)
    thr_fr = Fraction(thr[1]) if thr_ok else Fraction(1, 10)
    extra = "".join(f"def {k}Body : List String := {ls(bodies[k])}\ndef {k}Sig : List String := {ls(sigs[k])}\n" for k, _, _ in FNS)
    return f"""-- GENERATED by harness/props/c14.py from {MAP} and {MOTL}; do not edit
namespace CryoCat.Gen.C14
def anchorsOk : Bool := {"true" if src.ok else "false"}
-- rotate
def rotCentre : List String := {ls(centre)}
def rotTranslationColumn : List String := {ls(tcol)}
def rotMatrixBranches : List String := {ls(rm)}
def rotFromEuler : List String := {ls(fe)}
def rotFinalMatrix : List String := {ls(fm)}
def rotAffineCall : List String := {ls(aff)}
def rotIfTests : List String := {ls(tests)}
def rotSeqDefault : String := {S(seq if isinstance(seq, str) else "zxz")}
def rotDegreesDefault : Bool := {"false" if deg is False else "true"}
def rotTransposeDefault : Bool := {"true" if tdef is True else "false"}
def rotSplineOrder : Nat := {order if isinstance(order, int) and not isinstance(order, bool) and order >= 0 else 3}
-- get_start_end_indices / extract_subvolume / crop
def windowStatements : List String := {ls(body)}
def extractItems : List String := {ls(exti)}
def cropItems : List String := {ls(cropi)}
-- place_object
def placeRotations : List String := {ls(p_rot)}
def placeCoordinates : List String := {ls(p_coord)}
def placeColors : List String := {ls(p_col)}
def placeObjectMap : List String := {ls(p_obj)}
def placeCentreCoord : List String := {ls(p_ctr)}
def placeIndexCall : List String := {ls(p_idx)}
def placeObjectShape : List String := {ls(p_shape)}
def placeLoop : List String := {ls(p_loop)}
def placeAssignment : List String := {ls(p_asg)}
def placeOffset : Int := {off if isinstance(off, int) else 1}
def placeThreshold : Rat := mkRat ({thr_fr.numerator}) {thr_fr.denominator}
def placeThresholdCmp : String := {S(thr[0] if thr_ok else "")}
def placeOnOff : List String := {ls(thr[2:] if thr_ok else [])}
-- symmetrize_volume
def symStep : List String := {ls(s_step)}
def symSum : List String := {ls(s_sum)}
def symRotated : List String := {ls(s_rot)}
def symLoop : List String := {ls(s_loop)}
def symOut : List String := {ls(s_out)}
-- cryomotl
def motlRotations : List String := {ls(m_rot)}
def motlAngleColumns : List String := {ls(m_ang)}
def motlCoordinates : String := {S(m_crd if isinstance(m_crd, str) else "")}
def motlShiftPositions : List String := {ls(m_sh)}
-- whole bodies and signatures
{extra}end CryoCat.Gen.C14
"""


# ------------------------------------------------------------------ small exact helpers (independent of model and implementation)
_Q = [(1, 0), (0, 1), (-1, 0), (0, -1)]


def _rz(c, s):
    return np.array([[c, -s, 0], [s, c, 0], [0, 0, 1]])


def _rx(c, s):
    return np.array([[1, 0, 0], [0, c, -s], [0, s, c]])


def cube(a, b, c):
    """documented particle convention: zxz(phi,theta,psi) = Rz(psi) Rx(theta) Rz(phi), for quarter turns a,b,c"""
    return _rz(*_Q[c % 4]) @ _rx(*_Q[b % 4]) @ _rz(*_Q[a % 4])


def _grid(shape):
    return np.stack(np.meshgrid(*[np.arange(n) for n in shape], indexing="ij"))  # (3, nx, ny, nz)


def _src(M, shape):
    """index of the input voxel sampled for every output voxel: c + M (o - c)"""
    c = (np.asarray(shape) // 2).reshape(3, 1, 1, 1)
    return c + np.einsum("ij,jxyz->ixyz", np.asarray(M), _grid(shape) - c)


def _interior(idx, shape):
    return np.all([(idx[i] >= 1) & (idx[i] <= shape[i] - 2) for i in range(3)], axis=0)


def _outside(idx, shape):
    return np.any([(idx[i] <= -1) | (idx[i] >= shape[i]) for i in range(3)], axis=0)


def _take(vol, idx, shape):
    cl = [np.clip(idx[i], 0, shape[i] - 1) for i in range(3)]
    return vol[cl[0], cl[1], cl[2]]


def _floor_start(num, den, s):
    return [math.floor(Fraction(n, den) - Fraction(k, 2)) for n, k in zip(num, s)]


def _ratvol(resp_data):
    return np.array([[[Fraction(n, d) for n, d in r] for r in pl] for pl in resp_data], dtype=object).astype(float)


def _blob(N, blobs, centres=None):
    g = _grid((N, N, N)).astype(float)
    c = N // 2
    out = np.zeros((N, N, N))
    for k, (amp, sig, v) in enumerate(blobs):
        ctr = [c + v[i] for i in range(3)] if centres is None else centres[k]
        d2 = sum((g[i] - ctr[i]) ** 2 for i in range(3))
        out += amp * np.exp(-d2 / (2 * sig * sig))
    return out


# ------------------------------------------------------------------ generators
_DTYPES = ["float64", "float64", "float64", "int16", "int32", "uint8", "int16", "float32"]


def _intvol(rng, shape, zero_faces=False, sparse=False, lo=-9):
    a = np.zeros(shape, dtype=int)
    for idx in itertools.product(*[range(n) for n in shape]):
        if zero_faces and any(i == 0 or i == n - 1 for i, n in zip(idx, shape)):
            continue
        if sparse and rng.random() < 0.6:
            continue
        a[idx] = rng.randint(lo, 9)
    return a.tolist()


def _shape(rng, lo, hi):
    k = rng.random()
    if k < 0.5:
        n = rng.randint(lo, hi)
        return [n, n, n]
    return [rng.randint(lo, hi) for _ in range(3)]


def gen_rot24(rng, q=None, shape=None):
    if shape is None:
        shape = _shape(rng, 5, 9)
        if rng.random() < 0.15:      # non-cubic boxes whose first and last floor-halves differ, beyond 9
            shape = rng.choice([[8, 12, 10], [12, 12, 16], [10, 7, 13], [6, 11, 9]])
    q = q or [rng.randrange(4) for _ in range(3)]
    # G1: `transpose_rotation` is passed explicitly (True) in ~70 %, omitted (library default False) in ~30 %
    return dict(kind="rot24", shape=shape, data=_intvol(rng, shape, sparse=rng.random() < 0.3), q=list(q), plain=rng.random() < 0.3,
                # round 7: half of the boxes hold sevenths (not representable in binary, let alone in single precision): a detour of the
                # map through float32 shows in the exact permutation clause; the permutation itself stays exact
                vden=rng.choice([1, 7]),
                # item 6: one more call with a non-default option / argument form (None in half of the cases)
                alt=rng.choice([None, None, None, None, "radians", "ZXZ", "order1", "tuple", "ndarray", "path"]))


def _blobs(rng, N, nmax=3):
    """isotropic Gaussians whose 3.3-sigma ball stays >= 1 voxel inside the box under every rotation about the centre"""
    out = []
    for _ in range(rng.randint(1, nmax)):
        smax = min(22, int(8 * (N / 2 - 1 - 1.0) / 3.3))
        sig = rng.randint(14, max(14, smax)) / 8.0
        rmax = N / 2 - 1 - 3.3 * sig
        while True:
            v = [rng.randint(-40, 40) / 8.0 for _ in range(3)]
            if math.sqrt(sum(x * x for x in v)) <= max(rmax, 0.0):
                break
        out.append([rng.randint(4, 16) / 4.0, sig, v])
    return out


def gen_rotblob(rng):
    N = rng.randint(18, 24)
    ang = [rng.randint(-1440, 1440) / 4.0, rng.randint(0, 720) / 4.0, rng.randint(-1440, 1440) / 4.0]
    return dict(kind="rotblob", N=N, blobs=_blobs(rng, N), angles=ang)


def gen_extract(rng):
    mode = rng.choice(["inside", "inside", "partly", "partly", "outside", "any", "bigodd", "upto"])
    if mode == "bigodd":        # odd windows >= 9 on every axis, in volumes that may be smaller or larger
        V = [rng.randint(8, 13) for _ in range(3)]
        sub = [rng.choice([9, 9, 11, 13]) for _ in range(3)]
    elif mode == "upto":        # any size (odd, even, mixed parity) up to the volume size
        V = _shape(rng, 4, 12)
        sub = [rng.randint(max(1, v - 3), v) if rng.random() < 0.6 else rng.randint(1, v) for v in V]
    else:
        V = _shape(rng, 4, 10)
        sub = [rng.choice([2, 4, 6, 8]) for _ in range(3)]
        if rng.random() < 0.3:
            sub = [rng.randint(1, 9) for _ in range(3)]
    den = rng.choice([1, 1, 2, 4])
    if mode == "inside":
        sub = [rng.choice([k for k in range(1, 10) if k <= v and (k % 2 == 0 or rng.random() < 0.3)] or [v]) for v in V]
    num = []
    for v, s in zip(V, sub):
        if mode == "inside" and s <= v:
            lo, hi = s / 2, v - s / 2
        elif mode == "outside":
            lo, hi = (-s - 3, -s / 2 - 0.5) if rng.random() < 0.5 else (v + s / 2 + 0.5, v + s + 3)
            if rng.random() < 0.5:
                lo, hi = -s, v + s  # only some axes outside
        else:
            lo, hi = -s / 2 - 1, v + s / 2 + 1
        a, b = math.ceil(lo * den), math.floor(hi * den)
        num.append(rng.randint(a, max(a, b)))
    dtype = rng.choice(_DTYPES)
    case = dict(kind="extract", data=_intvol(rng, V, lo=0 if dtype == "uint8" else -9), dtype=dtype, num=num, den=den, sub=sub,
                enforce=rng.random() < 0.25,            # explicit enforce_shape=True (default False is what `out` exercises)
                crop_default=rng.random() < 0.3,         # G1: crop_coord omitted -> box centre
                # item 6: non-integer voxels (eighths: sums and the mean stay exact in binary floating point)
                vden=8 if dtype in ("float64", "float32") and rng.random() < 0.4 else 1,
                # H3: array-like arguments as a user passes them
                coord_as=rng.choice(["ndarray", "ndarray", "tuple", "list"]), sub_as=rng.choice(["list", "list", "tuple", "ndarray"]),
                # G2 / work list 1: between the first and the second extract the SAME volume array is legitimately edited in place
                # (flipped, offset: another mean) and the coordinate moved; the second call is judged on the edited inputs
                again=dict(flip=rng.randrange(3), add=rng.randint(0, 5), dnum=[rng.randint(-2, 2) * den for _ in range(3)]))
    if rng.random() < 0.3:
        fill = None if rng.random() < 0.5 else [rng.randint(-40, 40), 8]      # G1: fill_value omitted -> volume mean
        case["pad"] = dict(nsize=[v + rng.choice([0, 0, 1, 2, 3, 5]) for v in V], fill=fill)
        if rng.random() < 0.15:      # item 6: a new size smaller than the volume on an axis - pad cannot place the volume (model: reject)
            ax = rng.randrange(3)
            if V[ax] > 1:
                case["pad"]["nsize"][ax] = V[ax] - rng.randint(1, min(2, V[ax] - 1))
    if rng.random() < 0.12:          # item 6: crop / pad given a file name (what `read` turns into an array)
        case["via_path"] = True
    return case


_TVALS = [0, 0, 1, 2, 3, 8, 16, 16, 48, -16]        # /16: 1/16 and 0.1 > 1.5/16 below the threshold, 2/16 = 0.125 above


def _template(rng, tshape):
    t = np.zeros(tshape, dtype=int)
    for idx in itertools.product(*[range(1, n - 1) for n in tshape]):
        t[idx] = rng.choice(_TVALS)
    if not (t > 1).any():
        t[tuple(n // 2 for n in tshape)] = 16
    return t.tolist()


def _off_boundary(rng, den):
    """a shift numerator whose fractional part is neither 0 nor 1/2 (>= 1/20 away): the voxel a position falls into does not
    depend on the last bit of a rotated shift"""
    while True:
        k = rng.randint(-2 * den, 2 * den)
        r = (k % den) / den
        if min(abs(r - b) for b in (0.0, 0.5, 1.0)) >= 0.05:
            return k


def gen_place(rng, tier="quick"):
    C = _shape(rng, 8, 14)
    ts = rng.randint(3, 9)                                # odd, even: 3..9
    tshape = [ts, ts, ts] if rng.random() < 0.6 else [rng.randint(3, 9) for _ in range(3)]      # mixed parity, non-cubic
    tden = 16
    n = rng.randint(1, 20) if rng.random() < 0.8 else rng.randint(1, 3)
    if ts >= 8 and n > 8:
        n = rng.randint(1, 8)
    feature = rng.choice(["object_id", "object_id", "object_id", "score", "geom1", "class"])
    general = rng.random() < 0.2
    tlist = (not general) and rng.random() < 0.3           # the list entry point: one template per particle
    # the grid of x and shift: quarters (dyadic: every sum is exact, positions may sit ON the voxel boundaries 0 and 1/2), or a grid a
    # binary float cannot hold - hundredths, thousandths, sixths (thirds), fourteenths (sevenths): a table whose positions, shifts or
    # angles are rounded to two decimals on the way in differs (round 7); there the complete position keeps >= 1/20 from 0 and 1/2
    pden = rng.choice([4, 4, 4, 100, 1000, 6, 14])
    # item 3: Motl.shift_positions (an offset in the particle's own frame) before placing; positions then carry the round-off
    # of the rotated offset, so they stay away from the voxel boundaries 0 and 1/2
    shiftpos = None
    if not general and rng.random() < 0.3:
        while True:
            v = [rng.randint(-3, 3) for _ in range(3)]
            if any(v):
                break
        shiftpos = dict(v=v, inplace=rng.choice([None, True, False]))
    parts = []
    for i in range(n):
        pos = [rng.randint(-2, c + 3) for c in C]
        if shiftpos is not None or pden != 4:
            sh = [_off_boundary(rng, pden) for _ in range(3)]
        else:
            sh = [rng.randint(-2 * pden, 2 * pden) if rng.random() < 0.6 else 0 for _ in range(3)]
        if feature == "score":
            col = [rng.randint(-16, 64), 64]
        else:
            col = [rng.randint(-3, 30), 1]                # item 6: colours <= 0 too
        p = dict(pos=pos, shift4=sh, col=col)
        # round 7: the complete position pos + shift4/pden is split at random between the x / y / z columns and the shift columns
        # (x = pos + xnum/pden, shift = (shift4 - xnum)/pden): x, y, z are fractional in half of the particles
        if rng.random() < 0.5:
            p["xnum"] = [rng.randint(-pden, pden) for _ in range(3)]
        if general:                                        # angles with three decimals or in sevenths of a degree
            if rng.random() < 0.5:
                p["angles"] = [rng.randint(-180000, 180000) / 1000.0, rng.randint(0, 180000) / 1000.0, rng.randint(-180000, 180000) / 1000.0]
            else:
                p["angles"] = [rng.randint(-1260, 1260) / 7.0, rng.randint(0, 1260) / 7.0, rng.randint(-1260, 1260) / 7.0]
        else:
            p["q"] = [rng.randint(-4, 7) for _ in range(3)]         # right angles of any sign, beyond one turn
            if tlist:
                p["tdata"] = _template(rng, tshape)
                if i > 0 and rng.random() < 0.5:       # bit-identical angles for particles with different templates
                    p["q"] = list(rng.choice(parts)["q"])
        parts.append(p)
    # round 7: subtomo_id / tomo_id as a merged, filtered list has them - not sorted, ids restarting per tomogram (a constructor that
    # sorted or de-duplicated rows would change the order of stamps and accessors)
    ids = list(range(1, n + 1))
    rng.shuffle(ids)
    for p, sid in zip(parts, ids):
        p["tid"] = rng.choice([1, 2, 3, 7])
        p["sid"] = sid if rng.random() < 0.8 else rng.randint(1, n)
    cinit = None
    if rng.random() < 0.4:
        cinit = [[[rng.choice([0, 0, 0, 77, -5]) for _ in range(C[2])] for _ in range(C[1])] for _ in range(C[0])]
    case = dict(kind="place", cshape=C, cinit=cinit, tshape=tshape, tdata=_template(rng, tshape), tden=tden, parts=parts, feature=feature,
                index=rng.choice(["default", "offset", "shuffled", "filtered", "duplicated"]), tlist=tlist, pden=pden,
                kw_feature=not (feature == "object_id" and rng.random() < 0.65),       # G1: feature_to_color omitted -> 'object_id'
                vshape_as=rng.choice(["tuple", "list"]), colorder=_col_order(rng),
                # H3: a table read from a STAR file whose values are all whole numbers has int64 columns (also under shift_positions,
                # which converts the row to float before adding the rotated offset)
                intcols=rng.random() < 0.3)
    if shiftpos is not None:
        case["shiftpos"] = shiftpos
    if cinit is not None and rng.random() < 0.2:
        case["cinit_path"] = True                          # item 6: the container given as a file name
    if not general and rng.random() < 0.4:
        # G2: the same template array(s) and the same Motl object serve a second call after legitimate in-place edits of the
        # template, the colouring field, the Euler angles and the positions (work list 1: a stale cache of orientations or
        # coordinates must show)
        while True:
            dq = [rng.randint(0, 3) for _ in range(3)]
            if dq[0] or dq[2]:
                break
        case["second"] = dict(flip=rng.randrange(3), coladd=rng.randint(1, 5), dq=dq, dpos=[rng.randint(-2, 2) for _ in range(3)],
                              dhalf=[rng.randint(-2, 2) for _ in range(3)])
    return case


def gen_placeblob(rng):
    """a Gaussian blob template at offset v from the template centre, one particle with arbitrary orientation"""
    T = [rng.randint(14, 20) for _ in range(3)] if rng.random() < 0.6 else [rng.randint(14, 20)] * 3
    sig = rng.randint(14, 20) / 8.0
    rho = sig * math.sqrt(2 * math.log(10.0))
    rmax = min(T) / 2 - 2.0 - rho
    while True:
        v = [rng.randint(-32, 32) / 8.0 for _ in range(3)]
        if 0.75 <= math.sqrt(sum(x * x for x in v)) <= max(rmax, 0.8):
            break
    C = [rng.randint(t + 6, t + 14) for t in T]
    pos4 = [rng.randint(4 * (t // 2 + 2), 4 * (c - t // 2 - 1)) for t, c in zip(T, C)]
    if rng.random() < 0.5:      # decimal angles with three places (off the dyadic grid, not on the 0.01 grid), else the 1/4-degree grid
        ang = [rng.randint(-180000, 180000) / 1000.0, rng.randint(0, 180000) / 1000.0, rng.randint(-180000, 180000) / 1000.0]
    else:
        ang = [rng.randint(-720, 720) / 4.0, rng.randint(0, 720) / 4.0, rng.randint(-720, 720) / 4.0]
    if rng.random() < 0.1:
        ang = [90.0 * rng.randrange(4) for _ in range(3)]
    return dict(kind="placeblob", tshape=T, sigma=sig, v=v, cshape=C, pos4=pos4, angles=ang, col=rng.randint(1, 30), colorder=_col_order(rng))


# the number of folds as a user may hold it: python int / float, 'C<n>' / 'c<n>', and the numpy scalars that indexing an integer array,
# np.max or a float32 table give (round 7: the numpy scalars were refused with ValueError - defect D35, repaired)
_SYM_FORMS = ["int", "str", "float", "lower", "npint64", "npint32", "npfloat32", "npfloat64"]


def gen_symexact(rng, n=None):
    n = n or rng.choice([2, 4, 4, 2, 1])
    shape = _shape(rng, 5, 9)
    if rng.random() < 0.5:
        shape[1] = shape[0]
    zf = rng.random() < 0.5
    return dict(kind="symexact", n=n, shape=shape, data=_intvol(rng, shape, zero_faces=zf), zero_faces=zf, form=rng.choice(_SYM_FORMS),
                vden=rng.choice([1, 7]))


def _blobs_z(rng, N):
    """isotropic Gaussians whose 3.3-sigma ball stays >= 1 voxel inside the box under every rotation about the z axis through the
    centre; the first one sits >= 3 voxels off the axis, where a wrong in-plane angle moves density visibly"""
    out = []
    for i in range(rng.randint(1, 3)):
        sig = rng.randint(14, 20) / 8.0
        rmax = N / 2 - 1 - 3.3 * sig
        while True:
            v = [rng.randint(-72, 72) / 8.0 for _ in range(3)]
            r = math.hypot(v[0], v[1])
            if r <= rmax and abs(v[2]) <= rmax and (i > 0 or r >= min(3.0, rmax - 0.5)):
                break
        out.append([rng.randint(4, 16) / 4.0, sig, v])
    return out


def gen_symblob(rng, n=None):
    N = rng.randint(24, 30)
    return dict(kind="symblob", n=n or rng.randint(2, 12), N=N, blobs=_blobs_z(rng, N), form=rng.choice(_SYM_FORMS))


def generate(rng, tier, n):
    # systematic part
    reps = {}
    for a, b, c in itertools.product(range(4), repeat=3):
        reps.setdefault(tuple(cube(a, b, c).flatten()), []).append((a, b, c))
    assert len(reps) == 24
    if tier == "thorough":     # exhaustive: every quarter-turn triple x boxes 5..9 (cubic) + one non-cubic box each
        for tr in itertools.product(range(4), repeat=3):
            for N in range(5, 10):
                yield gen_rot24(rng, q=tr, shape=[N, N, N])
            yield gen_rot24(rng, q=tr, shape=[rng.randint(5, 9) for _ in range(3)])
            yield gen_rot24(rng, q=tr, shape=rng.choice([[8, 12, 10], [12, 12, 16], [10, 7, 13]]))
    elif tier == "quick":      # every one of the 24 rotations once on an odd and once on an even box
        for key, trs in sorted(reps.items()):
            yield gen_rot24(rng, q=rng.choice(trs), shape=rng.choice([[5, 5, 5], [7, 7, 7], [9, 9, 9], [5, 7, 9]]))
            yield gen_rot24(rng, q=rng.choice(trs), shape=rng.choice([[6, 6, 6], [8, 8, 8], [6, 7, 8], [8, 5, 6], [8, 12, 10], [12, 12, 16]]))
    if tier in ("quick", "thorough"):
        for k in range(2, 13):
            yield gen_symblob(rng, n=k)
        for k in (1, 2, 4):
            yield gen_symexact(rng, n=k)
    weights = [("rot24", 10), ("rotblob", 10), ("extract", 32), ("place", 26), ("placeblob", 6), ("symexact", 9), ("symblob", 7)]
    kinds = [k for k, w in weights for _ in range(w)]
    for _ in range(n):
        k = rng.choice(kinds)
        if k == "rot24":
            yield gen_rot24(rng)
        elif k == "rotblob":
            yield gen_rotblob(rng)
        elif k == "extract":
            yield gen_extract(rng)
        elif k == "place":
            yield gen_place(rng, tier)
        elif k == "placeblob":
            yield gen_placeblob(rng)
        elif k == "symexact":
            yield gen_symexact(rng)
        else:
            yield gen_symblob(rng)


def shrink(case):
    k = case["kind"]
    if k == "place":
        parts = case["parts"]
        if case.get("second") is not None:
            yield {kk: vv for kk, vv in case.items() if kk != "second"}
        if len(parts) > 1:
            yield dict(case, parts=parts[:len(parts) // 2])
            yield dict(case, parts=parts[len(parts) // 2:])
            for i in range(len(parts)):
                yield dict(case, parts=parts[:i] + parts[i + 1:])
        if case.get("cinit") is not None:
            yield {kk: vv for kk, vv in dict(case, cinit=None).items() if kk != "cinit_path"}
        for opt in ("shiftpos", "cinit_path"):
            if case.get(opt) is not None:
                yield {kk: vv for kk, vv in case.items() if kk != opt}
        if case.get("intcols"):
            yield dict(case, intcols=False)
        if case.get("colorder"):
            yield dict(case, colorder=None)
        if case["index"] != "default":
            yield dict(case, index="default")
        for i, p in enumerate(parts):
            if any(p.get("xnum", [0, 0, 0])):      # whole-number x, y, z (the complete position stays)
                yield dict(case, parts=parts[:i] + [{a: b for a, b in p.items() if a != "xnum"}] + parts[i + 1:])
            if any(p["shift4"]) and case.get("shiftpos") is None:
                yield dict(case, parts=parts[:i] + [dict({a: b for a, b in p.items() if a != "xnum"}, shift4=[0, 0, 0])] + parts[i + 1:])
            if "q" in p and any(p["q"]) and not case.get("tlist"):
                yield dict(case, parts=parts[:i] + [dict(p, q=[0, 0, 0])] + parts[i + 1:])
    elif k in ("rot24", "symexact", "extract"):
        if k == "rot24" and case.get("alt") is not None:
            yield dict(case, alt=None)
        if k == "extract":
            for opt in ("pad", "again", "via_path"):
                if case.get(opt) is not None:
                    yield {kk: vv for kk, vv in case.items() if kk != opt}
            for opt in ("enforce", "crop_default"):
                if case.get(opt):
                    yield dict(case, **{opt: False})
            if case.get("vden", 1) != 1:
                yield dict(case, vden=1)
            for opt in ("coord_as", "sub_as"):
                if case.get(opt) not in (None, "ndarray" if opt == "coord_as" else "list"):
                    yield dict(case, **{opt: "ndarray" if opt == "coord_as" else "list"})
        d = np.array(case["data"])
        nz = np.argwhere(d != 0)
        if len(nz) > 1:
            for keep in (nz[: len(nz) // 2], nz[len(nz) // 2:]):
                e = np.zeros_like(d)
                for i in keep:
                    e[tuple(i)] = d[tuple(i)]
                yield dict(case, data=e.tolist())
        if k == "extract" and case["den"] != 1:
            yield dict(case, num=[n // case["den"] for n in case["num"]], den=1)
    elif k in ("rotblob", "symblob"):
        if len(case["blobs"]) > 1:
            for b in case["blobs"]:
                yield dict(case, blobs=[b])


# ------------------------------------------------------------------ implementation
def _col_order(rng):
    """round 8: the 20 columns as a user's frame may store them (Motl() accepts any order: check_df_correct_format compares sorted names) -
    None = canonical, else reversed, the x/y/z and shift triples as z-y-x, or a random permutation; everything is observed by column NAME"""
    k = rng.choice(["canonical", "canonical", "reversed", "zyx", "perm"])
    if k == "canonical":
        return None
    cols = list(COLUMNS)
    if k == "reversed":
        return cols[::-1]
    if k == "zyx":
        sw = {"x": "z", "z": "x", "shift_x": "shift_z", "shift_z": "shift_x"}
        return [sw.get(c, c) for c in cols]
    rng.shuffle(cols)
    return cols


def _motl(case):
    import pandas as pd
    from cryocat import cryomotl
    parts = case["parts"]
    n = len(parts)
    den = case.get("pden", 4)
    df = pd.DataFrame({c: np.zeros(n) for c in COLUMNS})
    for i, p in enumerate(parts):
        xn = p.get("xnum", [0, 0, 0])
        df.loc[i, ["x", "y", "z"]] = [(den * v + a) / den for v, a in zip(p["pos"], xn)]
        df.loc[i, ["shift_x", "shift_y", "shift_z"]] = [(v - a) / den for v, a in zip(p["shift4"], xn)]
        ang = p["angles"] if "angles" in p else [90.0 * q for q in p["q"]]
        df.loc[i, ["phi", "theta", "psi"]] = ang
        df.loc[i, "subtomo_id"] = p.get("sid", i + 1)
        df.loc[i, "tomo_id"] = p.get("tid", 1)
        df.loc[i, case["feature"]] = p["col"][0] / p["col"][1]
    if case.get("intcols"):
        for c in COLUMNS:
            if bool((df[c] == np.floor(df[c])).all()):
                df[c] = df[c].astype("int64")
    if case.get("colorder"):
        df = df[list(case["colorder"])]
    mode = case.get("index", "default")
    if mode == "offset":
        df.index = np.arange(n) + 5
    elif mode == "shuffled":
        df.index = [(7 * i + 3) % n for i in range(n)] if n > 1 and math.gcd(7, n) == 1 else np.arange(n)[::-1]
    elif mode == "filtered":       # what a user gets after filtering a longer list: labels with gaps
        df.index = np.arange(n) * 2 + 1
    elif mode == "duplicated":     # what a user gets after concatenating tables: repeated labels
        df.index = np.arange(n) // 2
    return cryomotl.Motl(df)


def _stages(case):
    """the table and template(s) each place_object call of a `place` case sees, from the case alone (exact): a list of one or
    two stages dict(tdata, parts=[dict(num (over pden), q | angles, col, tdata?)]).  Stage 1 is the case after the optional
    shift_positions(v) (complete position + R v, R = Rz(psi)Rx(theta)Rz(phi)); stage 2 after the in-place edits of `second`."""
    den = case.get("pden", 4)
    sp = case.get("shiftpos")
    parts = []
    for p in case["parts"]:
        q = dict(num=[den * x + s for x, s in zip(p["pos"], p["shift4"])], col=list(p["col"]))
        for k in ("q", "angles", "tdata"):
            if k in p:
                q[k] = p[k]
        if sp is not None:
            w = cube(*p["q"]) @ np.array(sp["v"])
            q["num"] = [int(a + den * int(b)) for a, b in zip(q["num"], w)]
        parts.append(q)
    st1 = dict(tdata=case["tdata"], parts=parts)
    out = [st1]
    sec = case.get("second")
    if sec is not None:
        fl = lambda t: np.flip(np.array(t), axis=sec["flip"]).tolist()
        dq, dpos, dhalf = sec.get("dq", [0, 0, 0]), sec.get("dpos", [0, 0, 0]), sec.get("dhalf", [0, 0, 0])
        parts2 = []
        for p in parts:
            q = dict(p, col=[p["col"][0] + sec["coladd"] * p["col"][1], p["col"][1]],
                     num=[a + den * b + (den // 2) * c for a, b, c in zip(p["num"], dpos, dhalf)], q=[a + b for a, b in zip(p["q"], dq)])
            if "tdata" in p:
                q["tdata"] = fl(p["tdata"])
            parts2.append(q)
        out.append(dict(tdata=fl(case["tdata"]), parts=parts2))
    return out


def _stage_angles(p):
    return [float(x) for x in p["angles"]] if "angles" in p else [90.0 * q for q in p["q"]]


def _res(a):
    """G3: what the library returned, as returned: python type, dtype, shape and the values (ints stay ints, text stays text)"""
    if not isinstance(a, np.ndarray):
        return dict(type=type(a).__name__, dtype="", shape=[], vals=None)
    return dict(type="ndarray", dtype=str(a.dtype), shape=list(a.shape), vals=a.tolist())


def _same(a, b):
    return bool(a.dtype == b.dtype and a.shape == b.shape and np.array_equal(a, b))


def _gauss(shape, ctr, sig, amp=1.0):
    g = _grid(shape).astype(float)
    d2 = sum((g[i] - ctr[i]) ** 2 for i in range(3))
    return amp * np.exp(-d2 / (2 * sig * sig))


def _zxz(ang):
    cs = [(math.cos(math.radians(x)), math.sin(math.radians(x))) for x in ang]
    return _rz(*cs[2]) @ _rx(*cs[1]) @ _rz(*cs[0])


def _sym_arg(case):
    """the symmetry as the docstring allows it: 'C<n>', an int or a float"""
    n = case["n"]
    return {"int": n, "float": float(n), "lower": f"c{n}", "npint64": np.int64(n), "npint32": np.int32(n), "npfloat32": np.float32(n),
            "npfloat64": np.float64(n)}.get(case["form"], f"C{n}")


def run_impl(case):
    from cryocat import cryomap
    from scipy.spatial.transform import Rotation as srot
    k = case["kind"]
    if k == "rot24":
        vol = np.array(case["data"], dtype=float) / case.get("vden", 1)
        vol0 = vol.copy()
        ang = [90.0 * q for q in case["q"]]
        out = cryomap.rotate(vol, rotation_angles=ang)
        R = srot.from_euler("zxz", ang, degrees=True)
        obs = dict(out=_res(out))
        if case.get("plain"):
            obs["out_plain"] = _res(cryomap.rotate(vol, rotation=R))                       # transpose_rotation omitted: default
        else:
            obs["out_rotobj"] = _res(cryomap.rotate(vol, rotation=R, transpose_rotation=True))
        alt = case.get("alt")
        if alt == "radians":
            obs["out_alt"] = _res(cryomap.rotate(vol, rotation_angles=[math.radians(a) for a in ang], degrees=False))
        elif alt == "ZXZ":       # intrinsic ZXZ(psi, theta, phi) = Rz(psi) Rx(theta) Rz(phi) = extrinsic zxz(phi, theta, psi)
            obs["out_alt"] = _res(cryomap.rotate(vol, rotation_angles=[ang[2], ang[1], ang[0]], coord_space="ZXZ"))
        elif alt == "order1":    # linear interpolation reproduces samples at integer coordinates too
            obs["out_alt"] = _res(cryomap.rotate(vol, rotation_angles=ang, spline_order=1))
        elif alt == "tuple":
            obs["out_alt"] = _res(cryomap.rotate(vol, rotation_angles=tuple(ang)))
        elif alt == "ndarray":
            obs["out_alt"] = _res(cryomap.rotate(vol, rotation_angles=np.array(ang)))
        elif alt == "path":
            import tempfile, os, shutil
            tmpdir = tempfile.mkdtemp(prefix="c14_")
            try:
                fn = os.path.join(tmpdir, "map.mrc")
                cryomap.write(vol, fn, data_type=np.single)
                obs["out_alt"] = _res(cryomap.rotate(fn, rotation_angles=ang))
            finally:
                shutil.rmtree(tmpdir, ignore_errors=True)
        back = cryomap.rotate(out, rotation_angles=[-ang[2], -ang[1], -ang[0]])
        obs.update(back=_res(back), scipyR=np.rint(R.as_matrix()).astype(int).flatten().tolist(),
                   scipyR_dev=float(np.abs(R.as_matrix() - np.rint(R.as_matrix())).max()), inputs_unchanged=_same(vol, vol0))
        return obs
    if k == "rotblob":
        N = case["N"]
        vol = _blob(N, case["blobs"])
        vol0 = vol.copy()
        ang = case["angles"]
        out = cryomap.rotate(vol, rotation_angles=ang)
        back = cryomap.rotate(out, rotation_angles=[-ang[2], -ang[1], -ang[0]])
        R = srot.from_euler("zxz", ang, degrees=True).as_matrix()
        return dict(out=out.tolist(), dtype=str(out.dtype), inv_err=float(np.abs(back - vol).max() / np.abs(vol).max()), scipyR=R.flatten().tolist(),
                    inputs_unchanged=_same(vol, vol0),
                    face_mass=float(max(np.abs(out[0]).max(), np.abs(out[-1]).max(), np.abs(out[:, 0]).max(), np.abs(out[:, -1]).max(),
                                        np.abs(out[:, :, 0]).max(), np.abs(out[:, :, -1]).max()) / np.abs(vol).max()))
    if k == "extract":
        vden = case.get("vden", 1)
        vol = np.array(case["data"]).astype(case.get("dtype", "float64"))
        if vden != 1:
            vol = vol / vden
        vol0 = vol.copy()
        as_ = lambda a, how, dt: (np.array(a, dtype=dt) if how == "ndarray" else (tuple(a) if how == "tuple" else list(a)))
        cvals = [n / case["den"] for n in case["num"]]
        coord = as_(cvals, case.get("coord_as", "ndarray"), float)
        sub = as_(case["sub"], case.get("sub_as", "list"), int)
        same_arg = lambda a, vals: bool(type(a) is type(as_(vals, "ndarray" if isinstance(a, np.ndarray) else ("tuple" if isinstance(a, tuple) else "list"), None))
                                        and np.array_equal(np.asarray(a), np.asarray(vals)))
        # G2: the same volume, coordinate and shape objects serve every call of this case
        obs = dict(out=_res(cryomap.extract_subvolume(vol, coord, sub)))
        unchanged = _same(vol, vol0) and same_arg(coord, cvals) and same_arg(sub, case["sub"])
        if case.get("enforce"):
            obs["enforce"] = _res(cryomap.extract_subvolume(vol, coord, sub, enforce_shape=True))
        tmpdir = None
        try:
            src = vol
            if case.get("via_path"):
                import tempfile, os
                tmpdir = tempfile.mkdtemp(prefix="c14_")
                src = os.path.join(tmpdir, "volume.mrc")
                cryomap.write(vol, src, data_type=np.single)      # small integers / eighths are exact in float32
            if case["den"] == 1:
                obs["crop"] = _res(cryomap.crop(src, sub, crop_coord=as_([int(v) for v in case["num"]], case.get("coord_as", "ndarray"), int)))
            if case.get("crop_default"):
                obs["crop_default"] = _res(cryomap.crop(src, sub))
            if case.get("pad") is not None:
                pd_ = case["pad"]
                ns = tuple(pd_["nsize"])
                try:
                    obs["pad"] = _res(cryomap.pad(src, ns) if pd_["fill"] is None else cryomap.pad(src, ns, fill_value=pd_["fill"][0] / pd_["fill"][1]))
                except Exception as e:     # expected exactly when the new size is smaller than the volume (judged against the model's reject)
                    obs["pad"] = dict(raised=type(e).__name__)
        finally:
            if tmpdir is not None:
                import shutil
                shutil.rmtree(tmpdir, ignore_errors=True)
        unchanged = unchanged and _same(vol, vol0) and same_arg(coord, cvals) and same_arg(sub, case["sub"])
        ag = case.get("again")
        if ag is not None:      # legitimate in-place edits of the caller-owned volume and coordinate between two calls
            vol[...] = np.flip(vol, axis=ag["flip"]) + (ag["add"] if vden == 1 else float(ag["add"]))
            cvals2 = [(n + d) / case["den"] for n, d in zip(case["num"], ag["dnum"])]
            if isinstance(coord, np.ndarray):
                coord[...] = cvals2
            elif isinstance(coord, list):
                coord[:] = cvals2
            else:
                coord = tuple(cvals2)
            vol1 = vol.copy()
            obs["again"] = _res(cryomap.extract_subvolume(vol, coord, sub))
            unchanged = unchanged and _same(vol, vol1) and same_arg(coord, cvals2) and same_arg(sub, case["sub"])
        else:
            obs["again"] = _res(cryomap.extract_subvolume(vol, coord, sub))
            unchanged = unchanged and _same(vol, vol0)
        obs["inputs_unchanged"] = bool(unchanged)
        return obs
    if k == "place":
        mk = lambda t: np.array(t, dtype=float) / case["tden"]
        tmpl = [mk(p["tdata"]) for p in case["parts"]] if case.get("tlist") else mk(case["tdata"])
        snap = lambda: [t.copy() for t in tmpl] if isinstance(tmpl, list) else tmpl.copy()
        eq = lambda a, b: all(_same(x, y) for x, y in zip(a, b)) if isinstance(a, list) else _same(a, b)
        tmpl0 = snap()
        motl = _motl(case)
        unchanged = True
        sp = case.get("shiftpos")
        if sp is not None:      # an offset in the particle's own frame, carried into the tomogram by the orientation (documented: edits df)
            if sp["inplace"] is False:
                df_before = motl.df.copy(deep=True)
                moved = motl.shift_positions(list(sp["v"]), inplace=False)
                unchanged = unchanged and motl.df.equals(df_before)       # inplace=False must leave the original alone
                motl = moved
            elif sp["inplace"] is True:
                motl.shift_positions(np.array(sp["v"]), inplace=True)
            else:
                motl.shift_positions(tuple(sp["v"]))
        df0 = motl.df.copy(deep=True)
        kw = {}
        if case.get("kw_feature", True):
            kw["feature_to_color"] = case["feature"]
        cont = None
        tmpdir = None
        if case.get("cinit") is not None:
            cont = np.array(case["cinit"], dtype=float)
            if case.get("cinit_path"):
                import tempfile, os
                tmpdir = tempfile.mkdtemp(prefix="c14_")
                kw["volume"] = os.path.join(tmpdir, "container.mrc")
                cryomap.write(cont, kw["volume"], data_type=np.single)
            else:
                kw["volume"] = cont
        else:
            kw["volume_shape"] = tuple(case["cshape"]) if case.get("vshape_as", "tuple") == "tuple" else list(case["cshape"])
        cont0 = None if cont is None else cont.copy()

        def accessors():      # what the accessors place_object relies on return for the table as it is now
            rots = motl.get_rotations()
            return dict(angles=np.asarray(motl.get_angles(), dtype=float).tolist(), coords=np.asarray(motl.get_coordinates(), dtype=float).tolist(),
                        R=np.asarray(rots.as_matrix(), dtype=float).reshape(-1, 9).tolist() if len(motl.df) else [])
        try:
            out = cryomap.place_object(tmpl, motl, **kw)
            obs = dict(out=_res(out), acc=accessors())
            unchanged = unchanged and eq(tmpl, tmpl0) and motl.df.equals(df0) and list(motl.df.index) == list(df0.index) and (cont is None or _same(cont, cont0))
            if case.get("second") is not None:
                sec = case["second"]
                den = case.get("pden", 4)
                for t in (tmpl if isinstance(tmpl, list) else [tmpl]):       # legitimate in-place edits of caller-owned inputs
                    t[...] = np.flip(t, axis=sec["flip"]).copy()
                motl.df[case["feature"]] = motl.df[case["feature"]] + float(sec["coladd"])
                if "dq" in sec:      # the orientations and positions of the SAME table object change between the two calls
                    for c, d in zip(("phi", "theta", "psi"), sec["dq"]):
                        motl.df[c] = motl.df[c] + 90 * d
                    for c, d in zip(("x", "y", "z"), sec["dpos"]):
                        motl.df[c] = motl.df[c] + d
                    for c, d in zip(("shift_x", "shift_y", "shift_z"), sec["dhalf"]):
                        motl.df[c] = motl.df[c] + d / 2
                tmpl1, df1 = snap(), motl.df.copy(deep=True)
                out2 = cryomap.place_object(tmpl, motl, **kw)
                obs["out2"] = _res(out2)
                obs["acc2"] = accessors()
                unchanged = unchanged and eq(tmpl, tmpl1) and motl.df.equals(df1) and (cont is None or _same(cont, cont0))
        finally:
            if tmpdir is not None:
                import shutil
                shutil.rmtree(tmpdir, ignore_errors=True)
        obs["inputs_unchanged"] = bool(unchanged)
        if any("angles" in p for p in case["parts"]):
            masks, margin = [], 1.0
            for p in case["parts"]:
                R = srot.from_euler("zxz", p["angles"] if "angles" in p else [90.0 * q for q in p["q"]], degrees=True)
                r = cryomap.rotate(tmpl.copy(), rotation=R, transpose_rotation=True)
                margin = min(margin, float(np.abs(r - 0.1).min()))
                masks.append((r > 0.1).astype(int).tolist())
            obs["masks"] = masks
            obs["margin"] = margin
        return obs
    if k == "placeblob":
        import pandas as pd
        from cryocat import cryomotl
        T = case["tshape"]
        c = [t // 2 for t in T]
        tmpl = _gauss(T, [c[i] + case["v"][i] for i in range(3)], case["sigma"])
        tmpl0 = tmpl.copy()
        df = pd.DataFrame({col: np.zeros(1) for col in COLUMNS})
        df.loc[0, ["x", "y", "z"]] = [p / 4.0 for p in case["pos4"]]
        df.loc[0, ["phi", "theta", "psi"]] = case["angles"]
        df.loc[0, ["subtomo_id", "tomo_id"]] = [1, 1]
        df.loc[0, "object_id"] = float(case["col"])
        if case.get("colorder"):
            df = df[list(case["colorder"])]
        motl = cryomotl.Motl(df)
        out = cryomap.place_object(tmpl, motl, volume_shape=tuple(case["cshape"]))       # feature_to_color omitted: default
        Racc = np.asarray(motl.get_rotations().as_matrix(), dtype=float).reshape(-1, 9).tolist()
        on = np.argwhere(out == float(case["col"]))
        other = int(((out != 0) & (out != float(case["col"]))).sum())
        return dict(dtype=str(out.dtype), shape=list(out.shape), on=on.tolist(), other=other, inputs_unchanged=_same(tmpl, tmpl0), R=Racc)
    if k == "symexact":
        vol = np.array(case["data"], dtype=float) / case.get("vden", 1)
        vol0 = vol.copy()
        n = case["n"]
        out = cryomap.symmetrize_volume(vol, _sym_arg(case))
        rot1 = cryomap.rotate(out, rotation_angles=[0, 0, 360.0 / n])
        return dict(out=_res(out), rot1=rot1.tolist(), inputs_unchanged=_same(vol, vol0))
    if k == "symblob":
        N, n = case["N"], case["n"]
        vol = _blob(N, case["blobs"])
        vol0 = vol.copy()
        out = cryomap.symmetrize_volume(vol, _sym_arg(case))
        unchanged = _same(vol, vol0)
        rot1 = cryomap.rotate(out, rotation_angles=[0, 0, 360.0 / n])
        copies = [cryomap.rotate(vol, rotation_angles=[0, 0, j * 360.0 / n]) for j in range(1, n + 1)]
        mean = sum(copies) / n
        peak = float(np.abs(vol).max())
        sub = lambda a: [[[f2b(x) for x in r] for r in pl] for pl in a[1:-1:3, 1:-1:3, 1:-1:3].tolist()]   # symmetrizeF is voxel-wise: a sub-lattice suffices
        # invariance, independently of rotate(): trilinear resampling of the symmetrised map on the grid turned by 360/n about z
        return dict(out=sub(out), copies=[sub(c) for c in copies], dtype=str(out.dtype), shape=list(out.shape), inputs_unchanged=unchanged,
                    inv_err=float(np.abs(rot1 - out).max() / peak), total_err=float(abs(out.sum() - vol.sum()) / abs(vol.sum())),
                    mean_err=float(np.abs(out - mean)[1:-1, 1:-1, 1:-1].max() / peak), asym=float(np.abs(copies[0] - vol).max() / peak))
    raise ValueError("unknown kind")


def _rows(stage, case, before_shift=False):
    """the table of a stage as exact rationals: 20 fields in canonical order, each [numerator, denominator]"""
    den = case.get("pden", 4)
    rows = []
    for i, (p, p0) in enumerate(zip(stage["parts"], case["parts"])):
        r = {c: [0, 1] for c in COLUMNS}
        num = [den * x + s for x, s in zip(p0["pos"], p0["shift4"])] if before_shift else p["num"]
        for c, x0, xa, nn in zip("xyz", p0["pos"], p0.get("xnum", [0, 0, 0]), num):
            # x as the table was built (whole or fractional), the shift column the rest (only their sum enters the placement)
            r[c] = [den * x0 + xa, den]
            r["shift_" + c] = [nn - den * x0 - xa, den]
        for c, qq in zip(("phi", "theta", "psi"), p["q"]):
            r[c] = [90 * qq, 1]
        r["subtomo_id"], r["tomo_id"] = [p0.get("sid", i + 1), 1], [p0.get("tid", 1), 1]
        r[case["feature"]] = list(p["col"])
        rows.append([r[c] for c in COLUMNS])
    return rows


def _rows_float(stage, case):
    den = case.get("pden", 4)
    rows = []
    for p, p0 in zip(stage["parts"], case["parts"]):
        r = {c: 0.0 for c in COLUMNS}
        for c, x0, xa, nn in zip("xyz", p0["pos"], p0.get("xnum", [0, 0, 0]), p["num"]):
            r[c], r["shift_" + c] = (den * x0 + xa) / den, (nn - den * x0 - xa) / den
        for c, a in zip(("phi", "theta", "psi"), _stage_angles(p)):
            r[c] = a
        rows.append([f2b(r[c]) for c in COLUMNS])
    return rows


def _place_reqs(case, obs):
    """per stage: the placement request, then the accessor request (Float)"""
    reqs = []
    stages = _stages(case)
    for k, st in enumerate(stages):
        if "masks" in obs:       # arbitrary poses: the stamp masks come from the real rotate()
            parts = [dict(num=p["num"], den=case.get("pden", 4), col=p["col"], mask=obs["masks"][i]) for i, p in enumerate(st["parts"])]
            r = dict(op="place", cshape=case["cshape"], tdata=st["tdata"], tden=case["tden"], parts=parts)
        else:                    # right-angle poses: the whole pipeline from the table rows, shift_positions included (stage 1)
            first_shift = k == 0 and case.get("shiftpos") is not None
            r = dict(op="placemotl", cshape=case["cshape"], tden=case["tden"], feature=case["feature"],
                     templates=[p["tdata"] for p in st["parts"]] if case.get("tlist") else [st["tdata"]],
                     rows=_rows(st, case, before_shift=first_shift))
            if first_shift:
                r["shift"] = list(case["shiftpos"]["v"])
        if case.get("cinit") is not None:
            r["cdata"] = case["cinit"]
        reqs.append(r)
        reqs.append(dict(op="motlrot", rows=_rows_float(st, case)))
    return reqs


def _extract_again(case):
    """(data, num) the second extract of an `extract` case sees (numerators over vden / den)"""
    ag = case.get("again")
    if ag is None:
        return case["data"], case["num"]
    d = np.flip(np.array(case["data"]), axis=ag["flip"]) + ag["add"] * case.get("vden", 1)
    return d.tolist(), [n + k for n, k in zip(case["num"], ag["dnum"])]


def requests(case, obs):
    k = case["kind"]
    if "error" in obs:
        return []
    if k == "rot24":
        return [dict(op="rotate", data=case["data"], q=case["q"])]
    if k == "rotblob":
        cs = []
        for a in case["angles"]:
            r = math.radians(a)
            cs += [f2b(math.cos(r)), f2b(math.sin(r))]
        return [dict(op="zxzapply", cs=cs, v=[f2b(x) for x in b[2]]) for b in case["blobs"]]
    if k == "extract":
        vd = case.get("vden", 1)
        reqs = [dict(op="extract", data=case["data"], num=case["num"], den=case["den"], sub=case["sub"], vden=vd)]
        d2, n2 = _extract_again(case)
        reqs.append(dict(op="extract", data=d2, num=n2, den=case["den"], sub=case["sub"], vden=vd))
        if "crop" in obs:
            reqs.append(dict(op="crop", data=case["data"], num=case["num"], den=1, sub=case["sub"]))
        if "crop_default" in obs:
            reqs.append(dict(op="crop", data=case["data"], sub=case["sub"]))
        if "pad" in obs:
            r = dict(op="pad", data=case["data"], nsize=case["pad"]["nsize"], vden=vd)
            if case["pad"]["fill"] is not None:
                r["fill"] = case["pad"]["fill"]
            reqs.append(r)
        return reqs
    if k == "place":
        return _place_reqs(case, obs)
    if k == "placeblob":
        cs = []
        for a in case["angles"]:
            r = math.radians(a)
            cs += [f2b(math.cos(r)), f2b(math.sin(r))]
        return [dict(op="zxzapply", cs=cs, v=[f2b(x) for x in case["v"]])]
    if k == "symexact":
        return [dict(op="symexact", data=case["data"], n=case["n"])]
    if k == "symblob":
        return [dict(op="symmean", copies=obs["copies"], n=case["n"])]
    return []


# ------------------------------------------------------------------ judgement
def _F(kind, clause, detail):
    return dict(kind=kind, clause=clause, detail=detail)


def _worst(mask, a, b):
    d = np.where(mask, np.abs(a - b), 0.0)
    i = np.unravel_index(np.argmax(d), d.shape)
    return float(d[i]), [int(x) for x in i]


def _num(res, what, out, want_shape=None):
    """G3: a result must be an ndarray of a numeric dtype (and of the expected shape); returns the float view or None"""
    if res["type"] != "ndarray":
        out.append(_F("corr", "result-type", f"{what}: returned a {res['type']}, not an array"))
        return None
    if not (res["dtype"].startswith(("float", "int", "uint"))):
        out.append(_F("corr", "result-dtype", f"{what}: returned dtype {res['dtype']} (a map must come back numeric, not text/object/bool)"))
        return None
    if want_shape is not None and list(res["shape"]) != list(want_shape):
        out.append(_F("corr", "result-shape", f"{what}: shape {res['shape']}, expected {list(want_shape)}"))
        return None
    return np.array(res["vals"], dtype=float).reshape(res["shape"])


def _stamp_start(num, den, s, conv):
    """first container voxel of a template of size s (one axis) for a particle at 1-based complete position num/den, as the
    STATEMENT asks for it: the template's centre voxel floor(s/2) (the voxel rotate() turns it about) on the voxel of the 0-based
    position pos - 1.  For a whole-number position that voxel is pos - 1 itself; for a fractional one the statement does not fix the
    rounding, and both the voxel containing it (`floor`) and the nearest voxel (`round`, half up: cryoCAT's own convention in
    update_coordinates) are accepted.  Nothing here looks at get_start_end_indices' window formula: before the repair of defect D33
    that formula put templates of odd size one voxel low whenever frac(pos) < 1/2."""
    p0 = Fraction(num, den) - 1
    if conv == "floor":
        return math.floor(p0) - s // 2
    return math.floor(p0 + Fraction(1, 2)) - s // 2


def _odd_low_axes(num, den, s):
    """axes on which the pre-repair window formula differed from the statement (statistics only): odd size, frac(pos) < 1/2"""
    return [i for i in range(3) if s[i] % 2 == 1 and (Fraction(num[i], den) % 1) < Fraction(1, 2)]


def _paint(case, stage, conv):
    """independent evaluation of the placement clause (right-angle poses, any template size, one template or a list).  Returns the
    painting in table order (a later row over an earlier one) and the mask of voxels covered by stamps of DIFFERENT colours: the
    statement says what a stamp is and where it goes, not which particle wins where two stamps overlap."""
    C = case["cshape"]
    den = case.get("pden", 4)
    out = np.zeros(C) if case.get("cinit") is None else np.array(case["cinit"], dtype=float)
    painted = np.zeros(C, bool)
    contested = np.zeros(C, bool)
    for p in stage["parts"]:
        t = np.array(p["tdata"] if case.get("tlist") else stage["tdata"]) / case["tden"]
        s = t.shape
        c = [n // 2 for n in s]
        R = cube(*p["q"])
        start = [_stamp_start(p["num"][i], den, s[i], conv) for i in range(3)]
        col = p["col"][0] / p["col"][1]
        for idx in itertools.product(*[range(n) for n in s]):
            if t[idx] > 0.1:
                v = np.array(idx) - c
                w = R @ v
                tt = [c[i] + int(w[i]) for i in range(3)]
                if all(0 <= tt[i] < s[i] for i in range(3)):
                    pp = tuple(start[i] + tt[i] for i in range(3))
                    if all(0 <= pp[i] < C[i] for i in range(3)):
                        if painted[pp] and out[pp] != col:
                            contested[pp] = True
                        out[pp] = col
                        painted[pp] = True
    return out, contested


def _judge_stamps(out, case, stage, got, suffix):
    """the placement clause for one call: spec on every voxel whose value does not depend on the order of overlapping stamps; the
    order itself (the later row wins, what the painter's-loop theorem says about the model) is documented behaviour: corr"""
    verdicts = []
    for conv in ("floor", "round"):
        exp, contested = _paint(case, stage, conv)
        d_free, at_free = _worst(~contested, got, exp)
        d_all, at_all = _worst(np.ones(got.shape, bool), got, exp)
        if d_all <= TOL:
            return
        verdicts.append((d_free, at_free, d_all, at_all, exp))
    if any(v[0] <= TOL for v in verdicts):      # only contested voxels differ
        d_free, at_free, d_all, at, exp = next(v for v in verdicts if v[0] <= TOL)
        out.append(_F("corr", "place-overlap-order" + suffix, f"voxel {at}, covered by stamps of different colours, has {got[tuple(at)]!r}; in table order the later "
                      f"row wins: {exp[tuple(at)]!r} (every uncontested voxel agrees)"))
        return
    d_free, at, d_all, at_all, exp_f = verdicts[0]
    den = case.get("pden", 4)
    s = np.array(stage["tdata"]).shape
    odd = [i for i, p in enumerate(stage["parts"]) if _odd_low_axes(p["num"], den, s)]
    out.append(_F("spec", "place-stamp" + suffix,
                  f"voxel {at}: placed map has {got[tuple(at)]!r}, stamping the rotated thresholded template with its centre voxel floor(s/2) on the voxel of "
                  f"pos-1 with the field value gives {exp_f[tuple(at)]!r} (template {list(s)}"
                  + (f"; particles {odd[:5]} have an odd template axis with frac(pos) < 1/2" if odd else "") + ")"))


def _judge_accessors(out, case, stage, acc, resp, suffix):
    """the accessors place_object relies on, against the table the case describes (independent: numpy Rz Rx Rz of the angle columns,
    x + shift_x in exact arithmetic) and against the Lean accessors at Float"""
    den = case.get("pden", 4)
    angs = [_stage_angles(p) for p in stage["parts"]]
    R_exp = np.array([_zxz(a).flatten() for a in angs])
    R_got = np.array(acc["R"], dtype=float)
    if R_got.shape != R_exp.shape:
        out.append(_F("spec", "particle-orientation" + suffix, f"get_rotations() returned {R_got.shape[0] if R_got.ndim else 0} rotations for {len(angs)} particles"))
    else:
        # tolerance: cos/sin of a double and two 3x3 products - a few ulp of 1; an angle wrong by 1e-9 degree would show
        dev = np.abs(R_got - R_exp).max(axis=1)
        i = int(np.argmax(dev))
        if dev[i] > 1e-12:
            out.append(_F("spec", "particle-orientation" + suffix, f"particle {i} with (phi, theta, psi) = {angs[i]}: get_rotations() gives {np.round(R_got[i], 6).tolist()}, "
                          f"Rz(psi)Rx(theta)Rz(phi) is {np.round(R_exp[i], 6).tolist()} (max dev {dev[i]:.3g})"))
        if np.abs(R_got - np.array([[b2f(x) for x in r] for r in resp["R"]])).max() > 1e-12:
            out.append(_F("corr", "get-rotations-vs-model" + suffix, "get_rotations() and the Lean rowRotation at Float differ"))
    c_exp = np.array([[n / den for n in p["num"]] for p in stage["parts"]], dtype=float)
    c_got = np.array(acc["coords"], dtype=float)
    if c_got.shape != c_exp.shape or np.abs(c_got - c_exp).max() > 1e-9:
        out.append(_F("spec", "particle-position" + suffix, f"get_coordinates() = {c_got.tolist()[:3]}..., the complete positions x + shift are {c_exp.tolist()[:3]}..."))
    elif np.abs(c_got - np.array([[b2f(x) for x in r] for r in resp["coords"]])).max() > 1e-9:
        out.append(_F("corr", "get-coordinates-vs-model" + suffix, "get_coordinates() and the Lean getCoordinates at Float differ"))
    a_got = np.array(acc["angles"], dtype=float)
    if a_got.shape != np.array(angs).shape or np.abs(a_got - np.array(angs)).max() > 1e-12:
        out.append(_F("corr", "get-angles" + suffix, f"get_angles() = {a_got.tolist()[:3]}..., the table holds {angs[:3]}..."))


def _window(vol, start, s, fill):
    V = vol.shape
    exp = np.full(s, fill, dtype=float)
    for t in itertools.product(*[range(n) for n in s]):
        p = [start[i] + t[i] for i in range(3)]
        if all(0 <= p[i] < V[i] for i in range(3)):
            exp[t] = vol[tuple(p)]
    return exp


def _judge_crop(out, vol, start, s, res, resp, tag, how, vden=1):
    """crop is not a clause of the statement (it speaks of extract_subvolume): documented behaviour, corr"""
    V = vol.shape
    lo = [min(max(0, start[i]), V[i]) for i in range(3)]
    hi = [max(min(V[i], start[i] + s[i]), 0) for i in range(3)]
    exps = [max(0, hi[i] - lo[i]) for i in range(3)]
    got = _num(res, tag, out)
    if got is None:
        return
    if list(got.shape) != exps:
        out.append(_F("corr", "crop-shape", f"{how} returned shape {list(got.shape)}, the window clipped to the volume is {exps}"))
    elif 0 not in exps and not np.array_equal(got, vol[lo[0]:hi[0], lo[1]:hi[1], lo[2]:hi[2]]):
        out.append(_F("corr", "crop-content", f"{how} is not the clipped window [{lo}:{hi}]"))
    if resp["shape"] != list(got.shape) or (0 not in exps and 0 not in got.shape and np.abs(np.array(resp["data"], dtype=float) / vden - got).max() > TOL):
        out.append(_F("corr", "crop-vs-model", f"{how}: model shape {resp['shape']} impl {list(got.shape)}"))


def judge(case, obs, resps):
    k = case["kind"]
    out = []
    if "error" in obs:
        if not obs.get("where"):
            # G4: no frame of the traceback lies inside cryocat: the harness or a third-party library failed, not the code under test
            return [_F("corr", "harness-or-library-raised", f"{k}: {obs['error']} (no cryocat frame in the traceback)")]
        return [_F("spec", "raises", f"{k}: {obs['error']} @{obs.get('where', '')}")]
    for r in resps:
        if "error" in r and r["error"] != "reject:smaller":      # (pad to a smaller size: the model's reject branch, judged below)
            out.append(_F("corr", "model-rejects", f"{k}: {r}"))
    if out:
        return out
    if obs.get("inputs_unchanged") is False:
        # not a clause of the statement (an edited input shows as a spec finding in the second call of the same case if it matters): corr
        out.append(_F("corr", "caller-input-modified", f"{k}: an array / table / list passed as argument was edited in place by the call"))
    if k == "rot24":
        shape = case["shape"]
        vol = np.array(case["data"], dtype=float) / case.get("vden", 1)
        R = cube(*case["q"])
        if resps[0]["R"] != R.flatten().tolist() or not resps[0]["in24"]:
            out.append(_F("corr", "cube-matrix", f"Lean cubeZxz{case['q']} = {resps[0]['R']} but Rz(psi)Rx(theta)Rz(phi) = {R.flatten().tolist()}"))
        if obs["scipyR"] != R.flatten().tolist() or obs["scipyR_dev"] > 1e-12:
            out.append(_F("corr", "scipy-zxz-convention", f"scipy from_euler('zxz',{case['q']}*90) = {obs['scipyR']}"))
        got = _num(obs["out"], "rotate", out, shape)
        if got is None:
            return out
        src = _src(R.T, shape)
        o_int = _interior(_grid(shape), shape)
        m_val = o_int & _interior(src, shape)
        m_zero = o_int & _outside(src, shape)
        exp = np.where(m_val, _take(vol, src, shape), 0.0)
        d, at = _worst(m_val | m_zero, got, exp)
        if d > TOL:
            out.append(_F("spec", "rotate-active-permutation",
                          f"q={case['q']} shape={shape}: out{at}={got[tuple(at)]!r} but in[c+R^-1(o-c)]={exp[tuple(at)]!r} (density at offset v must move to R v)"))
        if "out_rotobj" in obs:
            g2 = _num(obs["out_rotobj"], "rotate(rotation=R, transpose_rotation=True)", out, shape)
            if g2 is not None:
                d2, at2 = _worst(m_val | m_zero, g2, exp)
                if d2 > TOL:
                    out.append(_F("spec", "rotate-rotation-object-path", f"rotate(rotation=R, transpose_rotation=True) differs at {at2} by {d2}"))
        if "out_plain" in obs:      # documented default transpose_rotation=False: the inverse orientation (not a clause of the statement: corr)
            g3 = _num(obs["out_plain"], "rotate(rotation=R)", out, shape)
            if g3 is not None:
                srcp = _src(R, shape)
                mp = o_int & (_interior(srcp, shape) | _outside(srcp, shape))
                expp = np.where(_interior(srcp, shape), _take(vol, srcp, shape), 0.0)
                d5, at5 = _worst(mp, g3, expp)
                d6, at6 = _worst(mp, g3, np.array(resps[0]["plain"], dtype=float) / case.get("vden", 1))
                if d5 > TOL or d6 > TOL:
                    out.append(_F("corr", "rotate-default-transpose", f"rotate(rotation=R) with the default transpose_rotation is not the map rotated by R^-1: "
                                  f"voxel {at5 if d5 > TOL else at6} off by {max(d5, d6)}"))
        if "out_alt" in obs:     # non-default options / argument forms: documented behaviour, not a clause of the statement (corr)
            g4 = _num(obs["out_alt"], f"rotate ({case['alt']})", out, shape)
            if g4 is not None:
                d7, at7 = _worst(m_val | m_zero, g4, exp)
                if d7 > (1e-6 if case["alt"] == "path" else TOL):      # a map read from a file is float32
                    out.append(_F("corr", "rotate-nondefault-option", f"rotate with {case['alt']} differs from the map rotated by R at {at7} by {d7}"))
        fwd = _src(R, shape)     # where voxel u of the input lands: c + R (u - c)
        m_back = o_int & _interior(fwd, shape)
        gb = _num(obs["back"], "rotate (inverse)", out, shape)
        if gb is not None:
            d3, at3 = _worst(m_back, gb, vol)
            if d3 > TOL:
                out.append(_F("spec", "rotate-inverse-restores", f"rotating by the inverse does not restore voxel {at3}: off by {d3}"))
        model = np.array(resps[0]["data"], dtype=float) / case.get("vden", 1)      # a permutation: the model runs on the numerators
        d4, at4 = _worst(m_val | m_zero, got, model)
        if d4 > TOL:
            out.append(_F("corr", "rotate-vs-model", f"voxel {at4}: impl {got[tuple(at4)]!r} model {model[tuple(at4)]!r}"))
        return out
    if k == "rotblob":
        N = case["N"]
        c = N // 2
        if not obs["dtype"].startswith("float"):
            out.append(_F("corr", "result-dtype", f"rotate returned dtype {obs['dtype']}"))
        centres, devR = [], 0.0
        Rs = np.array(obs["scipyR"]).reshape(3, 3)
        for b, r in zip(case["blobs"], resps):
            w = [b2f(x) for x in r["Rv"]]
            centres.append([c + x for x in w])
            devR = max(devR, float(np.abs(Rs @ np.array(b[2]) - np.array(w)).max()))
            back = [b2f(x) for x in r["back"]]
            if max(abs(x - y) for x, y in zip(back, b[2])) > 1e-12:
                out.append(_F("corr", "srcCoord-inverse", f"srcCoord R^T (R v) = {back} != v = {b[2]}"))
        if devR > 1e-12:
            out.append(_F("corr", "scipy-zxz-convention", f"scipy matrix and Lean zxz differ by {devR} on the blob offsets"))
        # the statement's clause, evaluated independently of implementation AND model: Gaussians re-centred at c + Rz(psi)Rx(theta)Rz(phi) v
        Rn = _zxz(case["angles"])
        exp = _blob(N, case["blobs"], [[c + x for x in Rn @ np.array(b[2])] for b in case["blobs"]])
        got = np.array(obs["out"])
        err = float(np.abs(got - exp).max() / np.abs(exp).max())
        if err > _tol_blob([b[1] for b in case["blobs"]]):
            out.append(_F("spec", "rotate-active-blob", f"angles={case['angles']}: rotated map differs from the Gaussians re-centred at c+R*v by {err:.3f} of the peak"))
        errm = float(np.abs(exp - _blob(N, case["blobs"], centres)).max() / np.abs(exp).max())
        if errm > 1e-9:
            out.append(_F("corr", "zxz-model-vs-numpy", f"Lean zxz at Float and numpy Rz Rx Rz place the blobs {errm:.2e} apart"))
        if obs["inv_err"] > _tol_blob([b[1] for b in case["blobs"]], passes=2):
            out.append(_F("spec", "rotate-inverse-blob", f"rotate(R^-1) after rotate(R) differs from the map by {obs['inv_err']:.3f} of the peak"))
        return out
    if k == "extract":
        vd = case.get("vden", 1)
        s_ = case["sub"]
        got = None
        d2, n2 = _extract_again(case)
        for key, label, data, num, resp in (("out", "window-content", case["data"], case["num"], resps[0]),
                                            ("again", "window-content-second-call", d2, n2, resps[1])):
            vol = np.array(data, dtype=float) / vd
            V = vol.shape
            start = _floor_start(num, case["den"], s_)
            mean = float(Fraction(int(np.array(data).sum()), vol.size * vd))
            exp = _window(vol, start, s_, mean)
            how = f"coord={num}/{case['den']} sub={s_} vol={list(V)} dtype={case.get('dtype', 'float64')}"
            g = _num(obs[key], f"extract_subvolume ({key})", out)
            if g is None:
                continue
            if list(g.shape) != list(s_):
                out.append(_F("spec", "window-shape", f"requested {s_}, got {list(g.shape)}"))
                continue
            d, at = _worst(np.ones(s_, bool), g, exp)
            # a float32 volume: np.mean, hence the fill value, is rounded to single precision (relative 6e-8); window voxels stay exact
            tolx = 1e-6 * (1 + abs(mean)) if case.get("dtype") == "float32" else TOL
            if d > tolx:
                out.append(_F("spec", label, f"{how}: out{at}={g[tuple(at)]!r}, window says {exp[tuple(at)]!r}"))
            if resp["start"] != start:
                out.append(_F("corr", "window-start", f"model start {resp['start']} vs floor(coord - s/2) = {start}"))
            model = _ratvol(resp["data"])
            dm, atm = _worst(np.ones(s_, bool), g, model)
            if dm > tolx:
                out.append(_F("corr", "extract-vs-model", f"{key}: voxel {atm}: impl {g[tuple(atm)]!r} model {model[tuple(atm)]!r}"))
            if key == "out":
                got = g
        if got is None:
            return out
        vol = np.array(case["data"], dtype=float) / vd
        V, s = vol.shape, s_
        start = _floor_start(case["num"], case["den"], s)
        mean = float(Fraction(int(np.array(case["data"]).sum()), vol.size * vd))
        how = f"coord={case['num']}/{case['den']} sub={s} vol={list(V)} dtype={case.get('dtype', 'float64')}"
        if "enforce" in obs:       # enforce_shape=True is an option the statement does not speak about: documented behaviour, corr
            ge = _num(obs["enforce"], "extract_subvolume(enforce_shape=True)", out)
            if ge is not None:
                g = _grid(V)
                inwin = np.all([(g[i] - start[i] >= 0) & (g[i] - start[i] < s[i]) for i in range(3)], axis=0)
                expe = np.where(inwin, vol, mean)
                tole = 1e-6 * (1 + abs(mean)) if case.get("dtype") == "float32" else TOL
                if list(ge.shape) != list(V) or np.abs(ge - expe).max() > tole or np.abs(ge - _ratvol(resps[0]["enforce"])).max() > tole:
                    out.append(_F("corr", "extract-enforce-shape", f"{how}: enforce_shape=True is not the volume with everything outside the window set to the mean"))
        ri = 2
        if "crop" in obs:
            _judge_crop(out, vol, start, s, obs["crop"], resps[ri], "crop", f"crop(crop_coord={case['num']}) {how}", vd)
            ri += 1
        if "crop_default" in obs:
            startc = [math.floor(Fraction(V[i] // 2) - Fraction(s[i], 2)) for i in range(3)]
            _judge_crop(out, vol, startc, s, obs["crop_default"], resps[ri], "crop (default centre)", f"crop() about the box centre {[v // 2 for v in V]} {how}", vd)
            ri += 1
        if "pad" in obs:           # pad is not a clause of the statement: documented behaviour, corr
            ns, fl = case["pad"]["nsize"], case["pad"]["fill"]
            smaller = any(n < v for n, v in zip(ns, V))
            if smaller or "raised" in obs["pad"] or "error" in resps[ri]:
                # the model's reject branch: a new size below the volume's cannot hold it - the real pad must refuse (it raises from the
                # slice assignment) exactly then
                if not (smaller and "raised" in obs["pad"] and resps[ri].get("error") == "reject:smaller"):
                    out.append(_F("corr", "pad-reject", f"pad({list(V)} -> {ns}): new size smaller on an axis = {smaller}, impl raised = {obs['pad'].get('raised')}, "
                                  f"model = {resps[ri].get('error', 'accepts')}"))
                return out
            gp = _num(obs["pad"], "pad", out)
            if gp is not None:
                expp = np.full(ns, mean if fl is None else fl[0] / fl[1], dtype=float)
                st = [math.ceil(Fraction(ns[i] - V[i], 2)) for i in range(3)]
                expp[st[0]:st[0] + V[0], st[1]:st[1] + V[1], st[2]:st[2] + V[2]] = vol
                # a volume read from a file is float32: np.mean then rounds to float32 (relative 6e-8), everything else stays exact
                tolp = 1e-6 * (1 + abs(mean)) if case.get("via_path") or case.get("dtype") == "float32" else TOL
                if list(gp.shape) != list(ns) or np.abs(gp - expp).max() > tolp or np.abs(gp - _ratvol(resps[ri]["data"])).max() > tolp:
                    out.append(_F("corr", "pad", f"pad({list(V)} -> {ns}, fill={fl}) is not the volume centred at ceil((new-old)/2) in a block of the fill value"))
        return out
    if k == "place":
        stages = _stages(case)
        for kk, (st, okey, akey, suffix) in enumerate(zip(stages, ("out", "out2"), ("acc", "acc2"), ("", "-second-call"))):
            if okey not in obs:
                continue
            rp, ra = resps[2 * kk], resps[2 * kk + 1]
            got = _num(obs[okey], "place_object" + suffix, out)
            if got is None:
                continue
            if list(got.shape) != list(case["cshape"]):
                out.append(_F("corr", "place-shape" + suffix, f"container {case['cshape']} -> {list(got.shape)}"))
                continue
            _judge_accessors(out, case, st, obs[akey], ra, suffix)
            if "masks" not in obs:
                _judge_stamps(out, case, st, got, suffix)
                # the Lean pipeline from the table rows: positions, orientations and stamp starts it derived
                den = case.get("pden", 4)
                if [[Fraction(n, d) for n, d in c] for c in rp["coords"]] != [[Fraction(n, den) for n in p["num"]] for p in st["parts"]]:
                    out.append(_F("corr", "model-coordinates" + suffix, "Lean getCoordinates (after shiftPositions) differs from complete position + R v"))
                if rp["R"] != [cube(*p["q"]).flatten().tolist() for p in st["parts"]]:
                    out.append(_F("corr", "model-orientations" + suffix, "Lean rowCube differs from Rz(psi)Rx(theta)Rz(phi)"))
                s = np.array(st["tdata"]).shape
                want = [[_stamp_start(p["num"][i], den, s[i], "floor") for i in range(3)] for p in st["parts"]]
                if rp["starts"] != want or rp["spec"] != want:
                    out.append(_F("corr", "model-stamp-start" + suffix, "Lean placeStartQ / specStartQ differ from floor(pos-1) - floor(s/2)"))
            elif obs["margin"] < 1e-6:
                continue   # a rotated template value within rounding of the threshold: outcome depends on rounding (excluded)
            model = _ratvol(rp["data"])
            d2, at2 = _worst(np.ones(got.shape, bool), got, model)
            if d2 > TOL:
                # arbitrary poses: the stamp masks come from the implementation's own rotate(), so this is a consistency check (corr), never spec
                out.append(_F("corr", ("place-vs-model" if "masks" not in obs else "place-stamp-given-masks") + suffix,
                              f"voxel {at2}: impl {got[tuple(at2)]!r} model {model[tuple(at2)]!r}"))
        return out
    if k == "placeblob":
        if not obs["dtype"].startswith(("float", "int", "uint")) or obs["shape"] != list(case["cshape"]):
            return out + [_F("corr", "result-dtype", f"place_object returned dtype {obs['dtype']} shape {obs['shape']}")]
        T, C = case["tshape"], case["cshape"]
        c = [t // 2 for t in T]
        Rn = _zxz(case["angles"])
        onm = np.zeros(C, bool)
        for p in obs["on"]:
            onm[tuple(p)] = True

        def blob_findings(conv):
            """the clause under one reading of `at the particle's complete position` (see _stamp_start)"""
            fs = []
            start = [_stamp_start(case["pos4"][i], 4, T[i], conv) for i in range(3)]
            ctr = np.array(start) + np.array(c) + Rn @ np.array(case["v"])       # centre voxel of the template + R v
            ana = _gauss(C, ctr, case["sigma"])
            sure_on, sure_off = ana > 0.1 + BLOB_SHELL, ana < 0.1 - BLOB_SHELL
            bad = (sure_on & ~onm) | (sure_off & onm)
            if obs["other"] or bad.any():
                at = [int(x) for x in np.argwhere(bad)[0]] if bad.any() else None
                fs.append(("place-blob-mask", f"angles={case['angles']} pos={[p / 4 for p in case['pos4']]} v={case['v']}: voxel {at} "
                           f"{'is' if at and onm[tuple(at)] else 'is not'} stamped, the Gaussian centred at (voxel of pos-1)+R v = {ctr.round(3).tolist()} "
                           f"says otherwise ({int(bad.sum())} voxels differ outside the threshold shell, {obs['other']} voxels with another value)"))
            if len(obs["on"]):
                com = np.array(obs["on"], dtype=float).mean(axis=0)
                ref = np.argwhere(ana > 0.1).astype(float).mean(axis=0)
                dev = float(np.abs(com - ref).max())
                if dev > 0.1 or float(np.abs(ref - ctr).max()) > 0.25:
                    fs.append(("place-blob-centre", f"centre of mass of the stamped voxels {com.round(3).tolist()} vs (voxel of pos-1)+R v = {ctr.round(3).tolist()} "
                               f"(same ball discretised there: {ref.round(3).tolist()}): off by {dev:.3f} voxel"))
            else:
                fs.append(("place-blob-centre", "nothing stamped"))
            return fs
        f_floor = blob_findings("floor")
        if f_floor and blob_findings("round"):
            for cl, det in f_floor:
                out.append(_F("spec", cl, det))
        if "R" in obs:      # the orientation place_object used, against Rz(psi)Rx(theta)Rz(phi) of the angle columns (a few ulp)
            Rg = np.array(obs["R"], dtype=float)
            if Rg.shape != (1, 9) or np.abs(Rg[0] - Rn.flatten()).max() > 1e-12:
                out.append(_F("spec", "particle-orientation", f"(phi, theta, psi) = {case['angles']}: get_rotations() gives {np.round(Rg, 6).tolist()}, "
                              f"Rz(psi)Rx(theta)Rz(phi) is {np.round(Rn.flatten(), 6).tolist()}"))
        w = np.array([b2f(x) for x in resps[0]["Rv"]])
        if float(np.abs(w - Rn @ np.array(case["v"])).max()) > 1e-12:
            out.append(_F("corr", "zxz-model-vs-numpy", f"Lean zxz v = {w.tolist()} vs numpy {(Rn @ np.array(case['v'])).tolist()}"))
        return out
    if k == "symexact":
        shape, n = case["shape"], case["n"]
        vol = np.array(case["data"], dtype=float) / case.get("vden", 1)
        got = _num(obs["out"], "symmetrize_volume", out, shape)
        if got is None:
            return out
        g = _grid(shape)
        o_int = _interior(g, shape)
        srcs = [_src(cube(0, 0, (j * (4 // n)) % 4).T, shape) for j in range(1, n + 1)]
        safe = o_int.copy()
        deep = o_int.copy()
        acc = np.zeros(shape)
        for sidx in srcs:
            safe &= _interior(sidx, shape) | _outside(sidx, shape)
            deep &= _interior(sidx, shape)
            acc += np.where(_interior(sidx, shape), _take(vol, sidx, shape), 0.0)
        exp = acc / n
        d, at = _worst(safe, got, exp)
        if d > TOL:
            out.append(_F("spec", "sym-mean-of-rotated-copies", f"n={n} shape={shape}: voxel {at} is {got[tuple(at)]!r}, the mean of the {n} rotated copies is {exp[tuple(at)]!r}"))
        # invariance, on voxels whose whole orbit is interior
        nxt = _take(got, srcs[0], shape)
        d2, at2 = _worst(deep, got, nxt)
        if d2 > TOL:
            out.append(_F("spec", "sym-invariant", f"n={n}: symmetrised map differs between voxel {at2} and its image under the 360/{n} rotation by {d2}"))
        d3, at3 = _worst(deep, np.array(obs["rot1"]), got)
        if d3 > TOL:
            out.append(_F("corr", "sym-invariant-under-rotate", f"rotate(sym, 360/{n}) differs from sym at {at3} by {d3}"))
        # total density under the hypotheses of the theorem symExact_total (n = 4: square section; zero faces cover the planes x = 0 / y = 0 of
        # even sizes); faces must be zero for odd sizes too here, because the REAL rotate may lose a face voxel by rounding (recorded assumption)
        if case["zero_faces"] and (n != 4 or shape[0] == shape[1]):
            if abs(got.sum() - vol.sum()) > 1e-8:
                out.append(_F("spec", "sym-total-density", f"sum {got.sum()!r} vs {vol.sum()!r}"))
        model = _ratvol(resps[0]["data"]) / case.get("vden", 1)       # symmetrisation is linear: the model runs on the numerators
        d4, at4 = _worst(safe, got, model)
        if d4 > TOL:
            out.append(_F("corr", "symmetrize-vs-model", f"voxel {at4}: impl {got[tuple(at4)]!r} model {model[tuple(at4)]!r}"))
        return out
    if k == "symblob":
        n = case["n"]
        if not obs["dtype"].startswith("float") or obs["shape"] != [case["N"]] * 3:
            out.append(_F("corr", "result-dtype", f"symmetrize_volume returned dtype {obs['dtype']} shape {obs['shape']}"))
        got = np.array([[[b2f(x) for x in r] for r in pl] for pl in obs["out"]])
        # the statement's clause evaluated independently of rotate(), symmetrize_volume() and the model: the mean of the n copies of
        # isotropic Gaussians is the mean of the Gaussians re-centred at c + Rz(k*360/n) v (numpy cos/sin)
        N = case["N"]
        c = N // 2
        exp = np.zeros((N, N, N))
        for j in range(1, n + 1):
            Rk = _zxz([0.0, 0.0, j * 360.0 / n])
            exp += _blob(N, case["blobs"], [[c + x for x in Rk @ np.array(b[2])] for b in case["blobs"]])
        exp /= n
        erra = float(np.abs(got - exp[1:-1:3, 1:-1:3, 1:-1:3]).max() / np.abs(exp).max())       # relative to the peak of the symmetrised map
        if erra > _tol_blob([b[1] for b in case["blobs"]]):
            out.append(_F("spec", "sym-mean-of-rotated-copies", f"n={n}: symmetrised map differs from the mean of the {n} Gaussians-rotated-by-k*360/{n} by {erra:.3f} of the peak"))
        if obs["total_err"] > _tol_blob([b[1] for b in case["blobs"]]):
            out.append(_F("spec", "sym-total-density", f"n={n}: total density changed by {obs['total_err']:.3f}"))
        # consistency with the library's own rotate(): the copies it produces, and rotating the result by 360/n (not independent: corr)
        if obs["mean_err"] > TOL:
            out.append(_F("corr", "sym-vs-mean-of-rotate-copies", f"n={n}: differs from the mean of rotate(vol, k*360/{n}) by {obs['mean_err']:.3g} of the peak"))
        if obs["inv_err"] > _tol_blob([b[1] for b in case["blobs"]], passes=2):
            out.append(_F("corr", "sym-invariant-under-rotate", f"n={n}: rotate(sym, 360/{n}) differs from sym by {obs['inv_err']:.3f} of the peak"))
        model = np.array([[[b2f(x) for x in r] for r in pl] for pl in resps[0]["data"]])
        dm = float(np.abs(got - model).max())
        if dm > TOL:
            out.append(_F("corr", "symmetrize-vs-model", f"n={n}: impl and symmetrizeF(copies) differ by {dm}"))
        return out
    return [_F("corr", "unknown-kind", k)]


def nontrivial(case, obs):
    k = case["kind"]
    if "error" in obs:
        return False
    if k == "rot24":
        return not np.array_equal(cube(*case["q"]), np.eye(3, dtype=int)) and len(set(np.array(case["data"]).flatten().tolist())) > 2
    if k == "rotblob":
        return True
    if k == "extract":
        return True
    if k == "place":
        init = np.zeros(case["cshape"]) if case.get("cinit") is None else np.array(case["cinit"], dtype=float)
        try:
            return bool((np.array(obs["out"]["vals"], dtype=float) != init).any())
        except Exception:
            return False
    if k == "placeblob":
        return len(obs["on"]) > 20 and any(abs(a) % 90 > 1 for a in case["angles"])
    if k == "symexact":
        return case["n"] >= 2
    if k == "symblob":
        return obs["asym"] > 0.05
    return False


def stats(case, obs, resps):
    k = case["kind"]
    st = {"kind": k}
    if "error" in obs:
        st["error"] = obs["error"][:60]
        return st
    st["inputs_unchanged"] = str(obs.get("inputs_unchanged"))
    if isinstance(obs.get("out"), dict):
        st[k + ":result_dtype"] = obs["out"]["dtype"]
    elif "dtype" in obs:
        st[k + ":result_dtype"] = obs["dtype"]
    if k == "rot24":
        st["rot24:box"] = "x".join(map(str, case["shape"]))
        st["rot24:matrix"] = "".join("+0-"[0 if x > 0 else (1 if x == 0 else 2)] for x in cube(*case["q"]).flatten())
        st["rot24:rotation-object call"] = "transpose_rotation omitted (default)" if case.get("plain") else "transpose_rotation=True"
        st["rot24:extra call"] = str(case.get("alt"))
        st["rot24:voxel values"] = "sevenths" if case.get("vden", 1) != 1 else "integers"
        st["rot24:centre floor-halves first/last differ"] = str(case["shape"][0] // 2 != case["shape"][2] // 2)
    elif k == "rotblob":
        st["rotblob:inverse_error(of peak)"] = "%.3f" % obs["inv_err"]
        try:
            c = case["N"] // 2
            Rn = _zxz(case["angles"])
            exp = _blob(case["N"], case["blobs"], [[c + x for x in Rn @ np.array(b[2])] for b in case["blobs"]])
            st["rotblob:active_error(of peak)"] = "%.3f" % float(np.abs(np.array(obs["out"]) - exp).max() / np.abs(exp).max())
        except Exception:
            pass
    elif k == "extract":
        V, s = np.array(case["data"]).shape, case["sub"]
        start = _floor_start(case["num"], case["den"], s)
        ins = [max(0, min(V[i], start[i] + s[i]) - max(0, start[i])) for i in range(3)]
        st["extract:window"] = "inside" if ins == list(s) else ("outside" if 0 in ins else "partly")
        st["extract:sub_parity"] = "even" if all(x % 2 == 0 for x in s) else ("odd" if all(x % 2 == 1 for x in s) else "mixed")
        st["extract:all axes odd >= 9"] = str(all(x % 2 == 1 and x >= 9 for x in s))
        st["extract:den"] = case["den"]
        st["extract:volume_dtype"] = case.get("dtype", "float64")
        st["extract:calls"] = "+".join(["extract", "again"] + [x for x in ("enforce", "crop", "crop_default", "pad") if x in obs])
        st["extract:voxels"] = "eighths" if case.get("vden", 1) != 1 else "integers"
        st["extract:argument forms"] = f"coord {case.get('coord_as', 'ndarray')}, shape {case.get('sub_as', 'list')}"
        st["extract:edited in place before second call"] = str(case.get("again") is not None)
        st["extract:crop/pad through file name"] = str(bool(case.get("via_path")))
        if "pad" in obs and "raised" in obs["pad"]:
            st["extract:pad to a smaller size"] = "raised " + obs["pad"]["raised"]
        if "pad" in obs:
            st["extract:pad_fill"] = "default(mean)" if case["pad"]["fill"] is None else "given"
    elif k == "place":
        st["place:poses"] = len(case["parts"])
        st["place:index"] = case["index"]
        st["place:feature"] = case["feature"] + ("" if case.get("kw_feature", True) else " (keyword omitted: default)")
        st["place:mode"] = "masks-from-rotate" if "masks" in obs else "cube-poses"
        st["place:container"] = "volume" if case.get("cinit") is not None else "volume_shape"
        st["place:template"] = ("list " if case.get("tlist") else "single ") + ("even" if all(x % 2 == 0 for x in case["tshape"]) else ("odd" if all(x % 2 == 1 for x in case["tshape"]) else "mixed"))
        st["place:template all axes odd >= 9"] = str(all(x % 2 == 1 and x >= 9 for x in case["tshape"]))
        st["place:second call on edited inputs"] = str("out2" in obs)
        st["place:shift_positions first"] = "no" if case.get("shiftpos") is None else f"inplace={case['shiftpos']['inplace']}"
        st["place:columns"] = "int64 where whole" if case.get("intcols") else "float"
        st["place:position grid"] = "1/%d" % case.get("pden", 4)
        co = case.get("colorder")
        st["place:column order of the frame"] = "canonical" if not co else ("reversed" if co == COLUMNS[::-1] else "permuted")
        st["place:x, y, z"] = "fractional in some rows" if any(any(p.get("xnum", [0, 0, 0])) for p in case["parts"]) else "whole numbers"
        st["place:subtomo_id order"] = "as generated (unsorted)" if any("sid" in p for p in case["parts"]) else "1..n"
        try:
            s_ = np.array(case["tdata"]).shape
            st["place:odd template axis with frac(pos)<1/2 (class of defect D33)"] = str(any(_odd_low_axes(p["num"], case.get("pden", 4), s_) for stg in _stages(case) for p in stg["parts"]))
        except Exception:
            pass
        if case.get("tlist"):
            qs = [tuple(p["q"]) for p in case["parts"]]
            st["place:list with repeated angles"] = str(len(set(qs)) < len(qs))
    elif k == "placeblob":
        st["placeblob:stamped_voxels"] = 10 * (len(obs["on"]) // 10)
    elif k in ("symexact", "symblob"):
        st[k + ":n"] = case["n"]
        st[k + ":symmetry given as"] = case.get("form", "int")
        if k == "symexact":
            st["symexact:voxel values"] = "sevenths" if case.get("vden", 1) != 1 else "integers"
        if k == "symblob":
            st["symblob:invariance_error(of peak)"] = "%.3f" % obs["inv_err"]
            st["symblob:total_density_error"] = "%.4f" % obs["total_err"]
            st["symblob:mean_of_copies_error(tol 1e-9)"] = "%.0e" % obs["mean_err"]
        else:
            st["symexact:box"] = "x".join(map(str, case["shape"]))
    return st


def sample_view(case):
    v = {kk: vv for kk, vv in case.items() if kk not in ("data", "tdata", "cinit")}
    if "parts" in case:
        case = dict(case, parts=[{a: b for a, b in p.items() if a != "tdata"} for p in case["parts"]])
    if "data" in case:
        v["data_shape"] = list(np.array(case["data"]).shape)
    if "parts" in case:
        v["parts"] = case["parts"][:3]
        v["n_parts"] = len(case["parts"])
    return v


def classify(case, obs, finding):
    return None      # C14 has no open known finding


def probes(rng):
    core.use_repo()
    from cryocat import cryomap
    from scipy.spatial.transform import Rotation as srot
    out = []
    v = np.array(_intvol(rng, [6, 7, 5]), dtype=float)
    r = cryomap.rotate(v, rotation_angles=[0, 0, 0])
    out.append(dict(name="affine_transform identity reproduces samples", ok=bool(np.abs(r - v).max() < 1e-9), detail=f"max dev {np.abs(r - v).max():.2e}"))
    dev = 0.0
    for a, b, c in itertools.product(range(4), repeat=3):
        dev = max(dev, float(np.abs(srot.from_euler("zxz", [90.0 * a, 90.0 * b, 90.0 * c], degrees=True).as_matrix() - cube(a, b, c)).max()))
    out.append(dict(name="scipy zxz = Rz(psi)Rx(theta)Rz(phi) on the 64 quarter-turn triples", ok=dev < 1e-12, detail=f"max dev {dev:.2e}"))
    dev = 0.0
    for _ in range(20):
        ang = [rng.uniform(-360, 360) for _ in range(3)]
        cs = [(math.cos(math.radians(x)), math.sin(math.radians(x))) for x in ang]
        M = _rz(*cs[2]) @ _rx(*cs[1]) @ _rz(*cs[0])
        dev = max(dev, float(np.abs(srot.from_euler("zxz", ang, degrees=True).as_matrix() - M).max()))
    out.append(dict(name="scipy zxz = Rz(psi)Rx(theta)Rz(phi) on random angles", ok=dev < 1e-12, detail=f"max dev {dev:.2e}"))
    return out


LEVEL_TEXT = ("Lean 4 theorems about an index-level executable model of cryomap.rotate / get_start_end_indices / extract_subvolume / crop / "
              "place_object / symmetrize_volume: active index law out[c+Rv]=in[c+v] for every orthogonal integer matrix and the 24 enumerated "
              "cube rotations (= all quarter-turn zxz triples), inverse rotation restores, the continuous coordinate law over any commutative "
              "ring, window and stamping specifications from the clipping formulas, painter's-algorithm characterisation of the placement "
              "loop with the template centre (any template shape) landing on floor(pos-1)+Rv, the particle accessors and shift_positions "
              "(complete position moves by R v, the stamp with it), the stamp start meets the statement for every template size, invariance + conservation for the mean over "
              "an exact cyclic action and its instantiation (total density over the voxel set of a box) for the executable n in {1,2,4} model; "
              "tied to the source by regenerated statement/expression anchors and an exact differential run against the real functions")
LEVEL_NOTE = ("partial: spline interpolation accuracy (the 1 % clauses on smooth blobs, n not dividing 4) is validated against analytic Gaussians "
              "and rotate-back, not proved; trusted: Lean kernel, translator anchors, scipy affine_transform sample reproduction and zxz convention (probed)")
TECHNIQUE = "Lean 4 proof (integer index algebra, omega on the clipping formulas, list induction, Finset re-indexing) + regenerated anchors + exact differential correspondence"
DESIGN_REF = "DESIGN.md section 4, C14"
