"""C06 — rotation geometry primitives agree with SO(3) ground truth (DESIGN.md section 4, C06)."""
import ast, math
import numpy as np
import core
from core import f2b, b2f

PROP = "C06"
COUNT = {"quick": 1500, "thorough": 10000, "search": 4000}
PARALLEL = True
REL = "cryocat/geom.py"
RULE = ("three case families. pair: batches of 1..24 (thorough: ..200) orientation triples (a,b,c) + a common rotation g, rows drawn from "
        "random / near-identical (1e-9..10 deg apart, log-uniform) / same rotation written as a different Euler triple / exactly 180 deg apart / gimbal lock "
        "theta in {0,180} / the 24 cube rotations (thorough: all 576 ordered pairs) / the 45-degree Euler lattice; given to angular_distance, "
        "cone_distance, inplane_distance, cone_inplane_distance, compare_rotations as ndarray or as scipy Rotation (single or batch). "
        "normals: batches of 1..500 Euler triples through euler_angles_to_normals (also a single 1-D triple). n2e: batches of normals of length "
        "1e-100..1e100 incl. +-x,+-y,+-z, y=0<x, signed zeros, through normals_to_euler_angles (ndarray or DataFrame, zxz or zzx). "
        "non-trivial = pair case with >=2 distinct structured row kinds or n>=2; normals case with n>=2; n2e case containing an axis-aligned or "
        "half-plane normal; distinct = distinct case content")
ASSUMPTIONS = [
    "scipy Rotation.from_euler('zxz', degrees=True) is Rz(psi)Rx(theta)Rz(phi) and as_quat is its unit quaternion (scalar last): probed every run "
    "against the Lean model qzxz/toM3 (|q_scipy . q_model| within 1e-14 of 1, matrix within 1e-14)",
    "scipy Rotation composition p*q and apply() are the group operation / action (used to build g*a, a*g and z-axis images): probed against qmul/toM3",
    "libm acos/atan2/sqrt/cos/sin of numpy and of Lean's Float agree to ~1 ulp; arccos near 1 is ill-conditioned, so angles are compared in the "
    "cosine domain (|cos(a_impl/2) - cos(a_model/2)| <= 1e-13) or within 1e-9 deg, whichever is weaker",
    "metric clauses on the implementation's floats are checked with slack 2e-5 deg (conditioning of 2*acos at |d|=1: sqrt(8*4eps) rad = 5e-6 deg per "
    "distance) for pairs closer than 0.1 deg and 1e-9 deg otherwise",
    "as_euler(from_euler(x)) returns a valid triple of the same rotation (phi of it is what inplane_distance uses); phi equals the input phi for "
    "canonical non-gimbal inputs (probed)",
]
TRUSTED = ["scipy.spatial.transform.Rotation (from_euler/as_quat/as_euler/apply/*): modelled, probed each run", "libm (acos, atan2, sqrt, cos, sin)"]
LEVEL_TEXT = ("Lean 4 theorems about an executable quaternion/matrix model of geom.angular_distance, cone_distance, inplane_distance, "
              "euler_angles_to_normals and normals_to_euler_angles: over any commutative ring the quaternion dot product is symmetric and "
              "invariant under a common unit factor on either side, toM3 is multiplicative and maps the zxz quaternion to the zxz matrix; over "
              "the reals (Real.arccos) the distance lies in [0,180], is symmetric, is 0 exactly for equal rotations, is invariant under a common "
              "rotation on either side, equals arccos((trace(R1^T R2)-1)/2) and satisfies the triangle inequality; cone distance = arccos of the "
              "dot of the two z-axis images; in-plane distance in [0,180] and 0 for equal angles; row-wise normals are unit vectors equal to the "
              "z-axis image for any batch size; normals_to_euler z-axis = n/|n|. Tied to the source by regenerated expression anchors and a "
              "differential run of the real functions against the driver executing the same definitions at Float")
LEVEL_NOTE = ("trusted: Lean kernel; scipy Rotation and libm (modelled + probed, not verified); float comparisons use stated tolerances; "
              "translator anchors are normalised source expressions")
TECHNIQUE = "Lean 4 proof (ring identities on quaternions, Mathlib real analysis for arccos/triangle inequality) + regenerated expression anchors + differential correspondence at Float"
DESIGN_REF = "DESIGN.md section 4, C06; Appendix A.2"

DEG_NEAR = 0.1        # below this model distance the loose slack applies
TOL_LOOSE = 2e-5      # degrees
TOL_TIGHT = 1e-9      # degrees
TOL_COS = 1e-13
TOL_VEC = 1e-12


# ------------------------------------------------------------------ translator
def _assign(fn, target, nth=0):
    k = 0
    for n in ast.walk(fn):
        if isinstance(n, (ast.Assign, ast.AugAssign)):
            tgts = n.targets if isinstance(n, ast.Assign) else [n.target]
            if any(ast.unparse(t) == target for t in tgts):
                if k == nth:
                    if isinstance(n, ast.AugAssign):
                        return type(n.op).__name__ + ":" + core.norm_expr(n.value)
                    return core.norm_expr(n.value)
                k += 1
    raise core.AnchorMissing(f"{fn.name}: assignment to {target} #{nth}")


def _count_assign(fn, target):
    return sum(1 for n in ast.walk(fn) if isinstance(n, ast.Assign) and any(ast.unparse(t) == target for t in n.targets))


def translate(src):
    A = src.anchor
    tol = A("ANGLE_DEGREES_TOL", lambda: next(src.literal(st.value) for st in src.tree(REL).body
                                               if isinstance(st, ast.Assign) and ast.unparse(st.targets[0]) == "ANGLE_DEGREES_TOL"))
    f = lambda name: src.find(REL, name)
    ang = A("angular_distance:angle", lambda: _assign(f("angular_distance"), "angle", 0))
    q1 = A("angular_distance:q1", lambda: _assign(f("angular_distance"), "q1", 0))
    q2 = A("angular_distance:q2", lambda: _assign(f("angular_distance"), "q2", 0))
    dist = A("angular_distance:dist", lambda: _assign(f("angular_distance"), "dist", 0))
    cone = A("cone_distance:cone_angle", lambda: _assign(f("cone_distance"), "cone_angle", 0))
    cpoint = A("cone_distance:point", lambda: _assign(f("cone_distance"), "point", 0))
    cv1 = A("cone_distance:vec1", lambda: [_assign(f("cone_distance"), "vec1", 0), _assign(f("cone_distance"), "vec1", 1), _assign(f("cone_distance"), "vec1_n", 0)])
    cv2 = A("cone_distance:vec2", lambda: [_assign(f("cone_distance"), "vec2", 0), _assign(f("cone_distance"), "vec2", 1), _assign(f("cone_distance"), "vec2_n", 0)])
    ip = A("inplane_distance:inplane_angle", lambda: [_assign(f("inplane_distance"), "inplane_angle", 0), _assign(f("inplane_distance"), "inplane_angle", 1)])
    ipphi = A("inplane_distance:phi", lambda: [_assign(f("inplane_distance"), "phi1", i) for i in range(3)] + [_assign(f("inplane_distance"), "phi2", i) for i in range(3)])
    nrm = A("euler_angles_to_normals:n_length", lambda: [_assign(f("euler_angles_to_normals"), "points", 0), _assign(f("euler_angles_to_normals"), "n_length", 0),
                                                          _assign(f("euler_angles_to_normals"), "normalized_normal_vectors", 0)])
    n2e = A("normals_to_euler_angles:exprs", lambda: [_assign(f("normals_to_euler_angles"), "normals", 0), _assign(f("normals_to_euler_angles"), "theta", 0),
                                                       _assign(f("normals_to_euler_angles"), "psi", 0), _assign(f("normals_to_euler_angles"), "b_idx", 0),
                                                       _assign(f("normals_to_euler_angles"), "psi[b_idx]", 0)])
    vis = A("visualize_rotations/angles", lambda: [_assign(f("visualize_rotations"), "starting_point", 0), _assign(f("visualize_rotations"), "new_points", 0),
                                                   _assign(f("visualize_angles"), "rotations", 0), _assign(f("visualize_angles"), "new_points", 0)])
    cmpr = A("compare_rotations:calls", lambda: [_assign(f("compare_rotations"), "dist_degrees", 0),
                                                 _assign(f("compare_rotations"), "(dist_degrees_normals, dist_degrees_inplane)", 0),
                                                 _assign(f("cone_inplane_distance"), "cone_angle", 0), _assign(f("cone_inplane_distance"), "inplane_angle", 0)])
    def _ret_all():
        fn = f("compare_rotations")
        rets = [n for n in ast.walk(fn) if isinstance(n, ast.Return) and isinstance(n.value, ast.Tuple)]
        if not rets:
            raise core.AnchorMissing("compare_rotations: return of the 3-tuple")
        return core.norm_expr(rets[0].value)
    rets = A("compare_rotations:return/n2e:column_stack", lambda: [_ret_all(), _assign(f("normals_to_euler_angles"), "angles", 0), _assign(f("normals_to_euler_angles"), "angles", 1)])
    from fractions import Fraction
    fr = Fraction(str(tol)) if isinstance(tol, (int, float)) else Fraction(0)
    S = core.lean_str
    L = lambda xs: core.lean_str_list(xs if isinstance(xs, list) else [])
    return f"""-- GENERATED by harness/props/c06.py from {REL}; do not edit
namespace CryoCat.Gen.C06
def anchorsOk : Bool := {"true" if src.ok else "false"}
/-- ANGLE_DEGREES_TOL as an exact decimal fraction -/
def angleTolNum : Nat := {fr.numerator}
def angleTolDen : Nat := {fr.denominator}
def angExpr : String := {S(ang or "")}
def quatExprs : List String := {L([q1 or "", q2 or ""])}
def dist2Expr : String := {S(dist or "")}
def coneExpr : String := {S(cone or "")}
def conePoint : String := {S(cpoint or "")}
def coneVec1 : List String := {L(cv1)}
def coneVec2 : List String := {L(cv2)}
def inplaneExprs : List String := {L(ip)}
def inplanePhi : List String := {L(ipphi)}
def normalsExprs : List String := {L(nrm)}
def n2eExprs : List String := {L(n2e)}
def visExprs : List String := {L(vis)}
def compareExprs : List String := {L(cmpr)}
def returnExprs : List String := {L(rets)}
end CryoCat.Gen.C06
"""


# ------------------------------------------------------------------ helpers
def _rot(e):
    from scipy.spatial.transform import Rotation as R
    return R.from_euler("zxz", np.asarray(e, dtype=float), degrees=True)


def _bits_rows(a):
    return [[f2b(x) for x in row] for row in np.asarray(a, dtype=float).reshape(-1, np.asarray(a).shape[-1]).tolist()]


def _floats(rows):
    return np.array([[b2f(b) for b in r] for r in rows], dtype=float)


def _bl(a):
    return [f2b(x) for x in np.asarray(a, dtype=float).ravel().tolist()]


def _fl(bits):
    return np.array([b2f(b) for b in bits], dtype=float)


_CUBE = None


def cube_eulers():
    """24 Euler triples, one per rotation of the cube"""
    global _CUBE
    if _CUBE is None:
        seen, out = set(), []
        for th in (0, 90, 180):
            for ph in (0, 90, 180, 270):
                for ps in (0, 90, 180, 270):
                    m = tuple(np.round(_rot([ph, th, ps]).as_matrix()).astype(int).ravel().tolist())
                    if m not in seen:
                        seen.add(m); out.append([float(ph), float(th), float(ps)])
        assert len(out) == 24
        _CUBE = out
    return _CUBE


def _rand_euler(rng):
    k = rng.random()
    if k < 0.7:
        return [rng.uniform(-180, 180), math.degrees(math.acos(rng.uniform(-1, 1))), rng.uniform(-180, 180)]
    if k < 0.85:  # outside the canonical range
        return [rng.uniform(-720, 720), rng.uniform(-360, 360), rng.uniform(-720, 720)]
    return [float(rng.randint(-180, 180)), float(rng.randint(0, 180)), float(rng.randint(-180, 180))]


def _lattice(rng):
    return [45.0 * rng.randint(-4, 4), 45.0 * rng.randint(0, 4), 45.0 * rng.randint(-4, 4)]


def _gimbal(rng):
    return [rng.uniform(-180, 180), rng.choice([0.0, 180.0, 0.0, 180.0, -0.0, 360.0, -180.0]), rng.uniform(-180, 180)]


def _as_euler_of(r):
    import warnings
    with warnings.catch_warnings():
        warnings.simplefilter("ignore")
        return [float(x) for x in r.as_euler("zxz", degrees=True)]


def _partner(rng, a, kind):
    """second orientation of a row, by structured kind"""
    from scipy.spatial.transform import Rotation as R
    if kind == "random":
        return _rand_euler(rng)
    if kind == "near":
        eps = 10 ** rng.uniform(-9, 1)
        ax = np.array([rng.gauss(0, 1) for _ in range(3)]); ax /= np.linalg.norm(ax)
        small = R.from_rotvec(ax * math.radians(eps))
        r = _rot(a) * small if rng.random() < 0.5 else small * _rot(a)
        return _as_euler_of(r)
    if kind == "equal":
        k = rng.randrange(4)
        if k == 0:
            return [a[0] + 180.0, -a[1], a[2] + 180.0]
        if k == 1:
            return [a[0] + 360.0 * rng.choice([-1, 1]), a[1], a[2] - 360.0 * rng.choice([0, 1])]
        if k == 2:
            return [a[0], a[1] + 360.0, a[2]]       # quaternion changes sign
        return list(a)
    if kind == "antipodal":
        ax = np.array([rng.gauss(0, 1) for _ in range(3)]); ax /= np.linalg.norm(ax)
        half = R.from_rotvec(ax * math.pi)
        r = _rot(a) * half if rng.random() < 0.5 else half * _rot(a)
        return _as_euler_of(r)
    if kind == "gimbal":
        return _gimbal(rng)
    if kind == "cube":
        return list(rng.choice(cube_eulers()))
    if kind == "lattice":
        return _lattice(rng)
    raise ValueError(kind)


KINDS = ["random", "near", "equal", "antipodal", "gimbal", "cube", "lattice"]


def _first(rng, kind):
    if kind == "gimbal" and rng.random() < 0.5:
        return _gimbal(rng)
    if kind == "cube":
        return list(rng.choice(cube_eulers()))
    if kind == "lattice":
        return _lattice(rng)
    return _rand_euler(rng)


def _pair_case(rng, n, kinds=None):
    a, b, c, tags = [], [], [], []
    for _ in range(n):
        kind = rng.choice(kinds or KINDS)
        ea = _first(rng, kind)
        eb = _partner(rng, ea, kind)
        kc = rng.choice(KINDS)
        ec = _partner(rng, eb if rng.random() < 0.5 else ea, kc)
        a.append(ea); b.append(eb); c.append(ec); tags.append(kind + "/" + kc)
    g = list(rng.choice(cube_eulers())) if rng.random() < 0.2 else _rand_euler(rng)
    return dict(kind="pair", a=_bits_rows(a), b=_bits_rows(b), c=_bits_rows(c), g=[f2b(x) for x in g], tags=tags,
                input=rng.choice(["ndarray", "rotation"]), single=(n == 1 and rng.random() < 0.5))


def _normals_case(rng, n):
    ang = []
    for _ in range(n):
        k = rng.random()
        ang.append(_rand_euler(rng) if k < 0.6 else (_gimbal(rng) if k < 0.75 else (_lattice(rng) if k < 0.9 else list(rng.choice(cube_eulers())))))
    return dict(kind="normals", ang=_bits_rows(ang), oned=(n == 1 and rng.random() < 0.5))


def _normal_vec(rng):
    k = rng.random()
    s = 10 ** rng.uniform(-3, 3) if rng.random() < 0.8 else 10 ** rng.uniform(-100, 100)
    z0 = rng.choice([0.0, -0.0])
    if k < 0.35:
        v = [rng.gauss(0, 1) for _ in range(3)]
        return [x * s for x in v], "random"
    if k < 0.55:
        ax = rng.randrange(3); sg = rng.choice([-1.0, 1.0])
        v = [rng.choice([0.0, -0.0]) for _ in range(3)]; v[ax] = sg * s
        return v, "axis" + "xyz"[ax] + ("+" if sg > 0 else "-")
    if k < 0.75:  # y = 0, x != 0 : the half-planes where atan2(y,x) is 0 or pi
        return [rng.choice([-1, 1]) * abs(rng.gauss(0, 1)) * s + (s if rng.random() < 0.5 else 0.0), z0, rng.gauss(0, 1) * s * rng.choice([0, 1])], "y0"
    if k < 0.85:  # x = 0
        return [z0, rng.gauss(0, 1) * s or s, rng.gauss(0, 1) * s * rng.choice([0, 1])], "x0"
    if k < 0.95:  # almost along z
        return [rng.gauss(0, 1) * s * 1e-9, rng.gauss(0, 1) * s * 1e-9, rng.choice([-1, 1]) * s], "nearz"
    return [float(rng.randint(-3, 3)), float(rng.randint(-3, 3)), float(rng.randint(1, 3))], "int"


def _n2e_case(rng, n):
    vs, tags = [], []
    for _ in range(n):
        v, t = _normal_vec(rng)
        if all(x == 0 for x in v):
            v, t = [1.0, 0.0, 0.0], "axisx+"
        if v[0] == 0 and abs(v[1]) > 0 and t == "y0":
            t = "x0"
        vs.append(v); tags.append(t)
    return dict(kind="n2e", n=_bits_rows(vs), tags=tags, order=rng.choice(["zxz", "zxz", "zzx"]), df=rng.random() < 0.3)


def _qmult_case(rng, n):
    p = [[rng.gauss(0, 1) for _ in range(4)] for _ in range(n)]
    q = [[rng.gauss(0, 1) for _ in range(4)] for _ in range(n)]
    return dict(kind="qmult", p=_bits_rows(p), q=_bits_rows(q))


def generate(rng, tier, n):
    maxn = {"quick": 24, "thorough": 200, "search": 6}[tier]
    if tier == "thorough":  # all 576 ordered pairs of cube rotations, third orientation cycles
        cube = cube_eulers()
        for i in range(24):
            a = [cube[i]] * 24; b = list(cube); c = [cube[(i + 7 * j + 3) % 24] for j in range(24)]
            yield dict(kind="pair", a=_bits_rows(a), b=_bits_rows(b), c=_bits_rows(c), g=[f2b(x) for x in cube[(5 * i + 1) % 24]],
                       tags=["cube/cube"] * 24, input="ndarray" if i % 2 else "rotation", single=False)
    for t in range(n):
        k = rng.random()
        if k < 0.62:
            m = 1 if rng.random() < 0.12 else rng.randint(2, maxn)
            yield _pair_case(rng, m)
        elif k < 0.8:
            u = rng.random()
            m = 1 if u < 0.1 else (rng.randint(2, 10) if u < 0.6 else rng.randint(11, 500 if tier != "search" else 12))
            yield _normals_case(rng, m)
        elif k < 0.97:
            yield _n2e_case(rng, 1 if rng.random() < 0.1 else rng.randint(2, maxn))
        else:
            yield _qmult_case(rng, rng.randint(1, 8))


def corpus():
    import glob, json, os
    out = []
    for p in sorted(glob.glob(os.path.join(core.VERIF, "corpus", PROP, "*.json"))):
        d = json.load(open(p))
        for c in (d if isinstance(d, list) else [d]):
            out.append(_decode_case(c))
    return out


def _decode_case(c):
    """corpus files may hold human-readable floats under *_deg / *_vec keys"""
    c = dict(c)
    for k in ("a", "b", "c", "ang", "n", "p", "q"):
        if k + "_f" in c:
            c[k] = _bits_rows(c.pop(k + "_f"))
    if "g_f" in c:
        c["g"] = [f2b(x) for x in c.pop("g_f")]
    c.pop("comment", None)
    return c


def shrink(case):
    k = case["kind"]
    if k == "pair":
        n = len(case["a"])
        if n > 1:
            for i in range(n):
                yield dict(case, a=[case["a"][i]], b=[case["b"][i]], c=[case["c"][i]], tags=[case["tags"][i]], single=False)
        else:
            # snap angles to integers / simple values
            for key in ("a", "b", "c"):
                vals = [b2f(x) for x in case[key][0]]
                snapped = [float(round(v)) for v in vals]
                if snapped != vals:
                    yield dict(case, **{key: [[f2b(v) for v in snapped]]})
            gv = [b2f(x) for x in case["g"]]
            if gv != [0.0, 0.0, 0.0]:
                yield dict(case, g=[f2b(0.0)] * 3)
            if case["c"] != case["a"]:
                yield dict(case, c=case["a"])
    elif k == "normals":
        n = len(case["ang"])
        if n > 2:
            yield dict(case, ang=case["ang"][:2], oned=False)
            yield dict(case, ang=case["ang"][: n // 2], oned=False)
            yield dict(case, ang=case["ang"][n // 2:], oned=False)
        vals = _floats(case["ang"])
        snapped = np.round(vals)
        if not np.array_equal(snapped, vals):
            yield dict(case, ang=_bits_rows(snapped))
    elif k == "n2e":
        n = len(case["n"])
        if n > 1:
            for i in range(n):
                yield dict(case, n=[case["n"][i]], tags=[case["tags"][i]])
        else:
            v = [b2f(x) for x in case["n"][0]]
            m = max(abs(x) for x in v)
            s = [float(round(x / m)) for x in v]
            if s != v and any(s):
                yield dict(case, n=[[f2b(x) for x in s]])
            if case.get("df"):
                yield dict(case, df=False)
            if case.get("order") != "zxz":
                yield dict(case, order="zxz")
    elif k == "qmult":
        if len(case["p"]) > 1:
            for i in range(len(case["p"])):
                yield dict(case, p=[case["p"][i]], q=[case["q"][i]])


# ------------------------------------------------------------------ implementation
def run_impl(case):
    import warnings
    warnings.filterwarnings("ignore")
    from cryocat import geom
    k = case["kind"]
    if k == "pair":
        A, B, C = _floats(case["a"]), _floats(case["b"]), _floats(case["c"])
        g = [b2f(x) for x in case["g"]]
        if case.get("single"):
            A, B, C = A[0], B[0], C[0]
        rA, rB, rC, rG = _rot(A), _rot(B), _rot(C), _rot(g)
        iA, iB, iC = (A, B, C) if case["input"] == "ndarray" else (rA, rB, rC)
        out = {}
        r = geom.angular_distance(iA, iB)
        out["ab"], out["dist_ab"] = _bl(r[0]), _bl(r[1])
        out["ba"] = _bl(geom.angular_distance(iB, iA)[0])
        out["ac"] = _bl(geom.angular_distance(iA, iC)[0])
        out["bc"] = _bl(geom.angular_distance(iB, iC)[0])
        out["aa"] = _bl(geom.angular_distance(iA, iA)[0])
        out["l"] = _bl(geom.angular_distance(rG * rA, rG * rB)[0])
        out["r"] = _bl(geom.angular_distance(rA * rG, rB * rG)[0])
        out["cone_ab"] = _bl(geom.cone_distance(rA, rB))
        out["cone_ba"] = _bl(geom.cone_distance(rB, rA))
        out["inp_ab"] = _bl(geom.inplane_distance(rA, rB))
        out["inp_aa"] = _bl(geom.inplane_distance(rA, rA))
        ci = geom.cone_inplane_distance(iA, iB)
        out["ci_cone"], out["ci_inp"] = _bl(ci[0]), _bl(ci[1])
        cr = geom.compare_rotations(iA, iB)
        out["cr"] = [_bl(np.atleast_1d(cr[0])), _bl(cr[1]), _bl(cr[2])]
        out["cr_ang"] = _bl(np.atleast_1d(geom.compare_rotations(iA, iB, rotation_type="angular_distance")))
        # observations of the library services the model relies on
        out["phiA"] = _bl(np.array(rA.as_euler("zxz", degrees=True), ndmin=2)[:, 0])
        out["phiB"] = _bl(np.array(rB.as_euler("zxz", degrees=True), ndmin=2)[:, 0])
        out["mag"] = _bl(np.degrees(np.atleast_1d((rA.inv() * rB).magnitude())))
        zA = np.array(rA.apply([0, 0, 1.0]), ndmin=2); zB = np.array(rB.apply([0, 0, 1.0]), ndmin=2)
        out["zang"] = _bl(np.degrees(np.arctan2(np.linalg.norm(np.cross(zA, zB), axis=1), np.sum(zA * zB, axis=1))))
        out["qA"] = _bits_rows(np.array(rA.as_quat(), ndmin=2))
        out["qGA"] = _bits_rows(np.array((rG * rA).as_quat(), ndmin=2))
        out["qAG"] = _bits_rows(np.array((rA * rG).as_quat(), ndmin=2))
        return out
    if k == "normals":
        ang = _floats(case["ang"])
        arg = ang[0] if case.get("oned") else ang
        res = geom.euler_angles_to_normals(arg)
        res = np.asarray(res, dtype=float)
        z = np.array(_rot(ang).apply([0, 0, 1.0]), ndmin=2)
        return dict(shape=list(res.shape), rows=_bits_rows(res.reshape(-1, 3)) if res.ndim == 2 and res.shape[1] == 3 else [], z=_bits_rows(z))
    if k == "n2e":
        import pandas as pd
        nv = _floats(case["n"])
        arg = pd.DataFrame(nv, columns=["x", "y", "z"]) if case.get("df") else nv
        if case.get("df"):  # extra columns in another order must not matter
            arg = arg.assign(extra=1.0)[["z", "extra", "y", "x"]]
        res = np.asarray(geom.normals_to_euler_angles(arg, output_order=case.get("order", "zxz")), dtype=float)
        if res.ndim != 2 or res.shape != (len(nv), 3):
            return dict(shape=list(res.shape), ang=[])
        zxz = res if case.get("order", "zxz") == "zxz" else res[:, [0, 2, 1]]
        z = np.array(_rot(zxz).apply([0, 0, 1.0]), ndmin=2)
        return dict(shape=list(res.shape), ang=_bits_rows(zxz), z=_bits_rows(z))
    if k == "qmult":
        return dict(r=_bits_rows(geom.quaternion_mult(_floats(case["p"]), _floats(case["q"]))))
    raise ValueError(k)


def requests(case, obs):
    if "error" in obs:
        return []
    k = case["kind"]
    if k == "pair":
        a, b, c, g = case["a"], case["b"], case["c"], case["g"]
        n = len(a)
        reqs = [dict(op="dist", a=a, b=b), dict(op="dist", a=b, b=a), dict(op="dist", a=a, b=c), dict(op="dist", a=b, b=c),
                dict(op="dist", a=a, b=b, g=g, side="left"), dict(op="dist", a=a, b=b, g=g, side="right"), dict(op="dist", a=a, b=a),
                dict(op="inplane", p1=obs["phiA"], p2=obs["phiB"]),
                dict(op="inplane", p1=[r[0] for r in a], p2=[r[0] for r in b])]
        rows = []
        for i in range(n):
            rows.append([obs[key][i] if i < len(obs[key]) else f2b(float("nan")) for key in ("ab", "ba", "ac", "bc", "l", "r")])
        tight = [dict(op="check", obs=rows, tol=f2b(TOL_LOOSE)), dict(op="check", obs=rows, tol=f2b(TOL_TIGHT))]
        return reqs + tight
    if k == "normals":
        return [dict(op="normals", ang=case["ang"])]
    if k == "n2e":
        return [dict(op="n2e", n=case["n"])] + ([dict(op="zaxis", ang=obs["ang"])] if obs.get("ang") else [])
    if k == "qmult":
        return [dict(op="qmult", p=case["p"], q=case["q"])]
    return []


def _ang_close(a_impl, a_model):
    """angles in degrees from 2*acos: equal within 1e-9 deg or within 1e-13 in the cosine of the half angle"""
    if math.isnan(a_impl) or math.isnan(a_model):
        return False
    if abs(a_impl - a_model) <= TOL_TIGHT:
        return True
    return abs(math.cos(math.radians(a_impl) / 2) - math.cos(math.radians(a_model) / 2)) <= TOL_COS


def _cone_close(a_impl, a_model):
    if math.isnan(a_impl) or math.isnan(a_model):
        return False
    if abs(a_impl - a_model) <= TOL_TIGHT:
        return True
    return abs(math.cos(math.radians(a_impl)) - math.cos(math.radians(a_model))) <= TOL_COS


def _judge_pair(case, obs, resps):
    out = []
    n = len(case["a"])
    F = lambda key: _fl(obs[key])
    names = ("ab", "ba", "ac", "bc", "l", "r", "aa")
    for key in names + ("cone_ab", "cone_ba", "inp_ab", "inp_aa", "ci_cone", "ci_inp", "dist_ab"):
        if len(obs[key]) != n:
            return [dict(kind="spec", clause="shape", detail=f"{key}: {len(obs[key])} values for {n} pairs")]
    m = {nm: resps[i] for i, nm in enumerate(names)}
    for nm in names:
        if "error" in m[nm]:
            return [dict(kind="corr", clause="driver", detail=str(m[nm]))]
    model = {nm: _fl(m[nm]["ang"]) for nm in names}
    impl = {nm: F(nm) for nm in names}
    mab = model["ab"]
    A, B = _floats(case["a"]), _floats(case["b"])
    # ---- library probes inside the case: scipy quaternion / composition vs the model
    # ---- spec: range, NaN
    for nm in names:
        for i in range(n):
            v = impl[nm][i]
            if math.isnan(v):
                clause = "angdist-nan"
                out.append(dict(kind="spec", clause=clause, detail=f"angular_distance[{nm}] row {i} is NaN (model {model[nm][i]:.3e} deg); a={A[i].tolist()} b={B[i].tolist()}"))
                return out
            if not (0.0 <= v <= 180.0):
                out.append(dict(kind="spec", clause="angdist-range", detail=f"{nm} row {i}: {v}")); return out
    for i in range(n):
        loose = mab[i] < DEG_NEAR or model["ac"][i] < DEG_NEAR or model["bc"][i] < DEG_NEAR
        tol = TOL_LOOSE if loose else TOL_TIGHT
        chk = resps[9] if loose else resps[10]
        row = chk[i] if isinstance(chk, list) else None
        if not isinstance(row, list):
            out.append(dict(kind="corr", clause="checker", detail=str(chk)[:200])); return out
        rng_ok, sym_ok, tri_ok, l_ok, r_ok = row
        d = dict(ab=impl["ab"][i], ba=impl["ba"][i], ac=impl["ac"][i], bc=impl["bc"][i], l=impl["l"][i], r=impl["r"][i])
        ctx = f"row {i} ({case['tags'][i]}): a={A[i].tolist()} b={B[i].tolist()} dists={d} tol={tol}"
        if not rng_ok:
            out.append(dict(kind="spec", clause="angdist-range", detail=ctx))
        if not sym_ok:
            out.append(dict(kind="spec", clause="angdist-symmetric", detail=ctx))
        if not tri_ok:
            out.append(dict(kind="spec", clause="angdist-triangle", detail=ctx))
        if not l_ok:
            out.append(dict(kind="spec", clause="angdist-left-invariant", detail=ctx))
        if not r_ok:
            out.append(dict(kind="spec", clause="angdist-right-invariant", detail=ctx))
        # zero for equal rotations
        if impl["aa"][i] > TOL_LOOSE:
            out.append(dict(kind="spec", clause="angdist-zero-for-equal", detail=f"d(a,a)={impl['aa'][i]} {ctx}"))
        kind = case["tags"][i].split("/")[0]
        if kind == "equal" and impl["ab"][i] > TOL_LOOSE:
            out.append(dict(kind="spec", clause="angdist-zero-for-equal", detail=f"same rotation, two Euler triples: {ctx}"))
        mag = _fl(obs["mag"])[i]
        if mag > 1e-3 and not impl["ab"][i] > 0:
            out.append(dict(kind="spec", clause="angdist-zero-only-for-equal", detail=f"relative rotation angle {mag} but distance {impl['ab'][i]}: {ctx}"))
        # equals the rotation angle of the relative rotation (independent: scipy magnitude of a^-1 b)
        if not _ang_close(impl["ab"][i], mag) and abs(impl["ab"][i] - mag) > (TOL_LOOSE if mag < DEG_NEAR else 1e-7):
            out.append(dict(kind="spec", clause="angdist-is-relative-rotation-angle", detail=f"|a^-1 b| = {mag} deg: {ctx}"))
        if out:
            return out
    # ---- correspondence with the model
    for nm in names:
        for i in range(n):
            if not _ang_close(impl[nm][i], model[nm][i]):
                out.append(dict(kind="corr", clause="angdist-vs-model", detail=f"{nm} row {i}: impl {impl[nm][i]!r} model {model[nm][i]!r}")); return out
    d2i, d2m = F("dist_ab"), _fl(m["ab"]["dist2"])
    for i in range(n):
        exp = 0.0 if d2m[i] < 10e-8 else d2m[i]
        if abs(d2i[i] - exp) > 1e-12 and not (abs(d2m[i] - 10e-8) < 1e-12):
            out.append(dict(kind="corr", clause="dist2-vs-model", detail=f"row {i}: impl {d2i[i]} model {d2m[i]}")); return out
    # ---- cone
    cone_m = _fl(m["ab"]["cone"]); zang = _fl(obs["zang"])
    for key in ("cone_ab", "cone_ba", "ci_cone"):
        v = F(key)
        for i in range(n):
            if math.isnan(v[i]) or not (0 <= v[i] <= 180):
                out.append(dict(kind="spec", clause="cone-range", detail=f"{key} row {i}: {v[i]}")); return out
            if not _cone_close(v[i], zang[i]) and abs(v[i] - zang[i]) > 2e-6:
                out.append(dict(kind="spec", clause="cone-is-angle-between-z-axes", detail=f"{key} row {i}: {v[i]} vs angle(z_a,z_b)={zang[i]}; a={A[i].tolist()} b={B[i].tolist()}")); return out
            if not _cone_close(v[i], cone_m[i]) and abs(v[i] - cone_m[i]) > 2e-6:
                out.append(dict(kind="corr", clause="cone-vs-model", detail=f"{key} row {i}: impl {v[i]} model {cone_m[i]}")); return out
    # ---- in-plane
    for key in ("phiA", "phiB"):   # library assumption behind inplane_range: as_euler returns phi in [-180, 180]
        v = F(key)
        if len(v) != n or not all(-180.0 <= x <= 180.0 for x in v):
            out.append(dict(kind="corr", clause="as_euler-phi-range", detail=f"{key}: {v.tolist()[:5]}")); return out
    inp_m = resps[7].get("d"); inp_in = _fl(resps[8]["d"]) if "d" in resps[8] else None
    for key in ("inp_ab", "ci_inp"):
        v = F(key)
        for i in range(n):
            if math.isnan(v[i]) or not (0 <= v[i] <= 180):
                out.append(dict(kind="spec", clause="inplane-range", detail=f"{key} row {i}: {v[i]}")); return out
        if inp_m is None or not np.array_equal(v, _fl(inp_m)):   # exact float equality (0.0 == -0.0)
            bad = next((i for i in range(n) if inp_m is None or v[i] != b2f(inp_m[i])), 0)
            out.append(dict(kind="corr", clause="inplane-vs-model", detail=f"{key} row {bad}: impl {v[bad]} model {b2f(inp_m[bad]) if inp_m else None} (phi {b2f(obs['phiA'][bad])}, {b2f(obs['phiB'][bad])})")); return out
    for i in range(n):
        if F("inp_aa")[i] != 0.0:
            out.append(dict(kind="spec", clause="inplane-zero-for-equal", detail=f"row {i}: inplane(a,a)={F('inp_aa')[i]} a={A[i].tolist()}")); return out
        # canonical, non-gimbal inputs: as_euler returns the input phi, so the model on the INPUT angles must agree
        can = lambda e: -180 < e[0] < 180 and 1e-3 < e[1] < 180 - 1e-3 and -180 <= e[2] <= 180
        if inp_in is not None and can(A[i]) and can(B[i]):
            dlt = abs(F("inp_ab")[i] - inp_in[i])
            if min(dlt, 360 - dlt) > 1e-8:
                out.append(dict(kind="corr", clause="inplane-is-phi-difference", detail=f"row {i}: impl {F('inp_ab')[i]} vs folded |phi_a-phi_b| {inp_in[i]}; a={A[i].tolist()} b={B[i].tolist()}")); return out
    # ---- compare_rotations / cone_inplane_distance return the same numbers
    cr = obs["cr"]
    if cr[0] != obs["ab"] or cr[1] != obs["cone_ab"] or cr[2] != obs["inp_ab"] or obs["cr_ang"] != obs["ab"] or obs["ci_cone"] != obs["cone_ab"] or obs["ci_inp"] != obs["inp_ab"]:
        out.append(dict(kind="spec", clause="compare_rotations-consistent",
                        detail=f"compare_rotations/cone_inplane_distance differ from angular_distance/cone_distance/inplane_distance on a={A[0].tolist()} b={B[0].tolist()}: "
                               f"cr0={b2f(cr[0][0])} ab={impl['ab'][0]} cr1={b2f(cr[1][0])} cone={b2f(obs['cone_ab'][0])} cr2={b2f(cr[2][0])} inp={b2f(obs['inp_ab'][0])}"))
    return out


def _judge_normals(case, obs, resps):
    n = len(case["ang"])
    if obs["shape"] != [n, 3]:
        return [dict(kind="spec", clause="normals-one-per-orientation", detail=f"shape {obs['shape']} for {n} orientations")]
    rows = _floats(obs["rows"]); z = _floats(obs["z"])
    m = resps[0]
    if "error" in m:
        return [dict(kind="corr", clause="driver", detail=str(m))]
    mrows = _floats(m["rows"]); mz = _floats(m["z"])
    nr = np.linalg.norm(rows, axis=1)
    ang = _floats(case["ang"])
    for i in range(n):
        if not abs(nr[i] - 1) <= TOL_VEC:
            asis = np.linalg.norm(_floats(m["asis"])[i])
            return [dict(kind="spec", clause="normals-unit", detail=f"row {i} of {n}: length {nr[i]!r} (Frobenius-norm model gives {asis!r}); angles={ang[i].tolist()}")]
    dz = np.abs(rows - z).max(axis=1)
    for i in range(n):
        if not dz[i] <= TOL_VEC:
            return [dict(kind="spec", clause="normals-is-z-axis-image", detail=f"row {i}: {rows[i].tolist()} vs R(0,0,1)={z[i].tolist()}; angles={ang[i].tolist()}")]
    if not np.abs(mz - z).max() <= TOL_VEC:
        i = int(np.abs(mz - z).max(axis=1).argmax())
        return [dict(kind="corr", clause="zaxis-scipy-vs-model", detail=f"row {i}: scipy {z[i].tolist()} model {mz[i].tolist()} angles={ang[i].tolist()}")]
    if not np.abs(mrows - rows).max() <= TOL_VEC:
        i = int(np.abs(mrows - rows).max(axis=1).argmax())
        return [dict(kind="corr", clause="normals-vs-model", detail=f"row {i}: impl {rows[i].tolist()} model {mrows[i].tolist()}")]
    return []


def _judge_n2e(case, obs, resps):
    n = len(case["n"])
    if obs["shape"] != [n, 3] or not obs.get("ang"):
        return [dict(kind="spec", clause="n2e-one-per-normal", detail=f"shape {obs['shape']} for {n} normals")]
    nv = _floats(case["n"])
    # scaled normalisation (independent of the code's own arithmetic)
    s = np.abs(nv).max(axis=1, keepdims=True)
    u = nv / s; u = u / np.linalg.norm(u, axis=1, keepdims=True)
    ang = _floats(obs["ang"]); z = _floats(obs["z"])
    m = resps[0]
    if "error" in m or "error" in resps[1]:
        return [dict(kind="corr", clause="driver", detail=str(m)[:200])]
    zl = _floats(resps[1]["z"])   # Lean zxz model applied to the implementation's angles
    for i in range(n):
        if np.isnan(ang[i]).any():
            return [dict(kind="spec", clause="n2e-zaxis-is-normalised-normal", detail=f"row {i}: normal {nv[i].tolist()} -> angles {ang[i].tolist()}")]
        if not np.abs(zl[i] - u[i]).max() <= TOL_VEC:
            return [dict(kind="spec", clause="n2e-zaxis-is-normalised-normal",
                         detail=f"row {i} ({case['tags'][i]}): normal {nv[i].tolist()} -> angles (phi,theta,psi)={ang[i].tolist()} whose z-axis is {zl[i].tolist()}, expected {u[i].tolist()}")]
        if not (0 <= ang[i][0] < 360):
            return [dict(kind="corr", clause="n2e-phi-range", detail=f"row {i}: phi {ang[i][0]}")]
    if not np.abs(zl - z).max() <= TOL_VEC:
        i = int(np.abs(zl - z).max(axis=1).argmax())
        return [dict(kind="corr", clause="zaxis-scipy-vs-model", detail=f"row {i}: scipy {z[i].tolist()} model {zl[i].tolist()} angles={ang[i].tolist()}")]
    th, ps = _fl(m["theta"]), _fl(m["psi"])
    mz = _floats(m["z"])
    for i in range(n):
        dps = abs(ang[i][2] - ps[i]); dps = min(dps, abs(360 - dps))
        near_pole = math.hypot(u[i][0], u[i][1]) < 1e-6
        if abs(ang[i][1] - th[i]) > 1e-8 or (dps > 1e-8 and not near_pole):
            return [dict(kind="corr", clause="n2e-angles-vs-model", detail=f"row {i}: normal {nv[i].tolist()} impl theta,psi={ang[i][1]},{ang[i][2]} model {th[i]},{ps[i]}")]
        if not np.abs(mz[i] - u[i]).max() <= TOL_VEC:
            return [dict(kind="corr", clause="n2e-model-zaxis", detail=f"row {i}: model z-axis {mz[i].tolist()} expected {u[i].tolist()}")]
    return []


def judge(case, obs, resps):
    if "error" in obs:
        return [dict(kind="spec", clause="raises", detail=obs["error"] + " @" + obs.get("where", "") + f" kind={case['kind']}")]
    k = case["kind"]
    if k == "pair":
        return _judge_pair(case, obs, resps)
    if k == "normals":
        return _judge_normals(case, obs, resps)
    if k == "n2e":
        return _judge_n2e(case, obs, resps)
    if k == "qmult":
        r, mr = _floats(obs["r"]), _floats(resps[0]["r"])
        if not np.abs(r - mr).max() <= 1e-13 * max(1.0, np.abs(mr).max()):
            return [dict(kind="corr", clause="quaternion_mult-vs-qmul", detail=f"impl {r.tolist()} model {mr.tolist()}")]
    return []


def nontrivial(case, obs):
    if "error" in obs:
        return False
    k = case["kind"]
    if k == "pair":
        return len(case["a"]) >= 2 and len({t.split("/")[0] for t in case["tags"]}) >= 2
    if k == "normals":
        return len(case["ang"]) >= 2
    if k == "n2e":
        return any(t.startswith("axis") or t in ("y0", "x0", "nearz") for t in case["tags"])
    return False


def _bucket(v, edges, labels):
    for e, l in zip(edges, labels):
        if v <= e:
            return l
    return labels[-1]


def stats(case, obs, resps):
    k = case["kind"]
    st = {"kind": k}
    if "error" in obs:
        st["error"] = obs["error"][:60]
        return st
    if k == "pair":
        n = len(case["a"])
        st["pair_batch"] = "1" if n == 1 else ("2-8" if n <= 8 else ("9-24" if n <= 24 else ">24"))
        st["pair_row_kind"] = [t.split("/")[0] for t in case["tags"]]
        st["third_kind"] = [t.split("/")[1] for t in case["tags"]]
        st["input_form"] = case["input"] + ("-single" if case.get("single") else "")
        if resps and "ang" in resps[0]:
            ma = _fl(resps[0]["ang"]); ia = _fl(obs["ab"])
            st["distance_deg"] = [_bucket(v, [1e-6, 0.1, 10, 90, 179.9, 180], ["<=1e-6", "<=0.1", "<=10", "<=90", "<180", "180"]) for v in ma]
            dev = float(np.nanmax(np.abs(ma - ia))) if len(ma) == len(ia) else float("nan")
            st["max_abs_dev_ang_deg"] = _bucket(dev, [0, 1e-12, 1e-9, 1e-6, 2e-5], ["0", "<=1e-12", "<=1e-9", "<=1e-6", "<=2e-5", ">2e-5"])
            asis = _fl(resps[0]["asis"])
            st["asis_model_nan_rows"] = int(np.isnan(asis).sum()) + int(np.isnan(_fl(resps[6]["asis"])).sum())
        A = _floats(case["a"]); B = _floats(case["b"])
        st["gimbal_rows"] = int(sum(1 for e in list(A) + list(B) if abs(math.sin(math.radians(e[1]))) < 1e-9))
    elif k == "normals":
        n = len(case["ang"])
        st["normals_batch"] = "1" if n == 1 else ("2-10" if n <= 10 else ("11-100" if n <= 100 else "101-500"))
        st["normals_1d_input"] = bool(case.get("oned"))
    elif k == "n2e":
        st["normal_kind"] = case["tags"]
        st["n2e_input"] = ("DataFrame" if case.get("df") else "ndarray") + "/" + case.get("order", "zxz")
        nv = _floats(case["n"])
        st["normal_length"] = [_bucket(v, [1e-10, 1e-3, 1e3, 1e10], ["<=1e-10", "<=1e-3", "<=1e3", "<=1e10", ">1e10"]) for v in np.linalg.norm(nv / np.abs(nv).max(axis=1, keepdims=True), axis=1) * np.abs(nv).max(axis=1)]
    return st


def sample_view(case):
    k = case["kind"]
    if k == "pair":
        return dict(kind=k, n=len(case["a"]), a0=[b2f(x) for x in case["a"][0]], b0=[b2f(x) for x in case["b"][0]], c0=[b2f(x) for x in case["c"][0]],
                    g=[b2f(x) for x in case["g"]], tags=case["tags"][:6], input=case["input"], single=case.get("single"))
    if k == "normals":
        return dict(kind=k, n=len(case["ang"]), first=[b2f(x) for x in case["ang"][0]], oned=case.get("oned"))
    if k == "n2e":
        return dict(kind=k, n=len(case["n"]), normals=[[b2f(x) for x in r] for r in case["n"][:4]], tags=case["tags"][:4], order=case.get("order"), df=case.get("df"))
    return dict(kind=k, n=len(case.get("p", [])))


def classify(case, obs, finding):
    return None  # no open known finding for C06 (the NaN defect was repaired by fix: ca2e3ed)


def probes(rng):
    """library assumptions, probed on fresh random inputs against the Lean model"""
    import warnings
    warnings.filterwarnings("ignore")
    out = []
    n = 200
    E = np.array([_rand_euler(rng) for _ in range(n)] + cube_eulers() + [_gimbal(rng) for _ in range(20)])
    G = np.array([_rand_euler(rng) for _ in range(len(E))])
    r, g = _rot(E), _rot(G)
    try:
        # model quaternion of the same Euler angles: distance model(E) vs scipy must be ~0, i.e. dist(E, E) request gives absdot 1; and
        # zaxis op equals scipy apply; composition: model d(g*a, a) equals scipy magnitude of g
        resp = core.run_driver([dict(prop=PROP, op="zaxis", ang=_bits_rows(E)),
                                dict(prop=PROP, op="qmult", p=_bits_rows(g.as_quat()), q=_bits_rows(r.as_quat()))])
        z = _floats(resp[0]["z"]); zs = r.apply([0, 0, 1.0])
        dz = float(np.abs(z - zs).max())
        out.append(dict(name="scipy from_euler('zxz').apply(ez) = third column of Rz(psi)Rx(theta)Rz(phi)", ok=bool(dz <= 1e-13), detail=f"max dev {dz:.2e}"))
        qm = _floats(resp[1]["r"]); qs = (g * r).as_quat()
        dq = float(np.abs(np.abs(np.sum(qm * qs, axis=1)) - 1).max())
        out.append(dict(name="scipy Rotation composition g*r = Hamilton product (scalar last)", ok=bool(dq <= 1e-14), detail=f"max | |q_model.q_scipy| - 1 | = {dq:.2e}"))
        back = np.array(r.as_euler("zxz", degrees=True), ndmin=2)
        rb = _rot(back)
        dm = float(np.degrees((rb.inv() * r).magnitude()).max())
        out.append(dict(name="as_euler(from_euler(x)) is a triple of the same rotation (also at gimbal lock)", ok=bool(dm <= 1e-6), detail=f"max residual rotation {dm:.2e} deg"))
        can = [(i, e) for i, e in enumerate(E) if -180 < e[0] < 180 and 1e-3 < e[1] < 180 - 1e-3]
        dphi = max((min(abs(back[i][0] - e[0]), 360 - abs(back[i][0] - e[0])) for i, e in can), default=0.0)
        out.append(dict(name="as_euler returns the input phi for canonical non-gimbal triples", ok=bool(dphi <= 1e-8), detail=f"max dev {dphi:.2e} deg over {len(can)} triples"))
    except Exception as e:
        out.append(dict(name="library probes", ok=False, detail=f"{type(e).__name__}: {e}"))
    return out
