"""C06 — rotation geometry primitives agree with SO(3) ground truth (DESIGN.md section 4, C06)."""
import ast, math
import numpy as np
import core
from core import f2b, b2f

PROP = "C06"
COUNT = {"quick": 1500, "thorough": 10000, "search": 4000}
PARALLEL = True
REL = "cryocat/geom.py"
RULE = ("case families. pair: batches of 1..24 (thorough: ..200; dedicated batches of 25..47, 48..160 and 161..500) orientation triples (a,b,c) + a common rotation g, rows drawn from "
        "random / decimal angles with 1-3 decimals / near-identical (1e-9..10 deg apart, log-uniform) / the SAME rotation written as another Euler triple (other quaternion sign, "
        "theta outside [0,180], gimbal-lock equivalents) / exactly 180 deg apart / z-axes exactly antipodal / gimbal lock theta in {0,180} / the 24 cube rotations (thorough: all 576 "
        "ordered pairs) / the 45-degree Euler lattice (theta up to 360) / whole-number angles; given to angular_distance, cone_distance, inplane_distance, cone_inplane_distance and to "
        "compare_rotations with EVERY rotation_type (all, angular_distance, cone_distance, in_plane_distance, one unsupported string) as float64 ndarray, INTEGER-typed ndarray "
        "(whole-number rows), scipy Rotation (single or batch), or MIXED (ndarray first + Rotation second, and the reverse); in ~30 % of the cases every optional keyword is omitted "
        "(library defaults), otherwise given explicitly. EVERY run of every tier and the search stream start with the upper end of the quantifier: three 257..500-row pair batches "
        "(float ndarray, mixed, integer ndarray; sizes 257/300/385/500 and random), a 257..500-row batch through normals_to_euler_angles as ndarray and as DataFrame, and one through "
        "euler_angles_to_normals. "
        "seq: 2-3 such calls in one process on the SAME caller-owned ndarrays, rewritten in place between the calls (or the same second argument with a new first one); "
        "every step judged like a first call; all caller-owned arrays are compared before/after every library call. mismatch: batches of different size. "
        "normals: batches of 1..500 Euler triples (theta also outside [0,180]) through euler_angles_to_normals as ndarray, integer ndarray, nested list, tuple of tuples (also a single 1-D triple). "
        "n2e: batches of 1..500 normals of length 1e-300..1e300 incl. +-x,+-y,+-z, y=0<x, signed zeros, integer directions at extreme lengths, whole-number normals in an INTEGER-typed "
        "array / DataFrame with integer columns, zero vectors among valid rows, through normals_to_euler_angles (ndarray or DataFrame with default / gapped / duplicated / reversed / text row labels "
        "and extra columns; output_order zxz, zzx or omitted). "
        "non-trivial = pair case with >=2 distinct structured row kinds (or >=48 rows); normals case with n>=2; n2e case containing an axis-aligned or "
        "half-plane normal; every seq / mismatch case; distinct = distinct case content")
ASSUMPTIONS = [
    "scipy Rotation.from_euler('zxz', degrees=True) is Rz(psi)Rx(theta)Rz(phi) and as_quat is its unit quaternion (scalar last): probed every run "
    "against the Lean model qzxz/toM3 (|q_scipy . q_model| within 1e-14 of 1, matrix within 1e-14)",
    "scipy Rotation composition p*q and apply() are the group operation / action (used to build g*a, a*g and z-axis images): probed against qmul/toM3",
    "libm acos/atan2/sqrt/cos/sin of numpy and of Lean's Float agree to ~1 ulp; arccos near 1 is ill-conditioned, so angles are compared in the "
    "cosine domain (|cos(a_impl/2) - cos(a_model/2)| <= 1e-13) or within 1e-9 deg, whichever is weaker",
    "metric clauses on the implementation's floats are checked with slack 2e-5 deg (conditioning of 2*acos at |d|=1: sqrt(8*4eps) rad = 5e-6 deg per "
    "distance) for pairs closer than 0.1 deg and 1e-9 deg otherwise",
    "as_euler(from_euler(x)) returns a valid triple of the same rotation (phi of it is what inplane_distance uses); phi equals the input phi for "
    "canonical non-gimbal inputs (probed)",
    "'in-plane distance vanishes for equal orientations' rests on as_euler being a function of the rotation only: independent of the sign of the quaternion and "
    "of the Euler triple the rotation was built from (probed every run, 1e-9 deg); required of the code with 1e-9 deg (conditioned by 1/sin(theta) near gimbal lock)",
    "the theorems are over ordered fields / the reals; binary64 agrees only while x*x+y*y+z*z of a normal is a normal double: outside (|n| > ~1.3e154 or < ~1.5e-154) "
    "normals_to_euler_angles really violates 'normals of any length' (known finding C06-K1; n2e_scale_invariant is the clause it breaks, n2e_k1_overflow_witness / "
    "n2e_k1_underflow_witness exhibit the loss on the model at Float); a row is attributed to K1 only when it is wrong AND its squared length overflows or is not a normal double",
    "a zero vector has no direction: rows with a zero normal are outside the statement (code and model both give NaN there; the other rows of the batch are judged)",
]
TRUSTED = ["scipy.spatial.transform.Rotation (from_euler/as_quat/as_euler/apply/*/magnitude): modelled, probed each run", "libm (acos, atan2, sqrt, cos, sin)"]
LEVEL_TEXT = ("Lean 4 theorems about an executable quaternion/matrix model of geom.angular_distance, cone_distance, inplane_distance, compare_rotations, "
              "euler_angles_to_normals and normals_to_euler_angles: over any commutative ring the quaternion dot product is symmetric and "
              "invariant under a common unit factor on either side, toM3 is multiplicative and maps the zxz quaternion to the zxz matrix; over "
              "the reals (Real.arccos) the distance lies in [0,180] (the clamp makes that unconditional), is symmetric, is 0 exactly for equal rotations, is invariant "
              "under a common rotation on either side, equals arccos((trace(R1^T R2)-1)/2) and satisfies the triangle inequality; cone distance = arccos of the "
              "dot of the two z-axis images; in-plane distance in [0,180], 0 for equal angles and <= e+2tol for angles e apart; every rotation_type of compare_rotations "
              "returns the primitive of its name, anything else is rejected; row-wise normals: one unit vector per orientation, each from its own row, equal to the "
              "z-axis image for any batch size; normals_to_euler z-axis = n/|n| and independent of |n|. Tied to the source by a structural translation of angular_distance, "
              "euler_angles_to_normals and normals_to_euler_angles (symbolic execution with temporaries inlined: input dispatch tables, reduction axes / normalisation mode, and the "
              "row-level formulas as terms of an expression type the model EVALUATES; theorems prove the regenerated terms evaluate to the formulas the metric theorems are about), "
              "normalised whole-body dumps of the other six functions (defaults, every statement in order, locals alpha-normalised, annotations and message texts ignored), "
              "regenerated dispatch tables the model executes, and a differential run of the real functions against the driver executing the same definitions at Float")
LEVEL_NOTE = ("trusted: Lean kernel; scipy Rotation and libm (modelled + probed, not verified); float comparisons use stated tolerances; "
              "translator anchors are normalised statement dumps; spec findings are decided by the Lean checker checkMetric / zaxisOfEuler or by scipy-only evaluations "
              "(relative-rotation magnitude, angle between z-axis images) that use neither the code under test nor the model")
TECHNIQUE = "Lean 4 proof (ring identities on quaternions, Mathlib real analysis for arccos/triangle inequality) + structural translation (symbolic execution -> expression terms the model evaluates) + regenerated whole-body anchors and dispatch tables + differential correspondence at Float"
DESIGN_REF = "DESIGN.md section 4, C06; Appendix A.2"

DEG_NEAR = 0.1        # below this model distance the loose slack applies
TOL_LOOSE = 2e-5      # degrees
TOL_TIGHT = 1e-9      # degrees
TOL_COS = 1e-13
TOL_VEC = 1e-12


# ------------------------------------------------------------------ translator
# G5: every function the model stands for is anchored by a normalised dump of its WHOLE body: one string per statement, in source order,
# nested blocks marked by "| ", local variables alpha-normalised (v0, v1, ... by first binding), parameters and their defaults in the header.
# So an inserted statement, a later re-assignment, an `if c_symmetry > 1` block, the isinstance dispatch, a from_euler call or a changed default
# all change the dump (and break the `*_documented` theorem), while renaming a local variable does not.
FUNCS = [("compare_rotations", "bodyCompare"), ("cone_distance", "bodyCone"),
         ("inplane_distance", "bodyInplane"), ("cone_inplane_distance", "bodyConeInplane"),
         ("visualize_angles", "bodyVisAngles"), ("visualize_rotations", "bodyVisRot")]
# angular_distance, euler_angles_to_normals, normals_to_euler_angles: translated structurally (see "structural translation" below), no dump
COLLAPSE = ("plot_rotations",)   # the plotting block of visualize_rotations: only "does it rebind a live name / leave the function" is kept

# the DOCUMENTED values (what the theorems of Props/C06.lean state); used as the fall-back of a missing anchor so that a missing anchor
# never silently changes what the model computes (the missing anchor itself makes `anchors_ok` fail)
DOC = {
    "tol": "1e-11",
    "rotationTypeDefault": "all",
    "outputOrderDefault": "zxz",
    "compareBranches": [("all", ["ang", "cone", "inp"]), ("angular_distance", ["ang"]), ("cone_distance", ["cone"]), ("in_plane_distance", ["inp"])],
    "compareElse": "raise UserInputError",
    "n2eOrders": [("zzx", ["phi", "psi", "theta"]), ("*", ["phi", "theta", "psi"])],
    "angExpr": '(E.deg (E.mul (E.lit 2 1) (E.acos (E.min (E.abs (E.var "dot")) (E.lit 1 1)))))',
    "dist2Expr": '(E.iteLt (E.sub (E.lit 1 1) (E.mul (E.var "dot") (E.var "dot"))) (E.lit 1 10000000) (E.lit 0 1) (E.sub (E.lit 1 1) (E.mul (E.var "dot") (E.var "dot"))))',
    "angInputs": [[("np.ndarray", "srot.from_euler(convention, <arg>, degrees=degrees)"), ("*", "<arg>")]] * 2,
    "normMode": "row",
    "n2eInputs": [("pd.DataFrame", "<arg>.loc[:, ['x', 'y', 'z']].values"), ("np.ndarray", "<arg>"), ("*", "raise UserInputError")],
    "thetaExpr": '(E.deg (E.atan2 (E.sqrt (E.add (E.mul (E.var "ux") (E.var "ux")) (E.mul (E.var "uy") (E.var "uy")))) (E.var "uz")))',
    "psiExpr": '(E.iteEq (E.var "ux") (E.lit 0 1) (E.iteEq (E.var "uy") (E.lit 0 1) (E.lit 0 1) (E.add (E.lit 90 1) (E.deg (E.atan2 (E.var "uy") (E.var "ux"))))) '
               '(E.add (E.lit 90 1) (E.deg (E.atan2 (E.var "uy") (E.var "ux")))))',
}
# the fixed part of Gen/C06.lean: the expression type the regenerated row-level formulas are terms of (Model/C06.lean: evalE)
E_TEMPLATE = """/-- row-level arithmetic of the translated functions (fixed template; only the VALUES below are regenerated) -/
inductive E where
  | lit (num den : Nat) | var (name : String) | pi
  | neg (a : E) | add (a b : E) | sub (a b : E) | mul (a b : E) | div (a b : E)
  | abs (a : E) | min (a b : E) | max (a b : E)
  | acos (a : E) | sqrt (a : E) | atan2 (y x : E) | deg (a : E)
  | iteLt (a b t e : E) | iteEq (a b t e : E)
deriving Repr, DecidableEq, Inhabited"""


def _params(fn):
    a = fn.args
    return ({x.arg for x in a.posonlyargs + a.args + a.kwonlyargs} | ({a.vararg.arg} if a.vararg else set()) | ({a.kwarg.arg} if a.kwarg else set()))


def _alpha_map(fn):
    """H2: canonical names of the locals, numbered by BINDING OCCURRENCE (first position in the source where the name is bound: assignment
    target, loop/comprehension variable, `with … as`, `except … as`, parameter of a nested lambda/def). A local that is bound but never read
    (a discard: `_`, `unused`, …) is written `_` whatever it is called and takes no number, so `a, _ = f(); b, _ = g()` and
    `a, u1 = f(); b, u2 = g()` have the same dump, and renaming any local is invisible."""
    params = _params(fn)
    own_args = {id(x) for x in fn.args.posonlyargs + fn.args.args + fn.args.kwonlyargs + [y for y in (fn.args.vararg, fn.args.kwarg) if y]}
    binds = []
    for n in ast.walk(fn):
        if isinstance(n, ast.Name) and isinstance(n.ctx, (ast.Store, ast.Del)) and n.id not in params:
            binds.append((n.lineno, n.col_offset, n.id))
        elif isinstance(n, ast.arg) and id(n) not in own_args and n.arg not in params:
            binds.append((n.lineno, n.col_offset, n.arg))
        elif isinstance(n, ast.ExceptHandler) and n.name and n.name not in params:
            binds.append((n.lineno, n.col_offset, n.name))
    binds.sort()
    loaded = {n.id for n in ast.walk(fn) if isinstance(n, ast.Name) and isinstance(n.ctx, ast.Load)}
    m = {}
    k = 0
    for _l, _c, name in binds:
        if name in m:
            continue
        if name not in loaded:
            m[name] = "_"
        else:
            m[name] = f"v{k}"
            k += 1
    return m


_LOG_CALLS = ("print", "warn", "warning", "info", "debug", "error", "exception", "critical", "log")


def _is_text(n):
    return isinstance(n, ast.JoinedStr) or (isinstance(n, ast.Constant) and isinstance(n.value, str))


class _Ren(ast.NodeTransformer):
    """renames the locals and applies H1: type annotations are dropped (`x: T = v` becomes `x = v`, a bare `x: T` disappears), and the TEXT of
    exception / print / log messages is replaced by `<msg>` (the exception type and the fact that something is printed stay)"""

    def __init__(self, m):
        self.m = m

    def visit_Name(self, n):
        return ast.copy_location(ast.Name(id=self.m.get(n.id, n.id), ctx=n.ctx), n)

    def visit_arg(self, n):
        return ast.copy_location(ast.arg(arg=self.m.get(n.arg, n.arg), annotation=None), n)

    def visit_ExceptHandler(self, n):
        self.generic_visit(n)
        if n.name:
            n.name = self.m.get(n.name, n.name)
        return n

    def visit_FunctionDef(self, n):
        self.generic_visit(n)
        n.returns = None
        if n.body and isinstance(n.body[0], ast.Expr) and _is_text(n.body[0].value) and len(n.body) > 1:
            n.body = n.body[1:]
        return n

    def visit_AnnAssign(self, n):
        self.generic_visit(n)
        if n.value is None:
            return None
        return ast.copy_location(ast.Assign(targets=[n.target], value=n.value), n)

    def _strip_text(self, call):
        call.args = [ast.Name(id="<msg>", ctx=ast.Load()) if _is_text(a) else a for a in call.args]
        for kw in call.keywords:
            if _is_text(kw.value):
                kw.value = ast.Name(id="<msg>", ctx=ast.Load())

    def visit_Raise(self, n):
        self.generic_visit(n)
        if isinstance(n.exc, ast.Call):
            self._strip_text(n.exc)
        return n

    def visit_Expr(self, n):
        self.generic_visit(n)
        v = n.value
        if isinstance(v, ast.Call):
            f = v.func
            nm = f.id if isinstance(f, ast.Name) else (f.attr if isinstance(f, ast.Attribute) else "")
            if nm in _LOG_CALLS:
                self._strip_text(v)
        return n


def _u(node, m):
    import copy
    r = _Ren(m).visit(copy.deepcopy(node))
    return "pass" if r is None else ast.unparse(ast.fix_missing_locations(r))


def _header(fn):
    """`def name(parameters with their defaults)` WITHOUT annotations (H1: a type hint is a harmless edit)"""
    import copy
    a = copy.deepcopy(fn.args)
    for x in a.posonlyargs + a.args + a.kwonlyargs + [y for y in (a.vararg, a.kwarg) if y]:
        x.annotation = None
    return f"def {fn.name}({ast.unparse(a)})"


def _dump_block(stmts, m, depth, fn, out, elif_=False):
    pre = "| " * depth
    for st in stmts:
        if isinstance(st, ast.Expr) and _is_text(st.value):
            continue  # docstring / bare string
        if isinstance(st, ast.AnnAssign) and st.value is None:
            continue  # bare annotation `x: T`
        if isinstance(st, ast.If):
            test = _u(st.test, m)
            kw = "elif" if elif_ else "if"
            elif_ = False
            if test in COLLAPSE:
                inner = {id(n) for s in st.body + st.orelse for n in ast.walk(s)}
                bound = {n.id for s in st.body + st.orelse for n in ast.walk(s) if isinstance(n, ast.Name) and isinstance(n.ctx, (ast.Store, ast.Del))}
                used_out = {n.id for n in ast.walk(fn) if isinstance(n, ast.Name) and id(n) not in inner} | _params(fn)
                exits = sum(isinstance(n, (ast.Return, ast.Raise)) for s in st.body + st.orelse for n in ast.walk(s))
                out.append(f"{pre}{kw} {test}: <collapsed: rebinds={sorted(m.get(x, x) for x in bound & used_out)} exits={exits}>")
                continue
            out.append(f"{pre}{kw} {test}:")
            _dump_block(st.body, m, depth + 1, fn, out)
            if len(st.orelse) == 1 and isinstance(st.orelse[0], ast.If):
                _dump_block(st.orelse, m, depth, fn, out, elif_=True)
            elif st.orelse:
                out.append(f"{pre}else:")
                _dump_block(st.orelse, m, depth + 1, fn, out)
        elif isinstance(st, (ast.For, ast.While, ast.With, ast.Try, ast.FunctionDef, ast.ClassDef, ast.AsyncFunctionDef)):
            out.append(pre + type(st).__name__ + ": " + _u(st, m).replace("\n", " ; "))
        else:
            out.append(pre + _u(st, m))


def dump_fn(fn):
    """normalised dump of a whole function: header with the parameter defaults (no annotations), then one string per statement"""
    m = _alpha_map(fn)
    out = [_header(fn)]
    _dump_block(fn.body, m, 0, fn, out)
    return out


# ------------------------------------------------------------------ structural translation (extension goal)
# angular_distance, euler_angles_to_normals and normals_to_euler_angles are not tied by a statement dump but TRANSLATED: the body is
# executed symbolically (temporaries inlined), the result is taken apart top-down -- input dispatch table, batch handling (which axis
# np.sum / np.linalg.norm reduce over), row-level arithmetic as a term of the Lean type Gen.C06.E that the model EVALUATES -- and only the
# glue between those pieces (shape guard, as_quat/ndmin, the c_symmetry block, the random phi) is kept as short skeleton strings.
# So a harmless refactor (new / renamed / removed temporaries, reordered independent statements, x**2 vs np.power(x, 2) vs x*x,
# axis=1 vs positional 1, abs vs np.abs) regenerates an EQUAL model; anything the translation cannot express raises AnchorMissing.
import copy
_copy = copy

_VIEWS = {"asarray", "asanyarray", "ravel", "reshape", "view", "squeeze", "transpose", "atleast_1d", "atleast_2d", "atleast_3d", "swapaxes",
          "diagonal", "values", "to_numpy", "T", "real", "imag", "flat", "loc", "iloc", "expand_dims", "broadcast_to"}


def _callname(f):
    return f.id if isinstance(f, ast.Name) else (f.attr if isinstance(f, ast.Attribute) else "")


def _fresh(v):
    """does this expression denote a NEW array (so that writing into it cannot be seen through another name)?"""
    if isinstance(v, (ast.BinOp, ast.UnaryOp, ast.Compare, ast.BoolOp, ast.Constant)):
        return True
    if isinstance(v, ast.IfExp):
        return _fresh(v.body) and _fresh(v.orelse)
    if isinstance(v, ast.Call):
        nm = _callname(v.func)
        if nm in ("setitem",):
            return True
        if nm in _VIEWS:
            return False
        if nm == "array" and any(k.arg == "copy" for k in v.keywords):
            return False
        return True
    return False


class SymExec:
    """H-ext: symbolic execution of a straight-line / if-else function body into ONE expression per outcome. Locals are inlined (so temporaries,
    their names, and the order of independent statements do not matter), `x[i] = v` / `x += v` on a fresh array become functional updates,
    an `if` without return/raise is merged variable by variable (`a if c else b`), an `if` with an exit splits the outcome. Anything the
    translation cannot express faithfully (loops, with/try, writes through a possible alias or view) raises AnchorMissing quoting the statement."""

    def __init__(self, fn):
        self.fn = fn
        a = fn.args
        self.params = [x.arg for x in a.posonlyargs + a.args + a.kwonlyargs] + ([a.vararg.arg] if a.vararg else []) + ([a.kwarg.arg] if a.kwarg else [])

    def miss(self, st, why):
        raise core.AnchorMissing(f"{self.fn.name}: {why}: `{ast.unparse(st).splitlines()[0][:100]}` (line {getattr(st, 'lineno', '?')})")

    def sub(self, node, env):
        outer = self

        class S(ast.NodeTransformer):
            def visit_Name(self, n):
                if isinstance(n.ctx, ast.Load) and n.id in env and n.id != "$eff":
                    return copy.deepcopy(env[n.id])
                return n

            def visit_Lambda(self, n):
                outer.miss(n, "lambda inside an anchored body is not translated")

            def visit_ListComp(self, n):
                outer.miss(n, "comprehension inside an anchored body is not translated")
            visit_SetComp = visit_DictComp = visit_GeneratorExp = visit_ListComp
        return S().visit(copy.deepcopy(node))

    def run(self):
        env = {p: ast.Name(id=p, ctx=ast.Load()) for p in self.params}
        env["$eff"] = []
        return self.block(list(self.fn.body), env, [])

    @staticmethod
    def _exits(stmts):
        return any(isinstance(n, (ast.Return, ast.Raise)) for s in stmts for n in ast.walk(s))

    def outcome(self, env, value):
        if env["$eff"]:
            return ast.Call(func=ast.Name(id="seq", ctx=ast.Load()), args=list(env["$eff"]) + [value], keywords=[])
        return value

    def update(self, st, env, name, idx, newval):
        v = env.get(name)
        if v is None:
            self.miss(st, f"in-place write into `{name}` which is not a local or parameter")
        tag = "setitem" if _fresh(v) else "inplace_through_alias"
        for other, ov in env.items():
            if other in (name, "$eff") or ov is v:
                continue
            if isinstance(ov, (ast.Subscript, ast.Attribute)) or (isinstance(ov, ast.Call) and _callname(ov.func) in _VIEWS):
                if ast.dump(v) in ast.dump(ov):
                    self.miss(st, f"in-place write into `{name}` while `{other}` may be a view of it")
        new = ast.Call(func=ast.Name(id=tag, ctx=ast.Load()), args=[v, idx, newval], keywords=[])
        for other in list(env):
            if other != "$eff" and env[other] is v:
                env[other] = new

    def block(self, stmts, env, cont):
        for i, st in enumerate(stmts):
            rest = stmts[i + 1:]
            if isinstance(st, ast.Expr):
                if _is_text(st.value):
                    continue
                v = self.sub(st.value, env)
                if isinstance(v, ast.Call) and _callname(v.func) in _LOG_CALLS:
                    v.args = [ast.Name(id="<msg>", ctx=ast.Load()) if _is_text(a) else a for a in v.args]
                env["$eff"] = env["$eff"] + [v]
            elif isinstance(st, (ast.Assign, ast.AnnAssign)):
                if isinstance(st, ast.AnnAssign):
                    if st.value is None:
                        continue
                    targets = [st.target]
                else:
                    targets = st.targets
                if isinstance(st.value, ast.Name) and st.value.id in env:
                    val = env[st.value.id]          # plain alias: the SAME object
                else:
                    val = self.sub(st.value, env)
                for t in targets:
                    if isinstance(t, ast.Name):
                        env[t.id] = val
                    elif isinstance(t, (ast.Tuple, ast.List)) and all(isinstance(e, ast.Name) for e in t.elts):
                        for k, e in enumerate(t.elts):
                            if isinstance(val, (ast.Tuple, ast.List)) and len(val.elts) == len(t.elts):     # a, b = x, y
                                env[e.id] = val.elts[k]
                            else:
                                env[e.id] = ast.Subscript(value=copy.deepcopy(val), slice=ast.Constant(value=k), ctx=ast.Load())
                    elif isinstance(t, ast.Subscript) and isinstance(t.value, ast.Name):
                        self.update(st, env, t.value.id, self.sub(t.slice, env), val)
                    else:
                        self.miss(st, "assignment target not handled by the symbolic translation")
            elif isinstance(st, ast.AugAssign):
                rhs = self.sub(st.value, env)
                if isinstance(st.target, ast.Name):
                    name = st.target.id
                    if name not in env:
                        self.miss(st, "augmented assignment to an unbound name")
                    v = env[name]
                    new = ast.BinOp(left=v, op=st.op, right=rhs)
                    if _fresh(v):       # numpy's `x += c` writes into x; on a fresh array that is the same as rebinding
                        for other in list(env):
                            if other != "$eff" and env[other] is v:
                                env[other] = new
                    else:
                        env[name] = ast.Call(func=ast.Name(id="inplace_through_alias", ctx=ast.Load()), args=[v, ast.Constant(value=Ellipsis), new], keywords=[])
                elif isinstance(st.target, ast.Subscript) and isinstance(st.target.value, ast.Name):
                    name = st.target.value.id
                    idx = self.sub(st.target.slice, env)
                    cur = ast.Subscript(value=copy.deepcopy(env.get(name) or ast.Name(id=name, ctx=ast.Load())), slice=copy.deepcopy(idx), ctx=ast.Load())
                    self.update(st, env, name, idx, ast.BinOp(left=cur, op=st.op, right=rhs))
                else:
                    self.miss(st, "augmented assignment target not handled")
            elif isinstance(st, ast.Return):
                val = self.sub(st.value, env) if st.value is not None else ast.Constant(value=None)
                return self.outcome(env, val)
            elif isinstance(st, ast.Raise):
                exc = st.exc
                nm = ast.unparse(exc.func) if isinstance(exc, ast.Call) else (ast.unparse(exc) if exc is not None else "reraise")
                return self.outcome(env, ast.Call(func=ast.Name(id="RAISE", ctx=ast.Load()), args=[ast.Name(id=nm, ctx=ast.Load())], keywords=[]))
            elif isinstance(st, ast.If):
                cond = _norm_test(self.sub(st.test, env))
                if self._exits(st.body) or self._exits(st.orelse):
                    ea, eb = dict(env), dict(env)
                    oa = self.block(list(st.body), ea, rest + cont)
                    ob = self.block(list(st.orelse), eb, rest + cont)
                    return ast.IfExp(test=cond, body=oa, orelse=ob)
                ea, eb = dict(env), dict(env)
                self.block(list(st.body), ea, None)
                self.block(list(st.orelse), eb, None)
                for k in sorted(set(ea) | set(eb)):
                    if k == "$eff":
                        continue
                    va, vb = ea.get(k), eb.get(k)
                    if va is None or vb is None:
                        # bound in one branch only: usable later only under the same condition; keep a marked value
                        one = va if va is not None else vb
                        env[k] = ast.IfExp(test=cond, body=va or ast.Name(id="UNBOUND", ctx=ast.Load()), orelse=vb or ast.Name(id="UNBOUND", ctx=ast.Load()))
                    elif va is vb or ast.dump(va) == ast.dump(vb):
                        env[k] = va if va is env.get(k) else va
                    else:
                        env[k] = ast.IfExp(test=cond, body=va, orelse=vb)
                fa, fb = ea["$eff"], eb["$eff"]
                if [ast.dump(x) for x in fa] != [ast.dump(x) for x in fb]:
                    base = len(env["$eff"])
                    seq = lambda xs: ast.Call(func=ast.Name(id="seq", ctx=ast.Load()), args=xs, keywords=[])
                    env["$eff"] = env["$eff"] + [ast.IfExp(test=cond, body=seq(fa[base:]), orelse=seq(fb[base:]))]
            elif isinstance(st, ast.Pass):
                continue
            else:
                self.miss(st, f"{type(st).__name__} statement is not handled by the symbolic translation")
        if cont is None:
            return None
        if cont:
            return self.block(cont, env, [])
        return self.outcome(env, ast.Constant(value=None))


def _norm_test(t):
    """`not (a == b)` is `a != b` and `not (a != b)` is `a == b` (single comparison): one canonical spelling of a guard"""
    if isinstance(t, ast.UnaryOp) and isinstance(t.op, ast.Not) and isinstance(t.operand, ast.Compare) and len(t.operand.ops) == 1:
        flip = {ast.Eq: ast.NotEq, ast.NotEq: ast.Eq, ast.Lt: ast.GtE, ast.GtE: ast.Lt, ast.Gt: ast.LtE, ast.LtE: ast.Gt, ast.Is: ast.IsNot, ast.IsNot: ast.Is,
                ast.In: ast.NotIn, ast.NotIn: ast.In}
        op = t.operand.ops[0]
        if type(op) in (ast.Eq, ast.NotEq, ast.Is, ast.IsNot, ast.In, ast.NotIn):     # (<, >= … are not complements for NaN / arrays: left alone)
            return ast.copy_location(ast.Compare(left=t.operand.left, ops=[flip[type(op)]()], comparators=t.operand.comparators), t.operand)
    return t


def normal_form(fn):
    _CUR_FN[0] = fn
    return SymExec(fn).run()



def _eqn(a, b):
    return ast.dump(a) == ast.dump(b)


def _replace(node, target, name):
    """copy of `node` with every subtree equal to `target` replaced by the placeholder `name`"""
    td = ast.dump(target)

    class Rp(ast.NodeTransformer):
        def visit(self, n):
            if isinstance(n, ast.AST) and ast.dump(n) == td:
                return ast.Name(id=name, ctx=ast.Load())
            return self.generic_visit(n)
    return Rp().visit(_copy.deepcopy(node))


_CUR_FN = [None]     # the function being translated (set by normal_form): lets _need quote the ORIGINAL statement an expression came from


def _origin(node):
    """(line number, text of the original source statement) the inlined expression `node` stems from"""
    fn = _CUR_FN[0]
    if fn is None or node is None:
        return None
    own = getattr(node, "lineno", None)      # the top node of the offending expression was copied from the statement it was written in
    lines = [own] if own else sorted({n.lineno for n in ast.walk(node) if getattr(n, "lineno", None)})[-1:]
    best = None
    for ln in lines:
        for st in ast.walk(fn):
            if isinstance(st, ast.stmt) and not isinstance(st, (ast.FunctionDef, ast.AsyncFunctionDef, ast.ClassDef)) and st.lineno <= ln <= (st.end_lineno or st.lineno):
                if best is None or (st.end_lineno - st.lineno, -st.lineno) < (best.end_lineno - best.lineno, -best.lineno):
                    best = st
    if best is None:
        return None
    txt = ast.unparse(best).splitlines()
    return best.lineno, txt[0] + (" …" if len(txt) > 1 else "")


def _need(ok, fname, what, node=None):
    if not ok:
        msg = f"{fname}: expected {what}"
        if node is not None:
            found = ast.unparse(node)
            msg += f", found `{found if len(found) <= 400 else found[:400] + ' …'}`"
            o = _origin(node)
            if o:
                msg += f" (from line {o[0]}: `{o[1]}`)"
        raise core.AnchorMissing(msg)


def _npname(f):
    """'degrees' for np.degrees / numpy.degrees / math.degrees, 'abs' for the builtin, 'linalg.norm' for np.linalg.norm"""
    if isinstance(f, ast.Name):
        return f.id
    if isinstance(f, ast.Attribute):
        if isinstance(f.value, ast.Name) and f.value.id in ("np", "numpy", "math"):
            return f.attr
        if isinstance(f.value, ast.Attribute) and isinstance(f.value.value, ast.Name) and f.value.value.id in ("np", "numpy"):
            return f.value.attr + "." + f.attr
    return None


def _kw(call, name, pos=None):
    for k in call.keywords:
        if k.arg == name:
            return k.value
    if pos is not None and len(call.args) > pos:
        return call.args[pos]
    return None


def _const(n):
    if isinstance(n, ast.Constant) and isinstance(n.value, (int, float)) and not isinstance(n.value, bool):
        return n.value
    if isinstance(n, ast.UnaryOp) and isinstance(n.op, ast.USub) and _const(n.operand) is not None:
        return -_const(n.operand)
    return None


class ETrans:
    """python expression (after inlining) -> Lean term of Gen.C06.E; `varmatch(node)` names the row-level variables"""

    def __init__(self, fname, varmatch):
        self.fname, self.varmatch = fname, varmatch

    def lit(self, v):
        from fractions import Fraction
        fr = Fraction(repr(v)) if isinstance(v, float) else Fraction(v)
        t = f"(E.lit {abs(fr.numerator)} {fr.denominator})"
        return f"(E.neg {t})" if fr < 0 else t

    def cond(self, c, t, e):
        """if c then t else e, where c is an elementwise numpy condition"""
        if isinstance(c, ast.Call) and _npname(c.func) == "where" and len(c.args) == 1:
            c = c.args[0]
        if isinstance(c, ast.BinOp) and isinstance(c.op, ast.BitAnd):
            return self.cond(c.left, self.cond(c.right, t, e), e)
        if isinstance(c, ast.BinOp) and isinstance(c.op, ast.BitOr):
            return self.cond(c.left, t, self.cond(c.right, t, e))
        if isinstance(c, ast.UnaryOp) and isinstance(c.op, ast.Invert):
            return self.cond(c.operand, e, t)
        if isinstance(c, ast.Compare) and len(c.ops) == 1:
            a, b, op = self.e(c.left), self.e(c.comparators[0]), c.ops[0]
            if isinstance(op, ast.Lt):
                return f"(E.iteLt {a} {b} {t} {e})"
            if isinstance(op, ast.Gt):
                return f"(E.iteLt {b} {a} {t} {e})"
            if isinstance(op, ast.GtE):
                return f"(E.iteLt {a} {b} {e} {t})"
            if isinstance(op, ast.LtE):
                return f"(E.iteLt {b} {a} {e} {t})"
            if isinstance(op, ast.Eq):
                return f"(E.iteEq {a} {b} {t} {e})"
            if isinstance(op, ast.NotEq):
                return f"(E.iteEq {a} {b} {e} {t})"
        _need(False, self.fname, "an elementwise condition (<, >, <=, >=, ==, !=, &, |, ~)", c)

    def e(self, n):
        v = self.varmatch(n)
        if v is not None:
            return f'(E.var "{v}")'
        c = _const(n)
        if c is not None:
            return self.lit(c)
        if isinstance(n, ast.Attribute) and isinstance(n.value, ast.Name) and n.value.id in ("np", "numpy", "math") and n.attr == "pi":
            return "E.pi"
        if isinstance(n, ast.UnaryOp) and isinstance(n.op, ast.USub):
            return f"(E.neg {self.e(n.operand)})"
        if isinstance(n, ast.UnaryOp) and isinstance(n.op, ast.UAdd):
            return self.e(n.operand)
        if isinstance(n, ast.BinOp):
            if isinstance(n.op, ast.Pow) and _const(n.right) == 2:
                x = self.e(n.left)
                return f"(E.mul {x} {x})"
            ops = {ast.Add: "add", ast.Sub: "sub", ast.Mult: "mul", ast.Div: "div"}
            for k, nm in ops.items():
                if isinstance(n.op, k):
                    a, b = self.e(n.left), self.e(n.right)
                    if nm in ("add", "mul"):
                        # binary64 + and * are commutative bit for bit (NOT associative: only the two operands of ONE node are ordered):
                        # canonical order = literal first, then by the text of the term, so `arccos(x) * 2` and `2 * arccos(x)` are one model
                        lit = lambda t: 0 if t.startswith("(E.lit ") or t.startswith("(E.neg (E.lit ") else 1
                        a, b = sorted([a, b], key=lambda t: (lit(t), t))
                    return f"(E.{nm} {a} {b})"
        if isinstance(n, ast.Call):
            if isinstance(n.func, ast.Attribute) and n.func.attr == "astype" and len(n.args) == 1 and ast.unparse(n.args[0]) in ("float", "np.float64", "'float64'", "np.double"):
                return self.e(n.func.value)      # a float64 array stays what it is
            nm = _npname(n.func)
            un = {"abs": "abs", "absolute": "abs", "fabs": "abs", "arccos": "acos", "acos": "acos", "sqrt": "sqrt", "degrees": "deg", "rad2deg": "deg"}
            bi = {"minimum": "min", "fmin": "min", "maximum": "max", "fmax": "max", "arctan2": "atan2", "atan2": "atan2"}
            if nm in un and len(n.args) == 1 and not n.keywords:
                return f"(E.{un[nm]} {self.e(n.args[0])})"
            if nm in bi and len(n.args) == 2 and not n.keywords:
                return f"(E.{bi[nm]} {self.e(n.args[0])} {self.e(n.args[1])})"
            if nm in ("power", "pow") and len(n.args) == 2 and _const(n.args[1]) == 2:
                x = self.e(n.args[0])
                return f"(E.mul {x} {x})"
            if nm == "square" and len(n.args) == 1:
                x = self.e(n.args[0])
                return f"(E.mul {x} {x})"
            if nm == "where" and len(n.args) == 3:
                return self.cond(n.args[0], self.e(n.args[1]), self.e(n.args[2]))
            if nm == "setitem" and len(n.args) == 3:      # x[mask] = v on a fresh array: elementwise "v where mask else x"
                return self.cond(n.args[1], self.e(n.args[2]), self.e(n.args[0]))
        _need(False, self.fname, "row-level arithmetic the translation knows (+ - * / **2 abs minimum maximum arccos sqrt arctan2 degrees where, masked assignment)", n)


def _isinstance_chain(node, fname):
    """a if isinstance(p, T1) else b if isinstance(p, T2) else c  ->  ([(T1, a), (T2, b)], c, p)"""
    out, par = [], None
    while isinstance(node, ast.IfExp) and isinstance(node.test, ast.Call) and ast.unparse(node.test.func) == "isinstance" and len(node.test.args) == 2:
        p = ast.unparse(node.test.args[0])
        _need(par in (None, p), fname, f"one dispatch on the type of `{par}`", node.test)
        par = p
        out.append((ast.unparse(node.test.args[1]), node.body))
        node = node.orelse
    return out, node, par


def _norm_mode(num, den, fname):
    """`num / den` where den is a norm of num: 'row' (each row by its own norm), 'all' (Frobenius norm of the batch), 'col'"""
    d = den
    newaxis = False
    if isinstance(d, ast.Subscript):
        sl = ast.unparse(d.slice).replace(" ", "").strip("()")
        _need(sl in (":,np.newaxis", ":,None"), fname, "`[:, np.newaxis]` after the norm", d)
        newaxis, d = True, d.value
    _need(isinstance(d, ast.Call) and _npname(d.func) == "linalg.norm" and d.args and _eqn(d.args[0], num), fname, "np.linalg.norm of the divided array", den)
    ax, kd = _kw(d, "axis", 2), _kw(d, "keepdims", 3)
    od = _kw(d, "ord", 1)
    _need(len(d.args) <= 4 and all(k.arg in ("ord", "axis", "keepdims") for k in d.keywords), fname, "np.linalg.norm with ord / axis / keepdims only", d)
    # the Euclidean norm: `ord` absent or None; ord=2 is the same ONLY for the vector norms along an axis (without axis, ord=2 of a 2-D array is the
    # spectral norm, and 1 / np.inf / 0 / negative orders are other norms altogether)
    od_ok = od is None or (isinstance(od, ast.Constant) and od.value is None) or (_const(od) == 2 and ax is not None)
    _need(od_ok, fname, "the Euclidean norm (np.linalg.norm without `ord`, or ord=2 along an axis)", d)
    ax = _const(ax) if ax is not None else None
    keep = isinstance(kd, ast.Constant) and kd.value is True
    if ax is None and _kw(d, "axis", 2) is None:
        return "all"
    if ax in (1, -1) and (keep != newaxis):
        return "row"
    if ax == 0:
        return "col"
    _need(False, fname, "np.linalg.norm(x, axis=1, keepdims=True) / np.linalg.norm(x, axis=1)[:, np.newaxis] / np.linalg.norm(x)", den)


def _find_normalised(node, fname):
    """first sub-expression `X / norm(X …)` of the tree"""
    for n in ast.walk(node):
        if isinstance(n, ast.BinOp) and isinstance(n.op, ast.Div):
            d = n.right.value if isinstance(n.right, ast.Subscript) else n.right
            if isinstance(d, ast.Call) and _npname(d.func) == "linalg.norm" and d.args and _eqn(d.args[0], n.left):
                return n
    _need(False, fname, "a normalisation `x / np.linalg.norm(x, …)`", node)


def _struct_angular(fn):
    nf = normal_form(fn)
    F = fn.name
    _need(isinstance(nf, ast.IfExp) and isinstance(nf.orelse, ast.Tuple) and len(nf.orelse.elts) == 2, F, "`<early exit> if <shape test> else (angle, dist)`", nf)
    t = nf.test
    _need(isinstance(t, ast.Compare) and len(t.ops) == 1 and isinstance(t.ops[0], ast.NotEq) and isinstance(t.left, ast.Attribute) and t.left.attr == "shape"
          and isinstance(t.comparators[0], ast.Attribute) and t.comparators[0].attr == "shape", F, "the shape test `q1.shape != q2.shape`", t)
    Q = [t.left.value, t.comparators[0].value]

    def var(n):
        if isinstance(n, ast.Call) and _npname(n.func) == "sum" and n.args and isinstance(n.args[0], ast.BinOp) and isinstance(n.args[0].op, ast.Mult):
            l, r = n.args[0].left, n.args[0].right
            ax = _kw(n, "axis", 1)
            # exactly np.sum(q1 * q2, axis=1) / np.sum(q1 * q2, 1): a third positional argument is `dtype` (np.sum(x, 1, np.float32) accumulates in
            # float32), and dtype= / out= / where= / initial= / keepdims= all change the value or its shape -> not the documented dot product
            plain = len(n.args) <= 2 and all(k.arg == "axis" for k in n.keywords) and len(n.args) + len(n.keywords) == 2
            if ((_eqn(l, Q[0]) and _eqn(r, Q[1])) or (_eqn(l, Q[1]) and _eqn(r, Q[0]))) and ax is not None and _const(ax) in (1, -1) and plain:
                return "dot"       # the reduction runs over the 4 components of each row (axis=1): one number per pair
        return None
    tr = ETrans(F, var)
    ang, dist2 = tr.e(nf.orelse.elts[0]), tr.e(nf.orelse.elts[1])
    R, qform = [], []
    for q in Q:
        _need(isinstance(q, ast.Call) and _npname(q.func) == "array" and len(q.args) == 1 and isinstance(q.args[0], ast.Call) and isinstance(q.args[0].func, ast.Attribute)
              and q.args[0].func.attr == "as_quat" and not q.args[0].args, F, "`np.array(<rotation>.as_quat(), ndmin=2)`", q)
        R.append(q.args[0].func.value)
        qform.append(ast.unparse(_replace(q, R[-1], "<R>")))
    tables, sym = [], []
    for i, r in enumerate(R):
        _need(isinstance(r, ast.IfExp) and ast.unparse(r.test) == "c_symmetry > 1", F, "`<symmetry-reduced rotation> if c_symmetry > 1 else <input rotation>`", r)
        chain, els, par = _isinstance_chain(r.orelse, F)
        _need(chain and par == fn.args.args[i].arg and ast.unparse(els) == par, F, f"the isinstance dispatch on parameter {i + 1} ending in the parameter itself", r.orelse)
        tables.append([(ty, ast.unparse(_replace(body, ast.Name(id=par, ctx=ast.Load()), "<arg>"))) for ty, body in chain] + [("*", "<arg>")])
        sym.append(ast.unparse(_replace(r.body, r.orelse, "<IN>")))
    skeleton = ["exit: " + ast.unparse(nf.body) + " if <Q1>.shape != <Q2>.shape",
                "Q1 = " + qform[0], "Q2 = " + qform[1], "R = <SYM> if c_symmetry > 1 else <IN>", "SYM1 = " + sym[0], "SYM2 = " + sym[1],
                "dot = np.sum(<Q1> * <Q2>, axis=1)", "return (<E angExpr>, <E dist2Expr>)"]
    return dict(header=_header(fn), ang=ang, dist2=dist2, tables=tables, skeleton=skeleton)


def _struct_normals(fn):
    nf = normal_form(fn)
    F = fn.name
    _need(isinstance(nf, ast.BinOp) and isinstance(nf.op, ast.Div), F, "`points / <norm of points>`", nf)
    mode = _norm_mode(nf.left, nf.right, F)
    return dict(header=_header(fn), mode=mode, skeleton=["P = " + ast.unparse(nf.left), "return <P> / <norm of P by " + mode + ">"])


def _struct_n2e(fn):
    nf = normal_form(fn)
    F = fn.name
    chain, els, par = _isinstance_chain(nf, F)
    _need(chain and par == fn.args.args[0].arg, F, "the isinstance dispatch on the first parameter", nf)
    _need(isinstance(els, ast.Call) and ast.unparse(els.func) == "RAISE", F, "a final `else: raise`", els)
    table, bodies, mode = [], [], None
    for ty, body in chain:
        u = _find_normalised(body, F)
        m = _norm_mode(u.left, u.right, F)
        _need(mode in (None, m), F, "the same normalisation in every branch", u)
        mode = m
        table.append((ty, ast.unparse(_replace(u.left, ast.Name(id=par, ctx=ast.Load()), "<arg>"))))
        bodies.append(_replace(body, u, "<U>"))
    _need(all(_eqn(b, bodies[0]) for b in bodies), F, "the same computation after the input dispatch in every branch", bodies[-1])
    table.append(("*", "raise " + ast.unparse(els.args[0])))
    body = bodies[0]

    def var(n):
        if isinstance(n, ast.Subscript) and isinstance(n.value, ast.Name) and n.value.id == "<U>":
            sl = ast.unparse(n.slice).replace(" ", "").strip("()")
            return {":,0": "ux", ":,1": "uy", ":,2": "uz"}.get(sl)
        return None
    tr = ETrans(F, var)
    exprs, phi = {}, None

    def role(col):
        nonlocal phi
        if any(isinstance(x, ast.Attribute) and x.attr == "random" for x in ast.walk(col)):
            txt = ast.unparse(col)
            _need(phi in (None, txt), F, "one random in-plane angle", col)
            phi = txt
            return "phi"
        t = tr.e(col)
        r = "theta" if "E.sqrt" in t else "psi"      # verified, not trusted: n2eBatchE_eq proves what each expression evaluates to
        _need(exprs.get(r) in (None, t), F, f"one formula for {r}", col)
        exprs[r] = t
        return r
    orders, node = [], body
    while True:
        def cols(c):
            _need(isinstance(c, ast.Call) and _npname(c.func) == "column_stack" and len(c.args) == 1 and isinstance(c.args[0], (ast.Tuple, ast.List)) and len(c.args[0].elts) == 3,
                  F, "`np.column_stack((a, b, c))`", c)
            return [role(e) for e in c.args[0].elts]
        if isinstance(node, ast.IfExp):
            c = node.test
            _need(isinstance(c, ast.Compare) and ast.unparse(c.left) == "output_order" and len(c.ops) == 1 and isinstance(c.ops[0], ast.Eq) and isinstance(c.comparators[0], ast.Constant),
                  F, "`output_order == <literal>`", c)
            orders.append((c.comparators[0].value, cols(node.body)))
            node = node.orelse
        else:
            orders.append(("*", cols(node)))
            break
    _need("theta" in exprs and "psi" in exprs and phi is not None, F, "columns phi, theta and psi", body)
    skeleton = ["U = <S> / <norm of S by " + mode + ">", "phi = " + phi, "return np.column_stack(<columns by output_order>)"]
    return dict(header=_header(fn), mode=mode, table=table, orders=orders, theta=exprs["theta"], psi=exprs["psi"], skeleton=skeleton)


def _assigned_exprs(fn, name):
    return [ast.unparse(st.value) for st in ast.walk(fn) if isinstance(st, ast.Assign)
            and any(isinstance(t, ast.Name) and t.id == name for t in st.targets)]


def _ret_role(fn, k):
    """which primitive the k-th element of the tuple `fn` returns holds, decided from the EXPRESSION it evaluates to (symbolic execution with the
    temporaries inlined), not from the name of a variable"""
    nf = normal_form(fn)
    leaf = nf
    while isinstance(leaf, ast.IfExp):      # the value returned on the main path (early exits are the `body` side of the guards)
        leaf = leaf.orelse
    if not isinstance(leaf, ast.Tuple) or k >= len(leaf.elts):
        raise core.AnchorMissing(f"{fn.name}: expected a returned tuple with an element {k}, found `{ast.unparse(leaf)[:100]}`")
    ex = ast.unparse(leaf.elts[k])
    head = ex.split("(")[0]
    for pat, role in (("cone_distance", "cone"), ("inplane_distance", "inp")):
        if head == pat:
            return role
    for pat, role in (("arccos(", "ang"), ("power(", "dist2"), ("** 2", "dist2")):
        if pat in ex:
            return role
    raise core.AnchorMissing(f"{fn.name}: cannot tell which primitive the returned element {k} is: `{ex[:100]}`")


def _compare_table(src):
    """(rotation_type literal, roles of the returned values) for every branch of compare_rotations, in order; the final else must raise"""
    fn, cid, ad = src.find(REL, "compare_rotations"), src.find(REL, "cone_inplane_distance"), src.find(REL, "angular_distance")
    roles = {}
    for st in ast.walk(fn):
        if not isinstance(st, ast.Assign) or len(st.targets) != 1:
            continue
        t, v = st.targets[0], st.value
        if (isinstance(v, ast.Subscript) and isinstance(v.value, ast.Call) and ast.unparse(v.value.func) == "angular_distance"
                and isinstance(v.slice, ast.Constant) and isinstance(t, ast.Name)):
            roles[t.id] = _ret_role(ad, v.slice.value)
        elif isinstance(v, ast.Call) and ast.unparse(v.func) == "cone_inplane_distance" and isinstance(t, ast.Tuple):
            for i, e in enumerate(t.elts):
                roles[e.id] = _ret_role(cid, i)
    node = next((st for st in fn.body if isinstance(st, ast.If)), None)
    table, els = [], None
    while node is not None:
        c = node.test
        if not (isinstance(c, ast.Compare) and ast.unparse(c.left) == "rotation_type" and len(c.ops) == 1 and isinstance(c.ops[0], ast.Eq)
                and isinstance(c.comparators[0], ast.Constant) and len(node.body) == 1 and isinstance(node.body[0], ast.Return)):
            raise core.AnchorMissing("compare_rotations: branch `if rotation_type == <literal>: return ...`")
        rv = node.body[0].value
        names = [e for e in (rv.elts if isinstance(rv, ast.Tuple) else [rv])]
        if not all(isinstance(e, ast.Name) and e.id in roles for e in names):
            raise core.AnchorMissing(f"compare_rotations: returned value {ast.unparse(rv)}")
        table.append((c.comparators[0].value, [roles[e.id] for e in names]))
        if len(node.orelse) == 1 and isinstance(node.orelse[0], ast.If):
            node = node.orelse[0]
        else:
            o = node.orelse
            els = ("raise " + ast.unparse(o[0].exc.func)) if len(o) == 1 and isinstance(o[0], ast.Raise) and isinstance(o[0].exc, ast.Call) else "other"
            node = None
    return table, els


def _default(fn, name):
    a = fn.args
    pos = a.posonlyargs + a.args
    for arg, d in zip(pos[len(pos) - len(a.defaults):], a.defaults):
        if arg.arg == name:
            return ast.literal_eval(d)
    for arg, d in zip(a.kwonlyargs, a.kw_defaults):
        if arg.arg == name and d is not None:
            return ast.literal_eval(d)
    raise core.AnchorMissing(f"{fn.name}: default of {name}")


def translate(src):
    from fractions import Fraction
    A = src.anchor
    f = lambda name: src.find(REL, name)
    tol = A("ANGLE_DEGREES_TOL", lambda: next(src.literal(st.value) for st in src.tree(REL).body
                                               if isinstance(st, (ast.Assign, ast.AnnAssign)) and ast.unparse(st.targets[0] if isinstance(st, ast.Assign) else st.target) == "ANGLE_DEGREES_TOL"))
    fr = Fraction(str(tol)) if isinstance(tol, (int, float)) and not isinstance(tol, bool) else Fraction(DOC["tol"])
    bodies = {}
    for name, lean in FUNCS:
        bodies[lean] = A(f"{name}:body", lambda name=name: dump_fn(f(name)))
    sa = A("angular_distance:structure", lambda: _struct_angular(f("angular_distance"))) or {}
    sn = A("euler_angles_to_normals:structure", lambda: _struct_normals(f("euler_angles_to_normals"))) or {}
    s2 = A("normals_to_euler_angles:structure", lambda: _struct_n2e(f("normals_to_euler_angles"))) or {}
    ct = A("compare_rotations:branch-table", lambda: _compare_table(src))
    table, els = ct if ct else (DOC["compareBranches"], DOC["compareElse"])
    orders = s2.get("orders") or DOC["n2eOrders"]
    rtd = A("compare_rotations:default rotation_type", lambda: _default(f("compare_rotations"), "rotation_type"))
    ood = A("normals_to_euler_angles:default output_order", lambda: _default(f("normals_to_euler_angles"), "output_order"))
    S = core.lean_str
    L = lambda xs: core.lean_str_list(xs)
    T = lambda tb: "[" + ", ".join(f"({S(str(k))}, {L(v)})" for k, v in tb) + "]"
    P = lambda tb: "[" + ", ".join(f"({S(str(k))}, {S(str(v))})" for k, v in tb) + "]"
    lines = [f"-- GENERATED by harness/props/c06.py from {REL}; do not edit", "namespace CryoCat.Gen.C06",
             f"def anchorsOk : Bool := {'true' if src.ok else 'false'}",
             E_TEMPLATE,
             "/-- ANGLE_DEGREES_TOL as an exact decimal fraction -/",
             f"def angleTolNum : Nat := {fr.numerator}", f"def angleTolDen : Nat := {fr.denominator}",
             "/-- (rotation_type literal, which primitives the branch returns, in order); after the last branch: -/",
             f"def compareBranches : List (String × List String) := {T(table)}",
             f"def compareElse : String := {S(els or DOC['compareElse'])}",
             f"def rotationTypeDefault : String := {S(rtd if isinstance(rtd, str) else DOC['rotationTypeDefault'])}",
             "/-- (output_order literal, which quantity each output column holds); \"*\" is the else branch -/",
             f"def n2eOrders : List (String × List String) := {T(orders)}",
             f"def outputOrderDefault : String := {S(ood if isinstance(ood, str) else DOC['outputOrderDefault'])}",
             "/-! `angular_distance`, translated: signature, per-argument input dispatch (python type -> conversion; \"*\" = else), the two returned",
             "row-level formulas in the variable `dot` = `np.sum(q1 * q2, axis=1)`, and the glue between them -/",
             f"def angHeader : String := {S(sa.get('header', ''))}",
             "def angInputs : List (List (String × String)) := [" + ", ".join(P(t) for t in (sa.get('tables') or DOC['angInputs'])) + "]",
             f"def angExpr : E := {sa.get('ang') or DOC['angExpr']}",
             f"def dist2Expr : E := {sa.get('dist2') or DOC['dist2Expr']}",
             f"def angSkeleton : List String := {L(sa.get('skeleton', []))}",
             "/-! `euler_angles_to_normals`, translated: how the batch of z-axis images is normalised (\"row\" = `np.linalg.norm(…, axis=1, keepdims=True)`) -/",
             f"def normalsHeader : String := {S(sn.get('header', ''))}",
             f"def normalsNormMode : String := {S(sn.get('mode') or DOC['normMode'])}",
             f"def normalsSkeleton : List String := {L(sn.get('skeleton', []))}",
             "/-! `normals_to_euler_angles`, translated: input dispatch, normalisation mode, theta / psi in the variables `ux uy uz` (normalised normal) -/",
             f"def n2eHeader : String := {S(s2.get('header', ''))}",
             f"def n2eInputs : List (String × String) := {P(s2.get('table') or DOC['n2eInputs'])}",
             f"def n2eNormMode : String := {S(s2.get('mode') or DOC['normMode'])}",
             f"def n2eThetaExpr : E := {s2.get('theta') or DOC['thetaExpr']}",
             f"def n2ePsiExpr : E := {s2.get('psi') or DOC['psiExpr']}",
             f"def n2eSkeleton : List String := {L(s2.get('skeleton', []))}",
             "/-- normalised whole-body dumps (header with defaults, then every statement in order, locals alpha-normalised) of the other anchored functions -/"]
    for name, lean in FUNCS:
        lines.append(f"def {lean} : List String := {L(bodies[lean] or [])}")
    lines.append("end CryoCat.Gen.C06")
    return "\n".join(lines) + "\n"


# ------------------------------------------------------------------ helpers
def _rot(e):
    from scipy.spatial.transform import Rotation as R
    return R.from_euler("zxz", np.asarray(e, dtype=float), degrees=True)


def _bits_rows(a):
    return [[f2b(x) for x in row] for row in np.asarray(a, dtype=float).reshape(-1, np.asarray(a).shape[-1]).tolist()]


def _floats(rows):
    return np.array([[b2f(b) for b in r] for r in rows], dtype=float)


def _bl(a):
    return [f2b(x) for x in np.asarray(a, dtype=float).ravel().tolist()]


def _fl(bits):
    return np.array([b2f(b) for b in bits], dtype=float)


_CUBE = None


def cube_eulers():
    """24 Euler triples, one per rotation of the cube"""
    global _CUBE
    if _CUBE is None:
        seen, out = set(), []
        for th in (0, 90, 180):
            for ph in (0, 90, 180, 270):
                for ps in (0, 90, 180, 270):
                    m = tuple(np.round(_rot([ph, th, ps]).as_matrix()).astype(int).ravel().tolist())
                    if m not in seen:
                        seen.add(m); out.append([float(ph), float(th), float(ps)])
        assert len(out) == 24
        _CUBE = out
    return _CUBE


def _rand_euler(rng):
    k = rng.random()
    if k < 0.55:
        return [rng.uniform(-180, 180), math.degrees(math.acos(rng.uniform(-1, 1))), rng.uniform(-180, 180)]
    if k < 0.7:   # H3: decimal angles with 1-3 decimals, as read from a STAR/em file (not on the dyadic grid)
        d = rng.choice([1, 2, 2, 3])
        return [round(rng.uniform(-180, 180), d), round(rng.uniform(0, 180), d), round(rng.uniform(-180, 180), d)]
    if k < 0.85:  # outside the canonical range
        return [rng.uniform(-720, 720), rng.uniform(-360, 360), rng.uniform(-720, 720)]
    return [float(rng.randint(-180, 180)), float(rng.randint(0, 180)), float(rng.randint(-180, 180))]


def _lattice(rng):
    return [45.0 * rng.randint(-4, 4), 45.0 * rng.randint(0, 8), 45.0 * rng.randint(-4, 4)]


def _gimbal(rng):
    return [rng.uniform(-180, 180), rng.choice([0.0, 180.0, 0.0, 180.0, -0.0, 360.0, -180.0]), rng.uniform(-180, 180)]


def _int_euler(rng):
    """whole-number angles (what an all-integer STAR table / a hand-written list holds): the array can then be of INTEGER dtype"""
    return [float(rng.randint(-360, 360)), float(rng.choice([0, 180, rng.randint(0, 180), rng.randint(-180, 360)])), float(rng.randint(-360, 360))]


def _gimbal_int(rng):
    return [float(rng.randint(-180, 180)), rng.choice([0.0, 180.0]), float(rng.randint(-180, 180))]


def _as_euler_of(r):
    import warnings
    with warnings.catch_warnings():
        warnings.simplefilter("ignore")
        return [float(x) for x in r.as_euler("zxz", degrees=True)]


def _partner(rng, a, kind):
    """second orientation of a row, by structured kind"""
    from scipy.spatial.transform import Rotation as R
    if kind == "random":
        return _rand_euler(rng)
    if kind == "near":
        eps = 10 ** rng.uniform(-9, 1)
        ax = np.array([rng.gauss(0, 1) for _ in range(3)]); ax /= np.linalg.norm(ax)
        small = R.from_rotvec(ax * math.radians(eps))
        r = _rot(a) * small if rng.random() < 0.5 else small * _rot(a)
        return _as_euler_of(r)
    if kind == "equal":   # the SAME rotation written as another Euler triple (or with the other sign of the quaternion)
        if a[1] in (0.0, 180.0) and rng.random() < 0.7:   # gimbal lock: only phi+psi (theta=0) / phi-psi (theta=180) matters
            t = a[0] + a[2] if a[1] == 0.0 else a[0] - a[2]
            u = float(rng.randint(-90, 90))
            return [t - u, a[1], u] if a[1] == 0.0 else [t + u, a[1], u]
        k = rng.randrange(4)
        if k == 0:
            return [a[0] + 180.0, -a[1], a[2] + 180.0]
        if k == 1:
            return [a[0] + 360.0 * rng.choice([-1, 1]), a[1], a[2] - 360.0 * rng.choice([0, 1])]
        if k == 2:
            return [a[0], a[1] + 360.0, a[2]]       # quaternion changes sign
        return list(a)
    if kind == "antipodal":
        ax = np.array([rng.gauss(0, 1) for _ in range(3)]); ax /= np.linalg.norm(ax)
        half = R.from_rotvec(ax * math.pi)
        r = _rot(a) * half if rng.random() < 0.5 else half * _rot(a)
        return _as_euler_of(r)
    if kind == "zflip":   # z-axes exactly antipodal (cone distance 180): b = a * (half turn about an axis in the xy-plane)
        if rng.random() < 0.5:
            return [rng.uniform(-180, 180), 180.0 - a[1], a[2] + 180.0]
        t = rng.uniform(0, 2 * math.pi)
        half = R.from_rotvec(np.array([math.cos(t), math.sin(t), 0.0]) * math.pi)
        return _as_euler_of(_rot(a) * half)
    if kind == "gimbal":
        return _gimbal(rng)
    if kind == "cube":
        return list(rng.choice(cube_eulers()))
    if kind == "lattice":
        return _lattice(rng)
    if kind == "int":
        return _int_euler(rng)
    raise ValueError(kind)


KINDS = ["random", "near", "equal", "antipodal", "zflip", "gimbal", "cube", "lattice"]
INT_KINDS = ["cube", "lattice", "int", "int"]      # rows whose angles are whole numbers (H3: integer-typed input arrays)
INPUTS = ["ndarray", "rotation", "ndarray", "rotation", "mixed", "mixed2"]   # mixed: ndarray first, Rotation second; mixed2: the other way round
FORMS = {"ndarray": ("nd", "nd"), "rotation": ("rot", "rot"), "mixed": ("nd", "rot"), "mixed2": ("rot", "nd")}
RTYPES = ["angular_distance", "cone_distance", "in_plane_distance"]
BOGUS = ["inplane_distance", "cone", "ALL", "", "angular", "all "]


def _first(rng, kind):
    if kind == "gimbal" and rng.random() < 0.5:
        return _gimbal(rng)
    if kind == "equal" and rng.random() < 0.3:
        return _gimbal_int(rng)
    if kind == "cube":
        return list(rng.choice(cube_eulers()))
    if kind == "lattice":
        return _lattice(rng)
    if kind == "int":
        return _int_euler(rng)
    return _rand_euler(rng)


def _pair_case(rng, n, kinds=None, input=None, intdtype=False):
    a, b, c, tags = [], [], [], []
    if intdtype:
        kinds = INT_KINDS
    for _ in range(n):
        kind = rng.choice(kinds or KINDS)
        ea = _first(rng, kind)
        eb = _partner(rng, ea, kind)
        kc = rng.choice(INT_KINDS if intdtype else KINDS)
        ec = _partner(rng, eb if rng.random() < 0.5 else ea, kc)
        a.append(ea); b.append(eb); c.append(ec); tags.append(kind + "/" + kc)
    g = list(rng.choice(cube_eulers())) if rng.random() < 0.2 else _rand_euler(rng)
    # G1: in ~30 % of the cases every optional keyword is OMITTED so that the library's own defaults are exercised
    out = dict(kind="pair", a=_bits_rows(a), b=_bits_rows(b), c=_bits_rows(c), g=[f2b(x) for x in g], tags=tags,
               input=input or rng.choice(INPUTS), single=(n == 1 and rng.random() < 0.5),
               explicit=rng.random() < 0.7, bogus=rng.choice(BOGUS))
    if intdtype:
        out["dtype"] = "int64"
    return out


def _normals_case(rng, n):
    ang = []
    for _ in range(n):
        k = rng.random()
        ang.append(_rand_euler(rng) if k < 0.6 else (_gimbal(rng) if k < 0.75 else (_lattice(rng) if k < 0.9 else list(rng.choice(cube_eulers())))))
    out = dict(kind="normals", ang=_bits_rows(ang), oned=(n == 1 and rng.random() < 0.5))
    u = rng.random()
    # H3: `angles` is array-like (it goes straight into scipy's from_euler): nested list / tuple of tuples; integer-typed ndarray for whole-number angles
    if u < 0.12:
        out["form"] = "list"
    elif u < 0.2:
        out["form"] = "tuple"
    elif u < 0.32:
        out["ang"] = _bits_rows([_int_euler(rng) if rng.random() < 0.6 else (_lattice(rng) if rng.random() < 0.5 else list(rng.choice(cube_eulers()))) for _ in range(n)])
        out["form"] = "int64"
    return out


def _normal_vec(rng):
    k = rng.random()
    u = rng.random()
    # "normals of any length": 1e-300 .. 1e300 (the squared length leaves the range of normal doubles beyond ~1e+-154)
    s = 10 ** rng.uniform(-3, 3) if u < 0.7 else (10 ** rng.uniform(-150, 150) if u < 0.85 else 10 ** rng.choice([rng.uniform(-300, -150), rng.uniform(150, 300)]))
    z0 = rng.choice([0.0, -0.0])
    if k < 0.35:
        v = [rng.gauss(0, 1) for _ in range(3)]
        return [x * s for x in v], "random"
    if k < 0.55:
        ax = rng.randrange(3); sg = rng.choice([-1.0, 1.0])
        v = [rng.choice([0.0, -0.0]) for _ in range(3)]; v[ax] = sg * s
        return v, "axis" + "xyz"[ax] + ("+" if sg > 0 else "-")
    if k < 0.75:  # y = 0, x != 0 : the half-planes where atan2(y,x) is 0 or pi
        return [rng.choice([-1, 1]) * abs(rng.gauss(0, 1)) * s + (s if rng.random() < 0.5 else 0.0), z0, rng.gauss(0, 1) * s * rng.choice([0, 1])], "y0"
    if k < 0.85:  # x = 0
        return [z0, rng.gauss(0, 1) * s or s, rng.gauss(0, 1) * s * rng.choice([0, 1])], "x0"
    if k < 0.93:  # almost along z
        return [rng.gauss(0, 1) * s * 1e-9, rng.gauss(0, 1) * s * 1e-9, rng.choice([-1, 1]) * s], "nearz"
    if k < 0.96:  # integer direction at an extreme length, e.g. [1,2,2]*1e160
        v = [float(rng.randint(-3, 3)), float(rng.randint(-3, 3)), float(rng.randint(1, 3))]
        return [x * s for x in v], "intscaled"
    return [float(rng.randint(-3, 3)), float(rng.randint(-3, 3)), float(rng.randint(1, 3))], "int"


def _k1_prediction(v):
    """(theta, psi) in degrees that the K1 MECHANISM produces for the normal v: the documented formulas of normals_to_euler_angles evaluated in binary64 with
    r = sqrt(x*x + y*y + z*z) -- which is inf once the sum overflows (n/inf = +-0 -> theta 0 or 180, psi 0) and 0 or a few-bit subnormal once it underflows
    (n/0 = inf/NaN, or a direction with only the digits the subnormal kept). Written out here, independent of the code under test and of the regenerated model."""
    with np.errstate(all="ignore"):
        x, y, z = (np.float64(t) for t in v)
        r = np.sqrt(x * x + y * y + z * z)
        ux, uy, uz = x / r, y / r, z / r
        theta = np.degrees(np.arctan2(np.sqrt(ux * ux + uy * uy), uz))
        psi = np.float64(0.0) if (ux == 0 and uy == 0) else 90 + np.degrees(np.arctan2(uy, ux))
    return float(theta), float(psi)


def _same_angle(a, b, tol=1e-8):
    if math.isnan(a) or math.isnan(b):
        return math.isnan(a) and math.isnan(b)
    d = abs(a - b) % 360.0
    return min(d, 360.0 - d) <= tol


def _sumsq_state(v):
    """does x*x + y*y + z*z (as numpy computes it) stay a normal double? 'ok' | 'overflow' | 'underflow'"""
    with np.errstate(all="ignore"):
        q = float(np.sum(np.asarray(v, dtype=float) ** 2))
    if math.isinf(q):
        return "overflow"
    if q < 2.2250738585072014e-308:
        return "underflow"
    return "ok"


def _int_normal(rng):
    """whole-number normal (difference of voxel coordinates, a hand-written direction): the array can be of INTEGER dtype"""
    k = rng.random()
    if k < 0.25:
        ax = rng.randrange(3); v = [0.0, 0.0, 0.0]; v[ax] = float(rng.choice([-1, 1]) * rng.choice([1, 1, 2, 7, 100]))
        return v, "axis" + "xyz"[ax] + ("+" if v[ax] > 0 else "-")
    m = rng.choice([3, 3, 10, 1000, 10 ** 6])
    v = [float(rng.randint(-m, m)) for _ in range(3)]
    if k < 0.45:
        v[1] = 0.0
    if not any(v):
        v = [1.0, 2.0, 2.0]
    t = "y0" if (v[1] == 0 and v[0] != 0) else ("x0" if (v[0] == 0 and v[1] != 0) else ("axisz" + ("+" if v[2] > 0 else "-") if v[0] == 0 and v[1] == 0 else "int"))
    return v, t


def _n2e_case(rng, n, intdtype=None):
    vs, tags = [], []
    intdtype = (rng.random() < 0.1) if intdtype is None else intdtype
    zero_rows = rng.random() < 0.08 and n >= 2
    for i in range(n):
        v, t = _int_normal(rng) if intdtype else _normal_vec(rng)
        v = [x if math.isfinite(x) else 1.0 for x in v]
        if all(x == 0 for x in v):
            v, t = [1.0, 0.0, 0.0], "axisx+"
        if v[0] == 0 and abs(v[1]) > 0 and t == "y0":
            t = "x0"
        if zero_rows and i > 0 and rng.random() < 0.3:   # a zero vector has no direction: outside the statement; its row is NaN, the others must be right
            v, t = [rng.choice([0.0, -0.0]) for _ in range(3)], "zero"
        vs.append(v); tags.append(t)
    out = dict(kind="n2e", n=_bits_rows(vs), tags=tags, order=rng.choice(["zxz", "zzx", "zzx", None, None]), df=rng.random() < 0.3)
    if intdtype:
        out["dtype"] = "int64"
    if out["df"]:   # H3: row labels a user's table really has (a filtered table keeps gaps, a concatenated one repeats labels)
        out["df_index"] = rng.choice(["default", "default", "gaps", "dup", "reversed", "text"])
    return out


def _qmult_case(rng, n):
    p = [[rng.gauss(0, 1) for _ in range(4)] for _ in range(n)]
    q = [[rng.gauss(0, 1) for _ in range(4)] for _ in range(n)]
    return dict(kind="qmult", p=_bits_rows(p), q=_bits_rows(q))


def _mismatch_case(rng):
    n = rng.randint(1, 6); m = rng.choice([k for k in range(1, 8) if k != n])
    return dict(kind="mismatch", a=_bits_rows([_rand_euler(rng) for _ in range(n)]), b=_bits_rows([_rand_euler(rng) for _ in range(m)]),
                input=rng.choice(["ndarray", "rotation"]))


def _seq_case(rng, maxn):
    """G2: several library calls in ONE process on the SAME caller-owned ndarrays (overwritten in place by the caller between the calls)"""
    u = rng.random()
    if u < 0.6:
        n = rng.randint(1, min(maxn, 8))
        s1 = _pair_case(rng, n, input="ndarray"); s2 = _pair_case(rng, n, input="ndarray")
        s1["single"] = s2["single"] = False
        if rng.random() < 0.5:   # the same (untouched) second argument for two different first arguments
            s2["b"] = s1["b"]; s2["tags"] = ["random/" + t.split("/")[1] for t in s2["tags"]]
        steps = [s1, s2] + ([dict(s1)] if rng.random() < 0.3 else [])
    elif u < 0.8:
        n = rng.randint(1, min(maxn, 8))
        s1 = _n2e_case(rng, n, intdtype=False); s1["df"] = False
        s2 = _n2e_case(rng, n, intdtype=False) if rng.random() < 0.5 else dict(s1)
        s2["df"] = False; s2["order"] = rng.choice([o for o in ("zxz", "zzx", None) if o != s1["order"]])
        steps = [s1, s2]
    else:
        n = rng.randint(2, 12)
        s1 = _normals_case(rng, n); s2 = _normals_case(rng, n) if rng.random() < 0.6 else dict(s1)
        s1["oned"] = s2["oned"] = False
        s1.pop("form", None); s2.pop("form", None)     # the shared caller-owned array is a plain float ndarray
        steps = [s1, s2, dict(s1)]
    return dict(kind="seq", steps=steps)


def _big_cases(rng):
    """the upper end of the quantifier ("batches of 1..500 orientations"), in EVERY tier and in the search stream: ndarray pair batches longer than
    any chunk / block size an implementation is likely to use (257..500 rows, one of them exactly at a power-of-two boundary + 1), one with an ndarray
    first and a Rotation second, a 257..500-row batch through normals_to_euler_angles and through euler_angles_to_normals"""
    sizes = [rng.choice([257, 300, 500]), rng.randint(258, 500), rng.choice([257, 385, 500, rng.randint(258, 499)])]
    yield _pair_case(rng, sizes[0], input="ndarray")
    yield _pair_case(rng, sizes[1], input=rng.choice(["mixed", "mixed2"]))
    yield _pair_case(rng, sizes[2], input="ndarray", intdtype=True)
    c = _n2e_case(rng, rng.randint(257, 500), intdtype=False); c["df"] = False; c.pop("df_index", None)
    yield c
    c = _n2e_case(rng, rng.randint(257, 500)); c["df"] = True; c["df_index"] = rng.choice(["gaps", "dup"])
    yield c
    c = _normals_case(rng, rng.randint(257, 500)); c.pop("form", None)
    yield c


def generate(rng, tier, n):
    maxn = {"quick": 24, "thorough": 200, "search": 6}[tier]
    yield from _big_cases(rng)
    if tier == "thorough":  # all 576 ordered pairs of cube rotations, third orientation cycles
        cube = cube_eulers()
        for i in range(24):
            a = [cube[i]] * 24; b = list(cube); c = [cube[(i + 7 * j + 3) % 24] for j in range(24)]
            yield dict(kind="pair", a=_bits_rows(a), b=_bits_rows(b), c=_bits_rows(c), g=[f2b(x) for x in cube[(5 * i + 1) % 24]],
                       tags=["cube/cube"] * 24, input="ndarray" if i % 2 else "rotation", single=False, explicit=bool(i % 3), bogus="cone")
    for t in range(n):
        k = rng.random()
        if k < 0.47:
            m = 1 if rng.random() < 0.12 else rng.randint(2, maxn)
            yield _pair_case(rng, m)
        elif k < 0.515:   # H3: whole-number angles in an INTEGER-typed ndarray (a STAR/em table with integer angles is read as int64)
            yield _pair_case(rng, 1 if rng.random() < 0.1 else rng.randint(2, maxn), input=rng.choice(["ndarray", "ndarray", "mixed", "mixed2"]), intdtype=True)
        elif k < 0.52:    # sizes up to the bound the quantifier names
            yield _pair_case(rng, (rng.randint(161, 500) if rng.random() < 0.5 else rng.randint(25, 47)) if tier != "search" else rng.randint(257, 300))
        elif k < 0.56:   # many exactly antipodal z-axes / equal rotations in one batch (rare rounding events need many rows)
            yield _pair_case(rng, rng.randint(48, 160), kinds=[rng.choice(["zflip", "zflip", "equal", "antipodal"])])
        elif k < 0.64:
            yield _seq_case(rng, maxn)
        elif k < 0.66:
            yield _mismatch_case(rng)
        elif k < 0.8:
            u = rng.random()
            m = 1 if u < 0.1 else (rng.randint(2, 10) if u < 0.6 else rng.randint(11, 500 if tier != "search" else 12))
            yield _normals_case(rng, m)
        elif k < 0.97:
            u = rng.random()
            yield _n2e_case(rng, 1 if u < 0.1 else (rng.randint(2, maxn) if u < 0.97 or tier == "search" else rng.randint(201, 500)))
        else:
            yield _qmult_case(rng, rng.randint(1, 8))


def corpus():
    import glob, json, os
    out = []
    for p in sorted(glob.glob(os.path.join(core.VERIF, "corpus", PROP, "*.json"))):
        d = json.load(open(p))
        for c in (d if isinstance(d, list) else [d]):
            out.append(_decode_case(c))
    return out


def _decode_case(c):
    """corpus files may hold human-readable floats under *_f keys"""
    c = dict(c)
    for k in ("a", "b", "c", "ang", "n", "p", "q"):
        if k + "_f" in c:
            c[k] = _bits_rows(c.pop(k + "_f"))
    if "g_f" in c:
        c["g"] = [f2b(x) for x in c.pop("g_f")]
    if "steps" in c:
        c["steps"] = [_decode_case(st) for st in c["steps"]]
    c.pop("comment", None)
    return c


def shrink(case):
    k = case["kind"]
    if k == "seq":
        for st in case["steps"]:          # does one step fail on its own (then it is not a cross-call effect)?
            yield st
        if len(case["steps"]) > 2:
            for i in range(len(case["steps"])):
                yield dict(case, steps=case["steps"][:i] + case["steps"][i + 1:])
        if all(st["kind"] == "pair" for st in case["steps"]) and len(case["steps"][0]["a"]) > 1:
            for i in range(len(case["steps"][0]["a"])):
                yield dict(case, steps=[dict(st, a=[st["a"][i]], b=[st["b"][i]], c=[st["c"][i]], tags=[st["tags"][i]]) for st in case["steps"]])
        return
    if k == "pair":
        n = len(case["a"])
        if n > 8:
            # halves first; then drop a geometrically shrinking number of rows from either end, so that a failure that needs a LONG batch
            # (a chunk / block boundary) is brought down to the shortest failing length in O(log n) successful steps
            sls = [slice(0, n // 2), slice(n // 2, n)]
            k = n // 2
            while k >= 1:
                sls += [slice(0, n - k), slice(k, n)]
                k //= 2
            for sl in sls:
                yield dict(case, a=case["a"][sl], b=case["b"][sl], c=case["c"][sl], tags=case["tags"][sl], single=False)
        if case.get("dtype") != "int64" and case["input"] != "ndarray" and n > 1:
            yield dict(case, input="ndarray")
        if 1 < n <= 64:
            for i in range(n):
                yield dict(case, a=[case["a"][i]], b=[case["b"][i]], c=[case["c"][i]], tags=[case["tags"][i]], single=False)
        else:
            # snap angles to integers / simple values
            for key in ("a", "b", "c"):
                vals = [b2f(x) for x in case[key][0]]
                snapped = [float(round(v)) for v in vals]
                if snapped != vals:
                    yield dict(case, **{key: [[f2b(v) for v in snapped]]})
            gv = [b2f(x) for x in case["g"]]
            if gv != [0.0, 0.0, 0.0]:
                yield dict(case, g=[f2b(0.0)] * 3)
            if case["c"] != case["a"]:
                yield dict(case, c=case["a"])
    elif k == "normals":
        n = len(case["ang"])
        if n > 2:
            yield dict(case, ang=case["ang"][:2], oned=False)
            yield dict(case, ang=case["ang"][: n // 2], oned=False)
            yield dict(case, ang=case["ang"][n // 2:], oned=False)
            k = n // 4
            while k >= 1:
                yield dict(case, ang=case["ang"][: n - k], oned=False)
                yield dict(case, ang=case["ang"][k:], oned=False)
                k //= 2
        if case.get("form") in ("list", "tuple"):
            yield dict(case, form="ndarray")
        vals = _floats(case["ang"])
        snapped = np.round(vals)
        if not np.array_equal(snapped, vals):
            yield dict(case, ang=_bits_rows(snapped))
    elif k == "n2e":
        n = len(case["n"])
        if n > 8:
            k = n // 2
            while k >= 1:
                yield dict(case, n=case["n"][: n - k], tags=case["tags"][: n - k])
                yield dict(case, n=case["n"][k:], tags=case["tags"][k:])
                k //= 2
        if 1 < n <= 64:
            for i in range(n):
                yield dict(case, n=[case["n"][i]], tags=[case["tags"][i]])
        elif n == 1:
            v = [b2f(x) for x in case["n"][0]]
            m = max(abs(x) for x in v)
            s = [float(round(x / m)) for x in v] if m > 0 else v
            if s != v and any(s):
                yield dict(case, n=[[f2b(x) for x in s]])
            if case.get("df"):
                yield dict(case, df=False)
            if case.get("order") != "zxz":
                yield dict(case, order="zxz")
    elif k == "qmult":
        if len(case["p"]) > 1:
            for i in range(len(case["p"])):
                yield dict(case, p=[case["p"][i]], q=[case["q"][i]])


# ------------------------------------------------------------------ implementation
def _exc_obs(e):
    """G4: an exception is attributed to cryoCAT only when its traceback has a frame inside /cryocat/"""
    import traceback, os
    where = ""
    for fr in reversed(traceback.extract_tb(e.__traceback__)):
        if "/cryocat/" in fr.filename.replace("\\", "/"):
            where = f"{os.path.basename(fr.filename)}:{fr.lineno}"
            break
    return dict(error=f"{type(e).__name__}: {str(e)[:200]}", etype=type(e).__name__, where=where, in_cryocat=bool(where))


def _desc(x):
    """G3: python type / dtype / rank of what the library returned"""
    if x is None:
        return "None"
    if isinstance(x, np.ndarray):
        return f"ndarray:{x.dtype}:{x.ndim}d"
    if isinstance(x, tuple):
        return "tuple(" + ",".join(_desc(e) for e in x) + ")"
    if isinstance(x, list):
        return "list[" + ",".join(sorted({_desc(e) for e in x})) + "]"
    return type(x).__name__


def _numeric(x):
    a = np.asarray(x)
    return a.dtype.kind in "fiub"


class _Guard:
    """runs the library calls of one case: catches exceptions per call (G4), records the returned types (G3) and compares every
    caller-owned ndarray before/after each call (G2); a changed array is recorded and restored so that later calls see the intended input"""

    def __init__(self, out, arrays):
        self.out, self.arrays = out, arrays
        out.setdefault("types", {}); out.setdefault("errors", {}); out.setdefault("mutated", []); out.setdefault("nonnumeric", [])

    def call(self, key, fn):
        import io, contextlib
        snaps = {k: v.copy() for k, v in self.arrays.items()}
        buf = io.StringIO()
        try:
            with contextlib.redirect_stdout(buf):
                r = fn()
            self.out["types"][key] = _desc(r)
        except Exception as e:
            self.out["errors"][key] = _exc_obs(e)
            r = None
        if buf.getvalue():
            self.out.setdefault("printed", {})[key] = buf.getvalue()[:120]
        for k, v in self.arrays.items():
            if v.shape != snaps[k].shape or v.tobytes() != snaps[k].tobytes():
                self.out["mutated"].append(f"{key}:{k}")
                v[...] = snaps[k]
        return r

    def bits(self, key, val):
        """numeric observation as bit patterns; text/object values are recorded, never coerced"""
        if val is None:
            return None
        if not _numeric(val):
            self.out["nonnumeric"].append(f"{key}: {_desc(val)} {str(np.asarray(val).ravel()[:3].tolist())[:60]}")
            return None
        return _bl(val)


def _shared(bufs, role, vals, dtype=float):
    """G2: the caller-owned array of this role; re-used (overwritten in place) when an earlier step left one of the same shape"""
    if bufs is None:
        return np.array(vals, dtype=float).astype(dtype)
    key = (role, vals.shape)
    if key in bufs:
        bufs[key][...] = vals
    else:
        bufs[key] = np.array(vals, dtype=float)
    return bufs[key]


def _run_pair(case, geom, bufs=None):
    dt = np.int64 if case.get("dtype") == "int64" else float     # H3: whole-number angles in an integer-typed array
    A, B, C = (_shared(bufs, r, _floats(case[r]), dt) for r in ("a", "b", "c"))
    g = [b2f(x) for x in case["g"]]
    arrays = dict(a=A, b=B, c=C)
    if case.get("single"):
        A, B, C = A[0], B[0], C[0]
    rA, rB, rC, rG = _rot(A), _rot(B), _rot(C), _rot(g)
    f1, f2 = FORMS[case["input"]]          # form of the FIRST / SECOND argument of every two-argument call
    nd, ro = dict(a=A, b=B, c=C), dict(a=rA, b=rB, c=rC)
    P = lambda x, y: ((nd if f1 == "nd" else ro)[x], (nd if f2 == "nd" else ro)[y])
    iA, iB = P("a", "b")
    explicit = case.get("explicit", False)
    kw = dict(convention="zxz", degrees=True, c_symmetry=1) if explicit else {}
    kc = dict(c_symmetry=1) if explicit else {}
    out = {}
    G = _Guard(out, arrays)
    r = G.call("ab", lambda: geom.angular_distance(iA, iB, **kw))
    two = isinstance(r, tuple) and len(r) == 2
    out["ab"], out["dist_ab"] = (G.bits("ab", r[0]), G.bits("dist_ab", r[1])) if two else (None, None)
    for key, (x, y) in (("ba", P("b", "a")), ("ac", P("a", "c")), ("bc", P("b", "c")), ("aa", P("a", "a")), ("l", (rG * rA, rG * rB)), ("r", (rA * rG, rB * rG))):
        r = G.call(key, lambda: geom.angular_distance(x, y, **kw))
        out[key] = G.bits(key, r[0]) if isinstance(r, tuple) and len(r) == 2 else None
    out["cone_ab"] = G.bits("cone_ab", G.call("cone_ab", lambda: geom.cone_distance(rA, rB)))
    out["cone_ba"] = G.bits("cone_ba", G.call("cone_ba", lambda: geom.cone_distance(rB, rA)))
    out["inp_ab"] = G.bits("inp_ab", G.call("inp_ab", lambda: geom.inplane_distance(rA, rB, **kw)))
    out["inp_aa"] = G.bits("inp_aa", G.call("inp_aa", lambda: geom.inplane_distance(rA, rA, **kw)))
    ci = G.call("ci", lambda: geom.cone_inplane_distance(iA, iB, **kw))
    two = isinstance(ci, tuple) and len(ci) == 2
    out["ci_cone"], out["ci_inp"] = (G.bits("ci_cone", ci[0]), G.bits("ci_inp", ci[1])) if two else (None, None)
    # compare_rotations: every rotation_type, the keyword omitted (default) or given, and an unsupported value
    cr = G.call("cr_all", (lambda: geom.compare_rotations(iA, iB, rotation_type="all", **kc)) if explicit else (lambda: geom.compare_rotations(iA, iB)))
    three = isinstance(cr, tuple) and len(cr) == 3
    out["cr_all"] = [G.bits(f"cr_all[{i}]", np.atleast_1d(cr[i])) for i in range(3)] if three else None
    for t in RTYPES:
        r = G.call("cr_" + t, lambda: geom.compare_rotations(iA, iB, rotation_type=t, **kc))
        out["cr_" + t] = G.bits("cr_" + t, np.atleast_1d(r)) if r is not None and not isinstance(r, tuple) else None
    r = G.call("cr_bogus", lambda: geom.compare_rotations(iA, iB, rotation_type=case.get("bogus", "cone"), **kc))
    out["cr_bogus"] = out["errors"].pop("cr_bogus", None) or dict(returned=out["types"].get("cr_bogus"))
    # observations of the library services the model relies on / independent evaluations of the statement (scipy only)
    out["phiA"] = _bl(np.array(rA.as_euler("zxz", degrees=True), ndmin=2)[:, 0])
    out["phiB"] = _bl(np.array(rB.as_euler("zxz", degrees=True), ndmin=2)[:, 0])
    out["mag"] = _bl(np.degrees(np.atleast_1d((rA.inv() * rB).magnitude())))
    zA = np.array(rA.apply([0, 0, 1.0]), ndmin=2); zB = np.array(rB.apply([0, 0, 1.0]), ndmin=2)
    out["zang"] = _bl(np.degrees(np.arctan2(np.linalg.norm(np.cross(zA, zB), axis=1), np.sum(zA * zB, axis=1))))
    out["qA"] = _bits_rows(np.array(rA.as_quat(), ndmin=2))
    out["qGA"] = _bits_rows(np.array((rG * rA).as_quat(), ndmin=2))
    out["qAG"] = _bits_rows(np.array((rA * rG).as_quat(), ndmin=2))
    return out


def _run_normals(case, geom, bufs=None):
    form = case.get("form", "ndarray")
    ang = _shared(bufs, "ang", _floats(case["ang"]), np.int64 if form == "int64" else float)
    arg = ang[0] if case.get("oned") else ang
    if form == "list":       # H3: array-like argument (nested list / tuple of tuples), as scipy's from_euler accepts
        arg = arg.tolist()
    elif form == "tuple":
        arg = tuple(arg.tolist()) if case.get("oned") else tuple(tuple(r) for r in arg.tolist())
    out = {}
    G = _Guard(out, dict(angles=ang))
    res = G.call("normals", lambda: geom.euler_angles_to_normals(arg))
    z = np.array(_rot(_floats(case["ang"])).apply([0, 0, 1.0]), ndmin=2)
    out["z"] = _bits_rows(z)
    if res is None or not _numeric(res):
        if res is not None:
            out["nonnumeric"].append(f"normals: {_desc(res)}")
        out["shape"], out["rows"] = [], []
        return out
    res = np.asarray(res)
    out["shape"] = list(res.shape)
    out["rows"] = _bits_rows(res.reshape(-1, 3)) if res.ndim == 2 and res.shape[1] == 3 else []
    return out


def _run_n2e(case, geom, bufs=None):
    import pandas as pd
    nv = _shared(bufs, "n", _floats(case["n"]), np.int64 if case.get("dtype") == "int64" else float)
    arg = pd.DataFrame(nv, columns=["x", "y", "z"]) if case.get("df") else nv
    if case.get("df"):  # extra columns in another order must not matter; nor must the row labels (H3: gaps, duplicates, reversed, text)
        arg = arg.assign(extra=1.0)[["z", "extra", "y", "x"]]
        n = len(nv); how = case.get("df_index", "default")
        if how == "gaps":
            arg.index = [3 * i + 5 for i in range(n)]
        elif how == "dup":
            arg.index = [i // 2 for i in range(n)]
        elif how == "reversed":
            arg.index = list(range(n - 1, -1, -1))
        elif how == "text":
            arg.index = [f"p{i % 3}" for i in range(n)]
    order = case.get("order", "zxz")
    out = {}
    G = _Guard(out, dict(normals=nv))
    with np.errstate(all="ignore"):
        res = G.call("n2e", (lambda: geom.normals_to_euler_angles(arg)) if order is None else (lambda: geom.normals_to_euler_angles(arg, output_order=order)))
    if res is None or not _numeric(res):
        if res is not None:
            out["nonnumeric"].append(f"n2e: {_desc(res)}")
        out["shape"], out["ang"] = [], []
        return out
    res = np.asarray(res)
    out["shape"] = list(res.shape)
    if res.ndim != 2 or res.shape != (len(nv), 3):
        out["ang"] = []
        return out
    res = res.astype(float)
    out["raw"] = _bits_rows(res)
    # DOCUMENTED column order: "zzx" is (phi, psi, theta), everything else (phi, theta, psi)
    zxz = res if order != "zzx" else res[:, [0, 2, 1]]
    ok = ~np.isnan(zxz).any(axis=1)
    z = np.full((len(nv), 3), np.nan)
    if ok.any():
        z[ok] = np.array(_rot(zxz[ok]).apply([0, 0, 1.0]), ndmin=2)
    out["ang"], out["z"] = _bits_rows(zxz), _bits_rows(z)
    return out


def _run_mismatch(case, geom):
    A, B = _floats(case["a"]), _floats(case["b"])
    iA, iB = (A, B) if case["input"] == "ndarray" else (_rot(A), _rot(B))
    out = {}
    G = _Guard(out, dict(a=A, b=B))
    r = G.call("mismatch", lambda: geom.angular_distance(iA, iB))
    out["returned"] = _desc(r) if "mismatch" not in out["errors"] else None
    return out


def _run_one(case, geom, bufs=None):
    k = case["kind"]
    if k == "pair":
        return _run_pair(case, geom, bufs)
    if k == "normals":
        return _run_normals(case, geom, bufs)
    if k == "n2e":
        return _run_n2e(case, geom, bufs)
    if k == "mismatch":
        return _run_mismatch(case, geom)
    if k == "qmult":
        return dict(r=_bits_rows(geom.quaternion_mult(_floats(case["p"]), _floats(case["q"]))))
    raise ValueError(k)


def run_impl(case):
    import warnings
    warnings.filterwarnings("ignore")
    from cryocat import geom
    if case["kind"] == "seq":
        bufs = {}
        return dict(steps=[_run_one(st, geom, bufs) for st in case["steps"]])
    return _run_one(case, geom)


def _requests_one(case, obs):
    k = case["kind"]
    if k == "pair":
        a, b, c, g = case["a"], case["b"], case["c"], case["g"]
        n = len(a)
        # python types of the FIRST / SECOND argument: the model looks them up in the regenerated isinstance dispatch of angular_distance
        ty = {"nd": "np.ndarray", "rot": "Rotation"}
        fm = [ty[x] for x in FORMS[case["input"]]]
        rr = ["Rotation", "Rotation"]
        reqs = [dict(op="dist", a=a, b=b, forms=fm), dict(op="dist", a=b, b=a, forms=fm), dict(op="dist", a=a, b=c, forms=fm), dict(op="dist", a=b, b=c, forms=fm),
                dict(op="dist", a=a, b=b, g=g, side="left", forms=rr), dict(op="dist", a=a, b=b, g=g, side="right", forms=rr), dict(op="dist", a=a, b=a, forms=fm),
                dict(op="inplane", p1=obs["phiA"], p2=obs["phiB"]),
                dict(op="inplane", p1=[r[0] for r in a], p2=[r[0] for r in b])]
        nan = f2b(float("nan"))
        rows = []
        for i in range(n):
            rows.append([obs[key][i] if obs.get(key) is not None and i < len(obs[key]) else nan for key in ("ab", "ba", "ac", "bc", "l", "r")])
        tight = [dict(op="check", obs=rows, tol=f2b(TOL_LOOSE)), dict(op="check", obs=rows, tol=f2b(TOL_TIGHT))]
        cmp_ = [dict(op="compare", a=a, b=b, p1=obs["phiA"], p2=obs["phiB"], forms=fm,
                     types=[("all" if case.get("explicit") else None)] + RTYPES + [case.get("bogus", "cone")])]
        return reqs + tight + cmp_
    if k == "normals":
        return [dict(op="normals", ang=case["ang"])]
    if k == "n2e":
        r = dict(op="n2e", n=case["n"], pytype="pd.DataFrame" if case.get("df") else "np.ndarray")
        if case.get("order", "zxz") is not None:
            r["order"] = case.get("order", "zxz")
        return [r] + ([dict(op="zaxis", ang=[[b if b2f(b) == b2f(b) else f2b(0.0) for b in row] for row in obs["ang"]])] if obs.get("ang") else [])
    if k == "mismatch":
        return [dict(op="distbatch", a=case["a"], b=case["b"])]
    if k == "qmult":
        return [dict(op="qmult", p=case["p"], q=case["q"])]
    return []


def requests(case, obs):
    if "error" in obs:
        return []
    if case["kind"] == "seq":
        out = []
        for st, o in zip(case["steps"], obs["steps"]):
            out += _requests_one(st, o)
        return out
    return _requests_one(case, obs)


def _ang_close(a_impl, a_model):
    """angles in degrees from 2*acos: equal within 1e-9 deg or within 1e-13 in the cosine of the half angle"""
    if math.isnan(a_impl) or math.isnan(a_model):
        return False
    if abs(a_impl - a_model) <= TOL_TIGHT:
        return True
    return abs(math.cos(math.radians(a_impl) / 2) - math.cos(math.radians(a_model) / 2)) <= TOL_COS


def _cone_close(a_impl, a_model):
    if math.isnan(a_impl) or math.isnan(a_model):
        return False
    if abs(a_impl - a_model) <= TOL_TIGHT:
        return True
    return abs(math.cos(math.radians(a_impl)) - math.cos(math.radians(a_model))) <= TOL_COS


def _ang_is_mag(v, mag):
    """angular distance vs the rotation angle of the relative rotation (scipy magnitude of a^-1 b: independent of code and model)"""
    return _ang_close(v, mag) or abs(v - mag) <= (TOL_LOOSE if mag < DEG_NEAR else 1e-7)


def _cone_is_zang(v, zang):
    return _cone_close(v, zang) or abs(v - zang) <= 2e-6


def _equal_tol(theta):
    """in-plane distance of ONE rotation written as two Euler triples: 1e-9 deg; phi read back by as_euler is conditioned like 1/sin(theta)
    (inplane_le_of_close turns a phi deviation e into a distance <= e + 2 tol), exact gimbal lock is handled by scipy's own branch"""
    if theta % 180.0 == 0.0:
        return TOL_TIGHT
    return min(1e-4, max(TOL_TIGHT, 1e-12 / abs(math.sin(math.radians(theta)))))


def _common_findings(obs, expected_errors=()):
    """G4 exception attribution, G2 caller-owned inputs, G3 returned types -- shared by every case kind"""
    out = []
    for key, e in obs.get("errors", {}).items():
        if key in expected_errors:
            continue
        if e.get("in_cryocat"):
            out.append(dict(kind="spec", clause="raises", detail=f"{key}: {e['error']} @{e['where']}"))
        else:
            out.append(dict(kind="corr", clause="harness-or-library-raised", detail=f"{key}: {e['error']} (no frame inside cryocat/)"))
    for m in obs.get("mutated", [])[:1]:
        # the statement is silent about the caller's arrays and about result dtypes: deviations from the documented behaviour, not clauses (corr)
        out.append(dict(kind="corr", clause="input-mutated", detail=f"the call {m.split(':')[0]} changed the caller's array `{m.split(':')[1]}` in place ({len(obs['mutated'])} call(s) did)"))
    for m in obs.get("nonnumeric", [])[:1]:
        out.append(dict(kind="corr", clause="returns-non-numeric", detail=f"a numeric result came back as text/object: {m}"))
    return out


PAIR_TYPES = {"ab": "tuple(ndarray:float64:1d,ndarray:float64:1d)", "cone_ab": "ndarray:float64:1d", "inp_ab": "ndarray:float64:1d",
              "ci": "tuple(ndarray:float64:1d,ndarray:float64:1d)", "cr_all": "tuple(ndarray:float64:1d,ndarray:float64:1d,ndarray:float64:1d)",
              "cr_angular_distance": "ndarray:float64:1d", "cr_cone_distance": "ndarray:float64:1d", "cr_in_plane_distance": "ndarray:float64:1d"}


def _judge_pair(case, obs, resps):
    out = _common_findings(obs)
    if out:
        return out
    n = len(case["a"])
    names = ("ab", "ba", "ac", "bc", "l", "r", "aa")
    vec_keys = names + ("cone_ab", "cone_ba", "inp_ab", "inp_aa", "ci_cone", "ci_inp", "dist_ab") + tuple("cr_" + t for t in RTYPES)
    for key in vec_keys:
        if obs.get(key) is None or len(obs[key]) != n:
            return [dict(kind="spec", clause="shape", detail=f"{key}: {None if obs.get(key) is None else len(obs[key])} values for {n} pairs (returned {obs['types'].get(key.split('[')[0])})")]
    if obs.get("cr_all") is None or any(x is None or len(x) != n for x in obs["cr_all"]):
        return [dict(kind="spec", clause="shape", detail=f"compare_rotations(rotation_type='all'/default) returned {obs['types'].get('cr_all')} for {n} pairs")]
    F = lambda key: _fl(obs[key])
    m = {nm: resps[i] for i, nm in enumerate(names)}
    for nm in names:
        if "error" in m[nm]:
            return [dict(kind="corr", clause="driver", detail=str(m[nm]))]
    model = {nm: _fl(m[nm]["ang"]) for nm in names}
    impl = {nm: F(nm) for nm in names}
    mab = model["ab"]
    A, B = _floats(case["a"]), _floats(case["b"])
    mag, zang = _fl(obs["mag"]), _fl(obs["zang"])
    cr_all = [_fl(x) for x in obs["cr_all"]]
    how = "rotation_type='all'" if case.get("explicit") else "rotation_type omitted"
    ang_views = [("angular_distance", impl["ab"]), (f"compare_rotations({how})[0]", cr_all[0]), ("compare_rotations(rotation_type='angular_distance')", F("cr_angular_distance"))]
    cone_views = [("cone_distance(a,b)", F("cone_ab")), ("cone_distance(b,a)", F("cone_ba")), ("cone_inplane_distance[0]", F("ci_cone")),
                  (f"compare_rotations({how})[1]", cr_all[1]), ("compare_rotations(rotation_type='cone_distance')", F("cr_cone_distance"))]
    inp_views = [("inplane_distance", F("inp_ab")), ("cone_inplane_distance[1]", F("ci_inp")), (f"compare_rotations({how})[2]", cr_all[2]),
                 ("compare_rotations(rotation_type='in_plane_distance')", F("cr_in_plane_distance"))]
    # ---- spec: range, NaN
    for nm in names:
        for i in range(n):
            v = impl[nm][i]
            if math.isnan(v):
                out.append(dict(kind="spec", clause="angdist-nan", detail=f"angular_distance[{nm}] row {i} is NaN (model {model[nm][i]:.3e} deg); a={A[i].tolist()} b={B[i].tolist()}"))
                return out
            if not (0.0 <= v <= 180.0):
                out.append(dict(kind="spec", clause="angdist-range", detail=f"{nm} row {i}: {v}")); return out
    for i in range(n):
        loose = mab[i] < DEG_NEAR or model["ac"][i] < DEG_NEAR or model["bc"][i] < DEG_NEAR
        tol = TOL_LOOSE if loose else TOL_TIGHT
        chk = resps[9] if loose else resps[10]
        row = chk[i] if isinstance(chk, list) else None
        if not isinstance(row, list):
            out.append(dict(kind="corr", clause="checker", detail=str(chk)[:200])); return out
        rng_ok, sym_ok, tri_ok, l_ok, r_ok = row     # decided by the Lean verified checker (checkMetric_components)
        d = dict(ab=float(impl["ab"][i]), ba=float(impl["ba"][i]), ac=float(impl["ac"][i]), bc=float(impl["bc"][i]), l=float(impl["l"][i]), r=float(impl["r"][i]))
        ctx = f"row {i} ({case['tags'][i]}): a={A[i].tolist()} b={B[i].tolist()} dists={d} tol={tol}"
        if not rng_ok:
            out.append(dict(kind="spec", clause="angdist-range", detail=ctx))
        if not sym_ok:
            out.append(dict(kind="spec", clause="angdist-symmetric", detail=ctx))
        if not tri_ok:
            out.append(dict(kind="spec", clause="angdist-triangle", detail=ctx))
        if not l_ok:
            out.append(dict(kind="spec", clause="angdist-left-invariant", detail=ctx))
        if not r_ok:
            out.append(dict(kind="spec", clause="angdist-right-invariant", detail=ctx))
        # zero for equal rotations
        if impl["aa"][i] > TOL_LOOSE:
            out.append(dict(kind="spec", clause="angdist-zero-for-equal", detail=f"d(a,a)={impl['aa'][i]} {ctx}"))
        kind = case["tags"][i].split("/")[0]
        for label, v in ang_views:
            if math.isnan(v[i]) or not (0.0 <= v[i] <= 180.0):
                out.append(dict(kind="spec", clause="angdist-range", detail=f"{label} = {v[i]}: {ctx}")); break
            if kind == "equal" and v[i] > TOL_LOOSE:
                out.append(dict(kind="spec", clause="angdist-zero-for-equal", detail=f"{label} = {v[i]} for the same rotation written as two Euler triples: {ctx}")); break
            if mag[i] > 1e-3 and not v[i] > 0:
                out.append(dict(kind="spec", clause="angdist-zero-only-for-equal", detail=f"{label}: relative rotation angle {mag[i]} but distance {v[i]}: {ctx}")); break
            # equals the rotation angle of the relative rotation (independent: scipy magnitude of a^-1 b)
            if not _ang_is_mag(v[i], mag[i]):
                out.append(dict(kind="spec", clause="angdist-is-relative-rotation-angle", detail=f"{label} = {v[i]} but |a^-1 b| = {mag[i]} deg: {ctx}")); break
        if out:
            return out
    # ---- cone: every entry point that returns a cone distance, against the angle between the two z-axes (scipy apply + atan2)
    for label, v in cone_views:
        for i in range(n):
            if math.isnan(v[i]) or not (0 <= v[i] <= 180):
                out.append(dict(kind="spec", clause="cone-range", detail=f"{label} row {i} ({case['tags'][i]}): {v[i]} (angle between the z-axes: {zang[i]}); a={A[i].tolist()} b={B[i].tolist()}")); return out
            if not _cone_is_zang(v[i], zang[i]):
                out.append(dict(kind="spec", clause="cone-is-angle-between-z-axes", detail=f"{label} row {i}: {v[i]} vs angle(z_a,z_b)={zang[i]}; a={A[i].tolist()} b={B[i].tolist()}")); return out
    # ---- in-plane: range; vanishes for equal orientations (same object AND same rotation written differently)
    for label, v in inp_views:
        for i in range(n):
            if math.isnan(v[i]) or not (0 <= v[i] <= 180):
                out.append(dict(kind="spec", clause="inplane-range", detail=f"{label} row {i}: {v[i]}")); return out
            if case["tags"][i].split("/")[0] == "equal" and v[i] > _equal_tol(A[i][1]):
                out.append(dict(kind="spec", clause="inplane-zero-for-equal",
                                detail=f"{label} row {i}: {v[i]} for the same rotation given as a={A[i].tolist()} and b={B[i].tolist()} (input form {case['input']}; as_euler phi {b2f(obs['phiA'][i])}, {b2f(obs['phiB'][i])})")); return out
    for i in range(n):
        if F("inp_aa")[i] != 0.0:
            out.append(dict(kind="spec", clause="inplane-zero-for-equal", detail=f"row {i}: inplane(a,a)={F('inp_aa')[i]} a={A[i].tolist()}")); return out
    # ---- G3: numeric but not the documented float64 arrays
    for key, exp in PAIR_TYPES.items():
        got = obs["types"].get(key)
        if got != exp:
            out.append(dict(kind="corr", clause="return-type-vs-documented", detail=f"{key}: returned {got}, documented/modelled {exp}")); return out
    # ---- correspondence with the model
    for nm in names:
        for i in range(n):
            if not _ang_close(impl[nm][i], model[nm][i]):
                out.append(dict(kind="corr", clause="angdist-vs-model", detail=f"{nm} row {i}: impl {impl[nm][i]!r} model {model[nm][i]!r}")); return out
    d2i, d2m, d2s = F("dist_ab"), _fl(m["ab"]["dist2"]), _fl(m["ab"]["dist2s"])    # dist2s: the regenerated expression incl. the snap below 1e-7
    for i in range(n):
        exp = d2s[i]
        if abs(d2i[i] - exp) > 1e-12 and not (abs(d2m[i] - 10e-8) < 1e-12):
            out.append(dict(kind="corr", clause="dist2-vs-model", detail=f"row {i}: impl {d2i[i]} model {d2m[i]}")); return out
    cone_m = _fl(m["ab"]["cone"])
    for label, v in cone_views:
        for i in range(n):
            if not _cone_close(v[i], cone_m[i]) and abs(v[i] - cone_m[i]) > 2e-6:
                out.append(dict(kind="corr", clause="cone-vs-model", detail=f"{label} row {i}: impl {v[i]} model {cone_m[i]}")); return out
    for key in ("phiA", "phiB"):   # library assumption behind inplane_range: as_euler returns phi in [-180, 180]
        v = F(key)
        if len(v) != n or not all(-180.0 <= x <= 180.0 for x in v):
            out.append(dict(kind="corr", clause="as_euler-phi-range", detail=f"{key}: {v.tolist()[:5]}")); return out
    inp_m = resps[7].get("d"); inp_in = _fl(resps[8]["d"]) if "d" in resps[8] else None
    for label, v in inp_views:
        if inp_m is None or not np.array_equal(v, _fl(inp_m)):   # exact float equality (0.0 == -0.0)
            bad = next((i for i in range(n) if inp_m is None or v[i] != b2f(inp_m[i])), 0)
            out.append(dict(kind="corr", clause="inplane-vs-model", detail=f"{label} row {bad}: impl {v[bad]} model {b2f(inp_m[bad]) if inp_m else None} (phi {b2f(obs['phiA'][bad])}, {b2f(obs['phiB'][bad])})")); return out
    for i in range(n):
        # canonical, non-gimbal inputs: as_euler returns the input phi, so the model on the INPUT angles must agree
        can = lambda e: -180 < e[0] < 180 and 1e-3 < e[1] < 180 - 1e-3 and -180 <= e[2] <= 180
        if inp_in is not None and can(A[i]) and can(B[i]):
            dlt = abs(F("inp_ab")[i] - inp_in[i])
            if min(dlt, 360 - dlt) > 1e-8:
                out.append(dict(kind="corr", clause="inplane-is-phi-difference", detail=f"row {i}: impl {F('inp_ab')[i]} vs folded |phi_a-phi_b| {inp_in[i]}; a={A[i].tolist()} b={B[i].tolist()}")); return out
    # ---- compare_rotations against the model's dispatch table (regenerated from the source), every rotation_type
    cm = resps[11]
    if not isinstance(cm, list) or len(cm) != 5:
        out.append(dict(kind="corr", clause="driver", detail=str(cm)[:200])); return out
    impl_sets = [[cr_all[0], cr_all[1], cr_all[2]], [F("cr_angular_distance")], [F("cr_cone_distance")], [F("cr_in_plane_distance")]]
    roles = [["ang", "cone", "inp"], ["ang"], ["cone"], ["inp"]]
    for t, (label, got, rl, mod) in enumerate(zip([how] + RTYPES, impl_sets, roles, cm[:4])):
        if mod is None or len(mod) != n or any(len(r) != len(rl) for r in mod):
            out.append(dict(kind="corr", clause="compare_rotations-vs-model", detail=f"{label}: model returns {str(mod)[:80]} (dispatch table of the source changed?)")); return out
        for j, role in enumerate(rl):
            for i in range(n):
                mv = b2f(mod[i][j])
                ok = _ang_close(got[j][i], mv) if role == "ang" else ((_cone_close(got[j][i], mv) or abs(got[j][i] - mv) <= 2e-6) if role == "cone" else got[j][i] == mv)
                if not ok:
                    out.append(dict(kind="corr", clause="compare_rotations-vs-model", detail=f"compare_rotations({label}) value {j} ({role}) row {i}: impl {got[j][i]} model {mv}")); return out
    bg = obs.get("cr_bogus") or {}
    if cm[4] is not None or bg.get("etype") != "UserInputError" or not bg.get("in_cryocat"):
        out.append(dict(kind="corr", clause="compare_rotations-unsupported-type", detail=f"rotation_type={case.get('bogus')!r}: documented UserInputError; implementation: {bg}; model: {'error' if cm[4] is None else 'value'}"))
    return out


def _judge_normals(case, obs, resps):
    out = _common_findings(obs)
    if out:
        return out
    n = len(case["ang"])
    if obs["shape"] != [n, 3]:
        return [dict(kind="spec", clause="normals-one-per-orientation", detail=f"shape {obs['shape']} for {n} orientations")]
    rows = _floats(obs["rows"]); z = _floats(obs["z"])
    m = resps[0]
    if "error" in m:
        return [dict(kind="corr", clause="driver", detail=str(m))]
    mrows = _floats(m["rows"]); mz = _floats(m["z"])
    nr = np.linalg.norm(rows, axis=1)
    ang = _floats(case["ang"])
    for i in range(n):
        if not abs(nr[i] - 1) <= TOL_VEC:
            asis = np.linalg.norm(_floats(m["asis"])[i])
            return [dict(kind="spec", clause="normals-unit", detail=f"row {i} of {n}: length {nr[i]!r} (Frobenius-norm model gives {asis!r}); angles={ang[i].tolist()}")]
    dz = np.abs(rows - z).max(axis=1)
    for i in range(n):
        if not dz[i] <= TOL_VEC:
            return [dict(kind="spec", clause="normals-is-z-axis-image", detail=f"row {i}: {rows[i].tolist()} vs R(0,0,1)={z[i].tolist()}; angles={ang[i].tolist()}")]
    if obs["types"].get("normals") != "ndarray:float64:2d":
        return [dict(kind="corr", clause="return-type-vs-documented", detail=f"euler_angles_to_normals returned {obs['types'].get('normals')}, documented ndarray (n,3) of floats")]
    if not np.abs(mz - z).max() <= TOL_VEC:
        i = int(np.abs(mz - z).max(axis=1).argmax())
        return [dict(kind="corr", clause="zaxis-scipy-vs-model", detail=f"row {i}: scipy {z[i].tolist()} model {mz[i].tolist()} angles={ang[i].tolist()}")]
    if not np.abs(mrows - rows).max() <= TOL_VEC:
        i = int(np.abs(mrows - rows).max(axis=1).argmax())
        return [dict(kind="corr", clause="normals-vs-model", detail=f"row {i}: impl {rows[i].tolist()} model {mrows[i].tolist()}")]
    return []


def _judge_n2e(case, obs, resps):
    out = _common_findings(obs)
    if out:
        return out
    n = len(case["n"])
    if obs["shape"] != [n, 3] or not obs.get("ang"):
        return [dict(kind="spec", clause="n2e-one-per-normal", detail=f"shape {obs['shape']} for {n} normals")]
    nv = _floats(case["n"])
    zero = np.array([t == "zero" for t in case["tags"]])
    # scaled normalisation (independent of the code's own arithmetic; exact scaling by the largest component first)
    with np.errstate(all="ignore"):
        s = np.abs(nv).max(axis=1, keepdims=True)
        u = nv / s; u = u / np.linalg.norm(u, axis=1, keepdims=True)
    ang = _floats(obs["ang"]); z = _floats(obs["z"])
    m = resps[0]
    if "error" in m or "error" in resps[1]:
        return [dict(kind="corr", clause="driver", detail=str(m)[:200])]
    if "raises" in m:    # the regenerated input dispatch of the model rejects a type the implementation accepted
        return [dict(kind="corr", clause="n2e-input-dispatch-vs-model", detail=f"input of type {'pd.DataFrame' if case.get('df') else 'np.ndarray'}: model {m['raises']!r}, implementation returned angles")]
    zl = _floats(resps[1]["z"])   # Lean zxz model (zaxisOfEuler) applied to the implementation's angles
    # C06-K1 (H5, exact rule): the row is WRONG (NaN angle, or z-axis off per Lean AND scipy) AND its squared length x*x+y*y+z*z overflows or is
    # not a normal double AND the returned (theta, psi) are the ones the K1 mechanism produces (_k1_prediction: norm -> inf / 0 / few-bit subnormal).
    # A wrong row in that range with ANY OTHER result is a new defect and stays unlisted. K1 rows are set aside; EVERY other row of the batch -- and the column order, the return type and the model
    # comparison of the case -- is judged as usual; the K1 finding is reported only when nothing unlisted is found.
    k1 = []
    k1rows = np.zeros(n, dtype=bool)
    for i in range(n):
        if zero[i]:
            continue
        state = _sumsq_state(nv[i])
        bad = None
        if np.isnan(ang[i]).any():
            bad = f"row {i}: normal {nv[i].tolist()} -> angles {ang[i].tolist()}"
        elif not np.abs(zl[i] - u[i]).max() <= TOL_VEC and not np.abs(z[i] - u[i]).max() <= TOL_VEC:   # Lean evaluation AND scipy evaluation agree it is off
            bad = (f"row {i} ({case['tags'][i]}): normal {nv[i].tolist()} -> angles (phi,theta,psi)={ang[i].tolist()} whose z-axis is {zl[i].tolist()}, "
                   f"expected the normalised normal {u[i].tolist()}")
        if bad and state != "ok" and all(_same_angle(g, w) for g, w in zip(ang[i][1:3], _k1_prediction(nv[i]))):
            # its own clause name: the shrinker keeps (kind, clause) fixed, so an unlisted failure can never be "shrunk" into a row of the known finding
            k1.append(dict(kind="spec", clause="n2e-zaxis-is-normalised-normal[squared-length-outside-binary64]", known="C06-K1",
                           detail=bad + f" [x*x+y*y+z*z {state}s in binary64: np.linalg.norm gives {'inf' if state == 'overflow' else '0 or a subnormal'}]"))
            k1rows[i] = True
            continue
        if bad:
            if state != "ok":
                bad += (f" [x*x+y*y+z*z {state}s in binary64, but this is NOT the result known finding C06-K1 explains: the overflow/underflow of the norm gives "
                        f"(theta, psi) = {_k1_prediction(nv[i])}]")
            return [dict(kind="spec", clause="n2e-zaxis-is-normalised-normal", detail=bad)]
        if state == "ok" and not (0 <= ang[i][0] < 360):
            return [dict(kind="corr", clause="n2e-phi-range", detail=f"row {i}: phi {ang[i][0]}")]
    if obs["types"].get("n2e") != "ndarray:float64:2d":
        return [dict(kind="corr", clause="return-type-vs-documented", detail=f"normals_to_euler_angles returned {obs['types'].get('n2e')}, documented ndarray (n,3)")]
    live = ~zero & ~k1rows & ~np.isnan(ang).any(axis=1)
    if live.any() and not np.abs(zl[live] - z[live]).max() <= TOL_VEC:
        i = int(np.nanargmax(np.where(live, np.abs(zl - z).max(axis=1), -1)))
        return [dict(kind="corr", clause="zaxis-scipy-vs-model", detail=f"row {i}: scipy {z[i].tolist()} model {zl[i].tolist()} angles={ang[i].tolist()}")]
    # column order: the model reads it off the regenerated table
    cols = m.get("cols")
    raw = _floats(obs["raw"])
    want = ["phi", "psi", "theta"] if case.get("order", "zxz") == "zzx" else ["phi", "theta", "psi"]
    if cols != want:
        return [dict(kind="corr", clause="n2e-column-order-vs-model", detail=f"output_order={case.get('order')!r}: model columns {cols}, documented {want}")]
    th, ps = _fl(m["theta"]), _fl(m["psi"])
    mz = _floats(m["z"])
    for i in range(n):
        if zero[i]:   # outside the statement; the model (0/0) and the code agree on NaN
            if not (math.isnan(ang[i][1]) and math.isnan(th[i])):
                return [dict(kind="corr", clause="n2e-zero-normal-vs-model", detail=f"row {i}: zero normal -> impl theta {ang[i][1]}, model {th[i]}")]
            continue
        if k1rows[i]:
            continue
        dps = abs(ang[i][2] - ps[i]); dps = min(dps, abs(360 - dps))
        near_pole = math.hypot(u[i][0], u[i][1]) < 1e-6
        if abs(ang[i][1] - th[i]) > 1e-8 or (dps > 1e-8 and not near_pole):
            return [dict(kind="corr", clause="n2e-angles-vs-model", detail=f"row {i}: normal {nv[i].tolist()} impl theta,psi={ang[i][1]},{ang[i][2]} model {th[i]},{ps[i]}")]
        if _sumsq_state(nv[i]) == "ok" and not np.abs(mz[i] - u[i]).max() <= TOL_VEC:   # (outside: binary64 is not the ordered field of n2e_zaxis, see C06-K1)
            return [dict(kind="corr", clause="n2e-model-zaxis", detail=f"row {i}: model z-axis {mz[i].tolist()} expected {u[i].tolist()}")]
    return k1[:1]


def _judge_mismatch(case, obs, resps):
    out = _common_findings(obs)
    if out:
        return out
    mod = resps[0].get("ang", "missing")
    if obs.get("returned") != "None" or mod is not None:
        return [dict(kind="corr", clause="shape-mismatch-vs-model", detail=f"batches of {len(case['a'])} and {len(case['b'])} rotations: implementation returned {obs.get('returned')}, "
                     f"model {'None' if mod is None else 'values'} (documented: prints a message and returns None)")]
    return []


def _judge_one(case, obs, resps):
    k = case["kind"]
    if k == "pair":
        return _judge_pair(case, obs, resps)
    if k == "normals":
        return _judge_normals(case, obs, resps)
    if k == "n2e":
        return _judge_n2e(case, obs, resps)
    if k == "mismatch":
        return _judge_mismatch(case, obs, resps)
    if k == "qmult":
        r, mr = _floats(obs["r"]), _floats(resps[0]["r"])
        if not np.abs(r - mr).max() <= 1e-13 * max(1.0, np.abs(mr).max()):
            return [dict(kind="corr", clause="quaternion_mult-vs-qmul", detail=f"impl {r.tolist()} model {mr.tolist()}")]
    return []


def judge(case, obs, resps):
    if "error" in obs:   # raised outside the guarded library calls: G4 attribution by the framework's `where`
        if obs.get("where"):
            return [dict(kind="spec", clause="raises", detail=obs["error"] + " @" + obs.get("where", "") + f" kind={case['kind']}")]
        return [dict(kind="corr", clause="harness-or-library-raised", detail=obs["error"] + f" (no frame inside cryocat/) kind={case['kind']}")]
    if case["kind"] == "seq":
        out, k = [], 0
        for j, (st, o) in enumerate(zip(case["steps"], obs["steps"])):
            w = len(_requests_one(st, o))
            for f in _judge_one(st, o, resps[k:k + w]):   # every call of the sequence is judged as strictly as a first call
                out.append(dict(f, detail=f"[call sequence on the same caller-owned arrays, step {j + 1} of {len(case['steps'])}] " + f.get("detail", "")))
            k += w
            if out:
                return out
        return out
    return _judge_one(case, obs, resps)


def nontrivial(case, obs):
    if "error" in obs:
        return False
    k = case["kind"]
    if k == "seq":
        return True
    if k == "pair":
        return len(case["a"]) >= 2 and (len({t.split("/")[0] for t in case["tags"]}) >= 2 or len(case["a"]) >= 48)
    if k == "normals":
        return len(case["ang"]) >= 2
    if k == "n2e":
        return any(t.startswith("axis") or t in ("y0", "x0", "nearz") for t in case["tags"])
    return k == "mismatch"


def _bucket(v, edges, labels):
    for e, l in zip(edges, labels):
        if v <= e:
            return l
    return labels[-1]


def _stats_one(case, obs, resps, st):
    k = case["kind"]
    if k == "pair":
        n = len(case["a"])
        st.setdefault("pair_batch", []).append("1" if n == 1 else ("2-8" if n <= 8 else ("9-24" if n <= 24 else ("25-256" if n <= 256 else "257-500"))))
        st.setdefault("pair_dtype", []).append(case.get("dtype", "float64"))
        st.setdefault("pair_row_kind", []).extend(t.split("/")[0] for t in case["tags"])
        st.setdefault("third_kind", []).extend(t.split("/")[1] for t in case["tags"])
        st.setdefault("input_form", []).append(case["input"] + ("-single" if case.get("single") else ""))
        st.setdefault("optional_keywords", []).append("given explicitly" if case.get("explicit") else "omitted (library defaults)")
        st.setdefault("compare_rotations_types", []).extend(["all" if case.get("explicit") else "<omitted>"] + RTYPES + ["unsupported:" + repr(case.get("bogus", "cone"))])
        st.setdefault("returned_types", []).extend(sorted(set(obs.get("types", {}).values())))
        if resps and isinstance(resps[0], dict) and "ang" in resps[0] and obs.get("ab") is not None:
            ma = _fl(resps[0]["ang"]); ia = _fl(obs["ab"])
            st.setdefault("distance_deg", []).extend(_bucket(v, [1e-6, 0.1, 10, 90, 179.9, 180], ["<=1e-6", "<=0.1", "<=10", "<=90", "<180", "180"]) for v in ma)
            dev = float(np.nanmax(np.abs(ma - ia))) if len(ma) == len(ia) else float("nan")
            st.setdefault("max_abs_dev_ang_deg", []).append(_bucket(dev, [0, 1e-12, 1e-9, 1e-6, 2e-5], ["0", "<=1e-12", "<=1e-9", "<=1e-6", "<=2e-5", ">2e-5"]))
            asis = _fl(resps[0]["asis"])
            st["asis_model_nan_rows"] = st.get("asis_model_nan_rows", 0) + int(np.isnan(asis).sum()) + int(np.isnan(_fl(resps[6]["asis"])).sum())
            z = _fl(obs["zang"])
            st.setdefault("cone_deg", []).extend(_bucket(v, [1e-6, 90, 179.999999, 180], ["<=1e-6", "<=90", "<180", "180 (antipodal z-axes)"]) for v in z)
            if obs.get("inp_ab") is not None:
                eq = [abs(b2f(x)) for x, t in zip(obs["inp_ab"], case["tags"]) if t.startswith("equal/")]
                if eq:
                    st.setdefault("inplane_of_equal_rows_deg", []).append(_bucket(max(eq), [0, 1e-12, 1e-9], ["0", "<=1e-12", "<=1e-9", ">1e-9"]))
        A = _floats(case["a"]); B = _floats(case["b"])
        st["gimbal_rows"] = st.get("gimbal_rows", 0) + int(sum(1 for e in list(A) + list(B) if abs(math.sin(math.radians(e[1]))) < 1e-9))
    elif k == "normals":
        n = len(case["ang"])
        st.setdefault("normals_batch", []).append("1" if n == 1 else ("2-10" if n <= 10 else ("11-100" if n <= 100 else "101-500")))
        st.setdefault("normals_1d_input", []).append(bool(case.get("oned")))
        st.setdefault("normals_argument_form", []).append(case.get("form", "ndarray"))
        th = _floats(case["ang"])[:, 1]
        st.setdefault("normals_theta", []).extend(("in [0,180]" if 0 <= t <= 180 else "outside [0,180]") for t in th[:20])
    elif k == "n2e":
        st.setdefault("normal_kind", []).extend(case["tags"])
        st.setdefault("n2e_input", []).append(("DataFrame" if case.get("df") else "ndarray") + "/" + ("<output_order omitted>" if case.get("order", "zxz") is None else case.get("order", "zxz")))
        st.setdefault("n2e_batch", []).append("1" if len(case["n"]) == 1 else ("2-24" if len(case["n"]) <= 24 else ("25-256" if len(case["n"]) <= 256 else "257-500")))
        st.setdefault("n2e_dtype", []).append(case.get("dtype", "float64"))
        if case.get("df"):
            st.setdefault("n2e_dataframe_row_labels", []).append(case.get("df_index", "default"))
        nv = _floats(case["n"])
        with np.errstate(all="ignore"):
            mx = np.abs(nv).max(axis=1)
        st.setdefault("normal_length", []).extend(_bucket(v, [0, 1e-154, 1e-10, 1e-3, 1e3, 1e10, 1e154], ["0", "<=1e-154", "<=1e-10", "<=1e-3", "<=1e3", "<=1e10", "<=1e154", ">1e154"]) for v in mx)
        st.setdefault("squared_length_in_binary64", []).extend(_sumsq_state(v) for v, t in zip(nv, case["tags"]) if t != "zero")
    elif k == "mismatch":
        st.setdefault("mismatch_sizes", []).append(f"{len(case['a'])} vs {len(case['b'])}")
        st.setdefault("mismatch_returned", []).append(str(obs.get("returned")))
    if obs.get("mutated"):
        st.setdefault("inputs_mutated", []).extend(obs["mutated"])


def stats(case, obs, resps):
    k = case["kind"]
    st = {"kind": k}
    if "error" in obs:
        st["error"] = obs["error"][:60]
        return st
    if k == "seq":
        st["seq_steps"] = "+".join(s["kind"] for s in case["steps"])
        st["seq_shared_arrays"] = "same ndarray objects, rewritten in place between the calls"
        j = 0
        for s, o in zip(case["steps"], obs["steps"]):
            w = len(_requests_one(s, o))
            _stats_one(s, o, resps[j:j + w], st)
            j += w
        return st
    _stats_one(case, obs, resps, st)
    return st


def sample_view(case):
    k = case["kind"]
    if k == "seq":
        return dict(kind=k, steps=[sample_view(s) for s in case["steps"]])
    if k == "pair":
        return dict(kind=k, n=len(case["a"]), a0=[b2f(x) for x in case["a"][0]], b0=[b2f(x) for x in case["b"][0]], c0=[b2f(x) for x in case["c"][0]],
                    g=[b2f(x) for x in case["g"]], tags=case["tags"][:6], input=case["input"], dtype=case.get("dtype", "float64"), single=case.get("single"),
                    explicit=case.get("explicit"), bogus=case.get("bogus"))
    if k == "normals":
        return dict(kind=k, n=len(case["ang"]), first=[b2f(x) for x in case["ang"][0]], oned=case.get("oned"), form=case.get("form", "ndarray"))
    if k == "n2e":
        return dict(kind=k, n=len(case["n"]), normals=[[b2f(x) for x in r] for r in case["n"][:4]], tags=case["tags"][:4], order=case.get("order", "zxz"), df=case.get("df"),
                    df_index=case.get("df_index"), dtype=case.get("dtype", "float64"))
    if k == "mismatch":
        return dict(kind=k, sizes=[len(case["a"]), len(case["b"])], input=case["input"])
    return dict(kind=k, n=len(case.get("p", [])))


def classify(case, obs, finding):
    """C06-K1 (exact rule, H5): a row of normals_to_euler_angles that is WRONG (NaN angle, or its z-axis differs from the normalised normal by more than
    1e-12 according to BOTH the Lean zxz model and scipy), whose squared length x*x+y*y+z*z, as numpy computes it, overflows to inf or is below the
    smallest normal double (2.2e-308), AND whose returned (theta, psi) equal (1e-8 deg, NaN = NaN) what the documented formulas give when the norm is
    that inf / 0 / few-bit subnormal (_k1_prediction). Rows in that range whose result is still right are not findings; wrong rows with a normal
    squared length, and wrong rows in that range with any OTHER result (a new defect hiding below 1.5e-154), are unlisted violations. Only findings
    the judge tagged for exactly that class carry the id; every other row of the same batch, the column order, the return type and the model
    comparison are judged as usual."""
    return finding.get("known")


def probes(rng):
    """library assumptions, probed on fresh random inputs against the Lean model"""
    import warnings
    from scipy.spatial.transform import Rotation as R
    warnings.filterwarnings("ignore")
    out = []
    n = 200
    E = np.array([_rand_euler(rng) for _ in range(n)] + cube_eulers() + [_gimbal(rng) for _ in range(20)])
    G = np.array([_rand_euler(rng) for _ in range(len(E))])
    r, g = _rot(E), _rot(G)
    try:
        # model quaternion of the same Euler angles: distance model(E) vs scipy must be ~0, i.e. dist(E, E) request gives absdot 1; and
        # zaxis op equals scipy apply; composition: model d(g*a, a) equals scipy magnitude of g
        resp = core.run_driver([dict(prop=PROP, op="zaxis", ang=_bits_rows(E)),
                                dict(prop=PROP, op="qmult", p=_bits_rows(g.as_quat()), q=_bits_rows(r.as_quat()))])
        z = _floats(resp[0]["z"]); zs = r.apply([0, 0, 1.0])
        dz = float(np.abs(z - zs).max())
        out.append(dict(name="scipy from_euler('zxz').apply(ez) = third column of Rz(psi)Rx(theta)Rz(phi)", ok=bool(dz <= 1e-13), detail=f"max dev {dz:.2e}"))
        qm = _floats(resp[1]["r"]); qs = (g * r).as_quat()
        dq = float(np.abs(np.abs(np.sum(qm * qs, axis=1)) - 1).max())
        out.append(dict(name="scipy Rotation composition g*r = Hamilton product (scalar last)", ok=bool(dq <= 1e-14), detail=f"max | |q_model.q_scipy| - 1 | = {dq:.2e}"))
        back = np.array(r.as_euler("zxz", degrees=True), ndmin=2)
        rb = _rot(back)
        dm = float(np.degrees((rb.inv() * r).magnitude()).max())
        out.append(dict(name="as_euler(from_euler(x)) is a triple of the same rotation (also at gimbal lock)", ok=bool(dm <= 1e-6), detail=f"max residual rotation {dm:.2e} deg"))
        can = [(i, e) for i, e in enumerate(E) if -180 < e[0] < 180 and 1e-3 < e[1] < 180 - 1e-3]
        dphi = max((min(abs(back[i][0] - e[0]), 360 - abs(back[i][0] - e[0])) for i, e in can), default=0.0)
        out.append(dict(name="as_euler returns the input phi for canonical non-gimbal triples", ok=bool(dphi <= 1e-8), detail=f"max dev {dphi:.2e} deg over {len(can)} triples"))
        # "vanishes for equal orientations" rests on: as_euler is a function of the ROTATION (not of the quaternion's sign, not of the triple it was built from)
        fold = lambda d: np.minimum(np.abs(d) % 360, 360 - np.abs(d) % 360)
        neg = np.array(R.from_quat(-r.as_quat()).as_euler("zxz", degrees=True), ndmin=2)
        dn = float(fold(neg - back).max())
        out.append(dict(name="as_euler is independent of the sign of the quaternion", ok=bool(dn <= 1e-9), detail=f"max dev {dn:.2e} deg over {len(E)} rotations"))
        Ee = np.array([_partner(rng, list(e), "equal") for e in E])
        be = np.array(_rot(Ee).as_euler("zxz", degrees=True), ndmin=2)
        de = float(fold(be[:, 0] - back[:, 0]).max())
        out.append(dict(name="as_euler phi is independent of the Euler triple the rotation was built from (incl. gimbal lock, theta outside [0,180])",
                        ok=bool(de <= 1e-9), detail=f"max dev of phi {de:.2e} deg over {len(E)} rotations"))
    except Exception as e:
        out.append(dict(name="library probes", ok=False, detail=f"{type(e).__name__}: {e}"))
    return out
