"""C08 — particle-list set algebra and identifier discipline (DESIGN.md section 4, C08)."""
from core import f2b, b2f
import ast
import core

REL = "cryocat/cryomotl.py"
DOCUMENTED = ["score", "geom1", "geom2", "subtomo_id", "tomo_id", "object_id", "subtomo_mean", "x", "y", "z",
              "shift_x", "shift_y", "shift_z", "geom3", "geom4", "geom5", "phi", "psi", "theta", "class"]
CMP = {ast.Eq: "eq", ast.NotEq: "ne", ast.Lt: "lt", ast.LtE: "le", ast.Gt: "gt", ast.GtE: "ge"}


def _one(xs, what):
    if len(xs) != 1:
        raise core.AnchorMissing(f"{what}: expected exactly one match, found {len(xs)}")
    return xs[0]


def _defaults(fn):
    a = fn.args
    names = [x.arg for x in a.args]
    d = {}
    for name, val in zip(names[len(names) - len(a.defaults):], a.defaults):
        d[name] = ast.literal_eval(val)
    return d


def _kw(call, name):
    for k in call.keywords:
        if k.arg == name:
            return k.value
    return None


# ------------------------------------------------------------------ alpha-normalisation (local names are free)
import copy as _copy0, hashlib as _hashlib


class _Strip(ast.NodeTransformer):
    """H1: what a harmless edit may change is removed before anything is compared: type annotations (arguments, return,
    `x: T = v` becomes `x = v`, a bare `x: T` disappears) and the TEXT of messages (arguments of the exception constructed in a
    `raise`, of print / warnings.warn / logging calls). The exception TYPE and the fact that something is printed stay."""
    MSG_FUNCS = ("print", "warnings.warn", "warn", "logging.info", "logging.warning", "logging.error", "logging.debug",
                 "logger.info", "logger.warning", "logger.error", "logger.debug")

    def visit_arg(self, n):
        n.annotation = None
        return n

    def visit_FunctionDef(self, n):
        n.returns = None
        self.generic_visit(n)
        if not n.body:
            n.body = [ast.Pass()]
        return n

    def visit_AnnAssign(self, n):
        self.generic_visit(n)
        if n.value is None:
            return None
        return ast.copy_location(ast.Assign(targets=[n.target], value=n.value), n)

    def visit_Raise(self, n):
        self.generic_visit(n)
        if isinstance(n.exc, ast.Call):
            n.exc = ast.copy_location(ast.Call(func=n.exc.func, args=[], keywords=[]), n.exc)
        n.cause = None if n.cause is None else n.cause
        return n

    def visit_Call(self, n):
        self.generic_visit(n)
        if core.norm_expr(n.func) in self.MSG_FUNCS:
            return ast.copy_location(ast.Call(func=n.func, args=[], keywords=[]), n)
        return n

    def _body(self, stmts):
        return stmts or [ast.Pass()]

    def visit_If(self, n):
        self.generic_visit(n)
        n.body = self._body(n.body)
        # an `if` that guards nothing but messages (`if s1.shape[0] == 0: warnings.warn(...)`): WHEN a message is shown is as free as
        # its text -- the condition is dropped, the (emptied) message calls stay
        if not n.orelse and all(isinstance(x, ast.Expr) and isinstance(x.value, ast.Call) and core.norm_expr(x.value.func) in self.MSG_FUNCS for x in n.body):
            return n.body
        return n

    def visit_For(self, n):
        self.generic_visit(n)
        n.body = self._body(n.body)
        return n

    def visit_While(self, n):
        self.generic_visit(n)
        n.body = self._body(n.body)
        return n

    def visit_With(self, n):
        self.generic_visit(n)
        n.body = self._body(n.body)
        return n


def _mentions(st, name):
    for x in ast.walk(st):
        if isinstance(x, ast.Name) and x.id == name:
            return True
        if isinstance(x, (ast.Nonlocal, ast.Global)) and name in x.names:
            return True
        if isinstance(x, ast.arg) and x.arg == name:
            return True
        if isinstance(x, (ast.FunctionDef, ast.AsyncFunctionDef)) and x.name == name:
            return True
    return False


def _is_const_init(st):
    return isinstance(st, ast.Assign) and len(st.targets) == 1 and isinstance(st.targets[0], ast.Name) and isinstance(st.value, ast.Constant)


def _hoist_constants(body):
    """H2: `name = <literal constant>` commutes with every neighbouring statement that does not mention `name`; each such
    initialisation is moved up as far as that allows (original relative order among themselves), so that swapping two independent
    initialisations gives the same canonical body."""
    body = list(body)
    for i in range(len(body)):
        st = body[i]
        if _is_const_init(st):
            j = i
            while j > 0 and not _mentions(body[j - 1], st.targets[0].id) and not _is_const_init(body[j - 1]):
                j -= 1
            if j != i:
                body.insert(j, body.pop(i))
    return body


def _stripped(fn):
    """deep copy without docstring, annotations and message texts, constant initialisations hoisted (names untouched)"""
    fn = _copy0.deepcopy(fn)
    if fn.body and isinstance(fn.body[0], ast.Expr) and isinstance(fn.body[0].value, ast.Constant) and isinstance(fn.body[0].value.value, str):
        fn.body = fn.body[1:] or [ast.Pass()]
    fn = _Strip().visit(fn)
    fn.body = _hoist_constants(fn.body)
    ast.fix_missing_locations(fn)
    return fn


def _alpha(fn, rolefn=None):
    """deep copy of a FunctionDef in canonical form (G5 / H1 / H2):
    * the docstring, type annotations and message texts are dropped (`_Strip`);
    * constant initialisations are hoisted (`_hoist_constants`);
    * every LOCAL name (assigned names, loop targets, nested functions and their parameters, nonlocal names) is replaced:
      names with a ROLE (`rolefn(stripped function)`: original name -> canonical name, found structurally) get that name; a name that is
      only ever bound and never read (a discard such as `_`, whatever it is called) becomes `_` at every occurrence, each one on
      its own; all others become v<k> in order of their first BINDING occurrence (source order, after hoisting).
    Parameters of the function itself keep their names (they are API: the adapter passes them as keywords)."""
    fn = _stripped(fn)
    roles = rolefn(fn) if rolefn else None
    params = {a.arg for a in fn.args.args + fn.args.kwonlyargs + fn.args.posonlyargs}
    if fn.args.vararg:
        params.add(fn.args.vararg.arg)
    if fn.args.kwarg:
        params.add(fn.args.kwarg.arg)
    binds, loads = [], set()
    order = {id(st): i for i, st in enumerate(fn.body)}

    def pos(n, top):
        return (top, getattr(n, "lineno", 0), getattr(n, "col_offset", 0))
    for top, st in enumerate(fn.body):
        for n in ast.walk(st):
            if isinstance(n, ast.Name) and isinstance(n.ctx, ast.Store):
                binds.append((pos(n, top), n.id))
            elif isinstance(n, ast.Name):
                loads.add(n.id)
            elif isinstance(n, (ast.FunctionDef, ast.AsyncFunctionDef)):
                binds.append((pos(n, top), n.name))
                for a in n.args.args + n.args.kwonlyargs + n.args.posonlyargs:
                    binds.append((pos(a, top), a.arg))
            elif isinstance(n, (ast.Nonlocal, ast.Global)):
                loads.update(n.names)
    ren = dict(roles or {})
    taken = set(ren.values())
    k = 0
    for _, name in sorted(binds):
        if name in params or name in ren:
            continue
        if name not in loads:
            ren[name] = "_"
            continue
        while f"v{k}" in taken:
            k += 1
        ren[name] = f"v{k}"; taken.add(f"v{k}")
    for n in ast.walk(fn):
        if isinstance(n, ast.Name) and n.id in ren:
            n.id = ren[n.id]
        elif isinstance(n, (ast.FunctionDef, ast.AsyncFunctionDef)) and n is not fn:
            if n.name in ren:
                n.name = ren[n.name]
            for a in n.args.args + n.args.kwonlyargs + n.args.posonlyargs:
                if a.arg in ren:
                    a.arg = ren[a.arg]
        elif isinstance(n, (ast.Nonlocal, ast.Global)):
            n.names = [ren.get(x, x) for x in n.names]
    return fn


def _body_digest(fn):
    """digest of the whole canonical body (`_alpha`: statement kinds + expressions, signature with defaults, decorators);
    insensitive to comments, docstring, layout, names of locals, type annotations, message texts and the position of independent
    constant initialisations; any other added / removed / changed statement changes it"""
    a = _alpha(fn)
    return _hashlib.sha1(ast.dump(a, annotate_fields=True, include_attributes=False).encode()).hexdigest()[:16]


BODY_FUNCS = ["Motl.__init__", "Motl.create_empty_motl_df", "Motl.check_df_correct_format", "Motl.check_df_type", "Motl.load",
              "Motl.get_unique_values", "Motl.get_motl_subset", "Motl.remove_feature", "Motl.split_by_feature", "Motl.get_motl_intersection",
              "Motl.drop_duplicates", "Motl.merge_and_renumber", "Motl.merge_and_drop_duplicates", "Motl.renumber_particles",
              "Motl.renumber_objects_sequentially", "EmMotl.__init__"]


# the list classes of cryomotl.py with a receiver stream (generator: CLASSES) and a constructor anchor. The translator DERIVES the
# list of classes whose base chain reaches Motl from the source (`motl_subclasses`); a class found there and not listed here (or the
# other way round) is a failed translator obligation (`subclasses_documented` names it): a new list class has no stream yet.
SUBCLASSES = ["EmMotl", "RelionMotl", "StopgapMotl", "DynamoMotl", "ModMotl"]


def motl_subclasses(tree):
    """names of the module's classes whose base chain reaches Motl, in source order"""
    bases = {c.name: [core.norm_expr(b).split(".")[-1] for b in c.bases] for c in tree.body if isinstance(c, ast.ClassDef)}

    def reaches(name, seen=()):
        return name not in seen and any(b == "Motl" or reaches(b, seen + (name,)) for b in bases.get(name, []))
    return [c.name for c in tree.body if isinstance(c, ast.ClassDef) and c.name != "Motl" and reaches(c.name)]


def _signature(fn):
    """parameter names with their literal defaults, in order (the keywords the adapter relies on)"""
    a = fn.args
    names = [x.arg for x in a.args]
    nd = len(names) - len(a.defaults)
    out = []
    for i, nme in enumerate(names):
        out.append(nme if i < nd else f"{nme}={ast.unparse(a.defaults[i - nd])}")
    return ",".join(out)


# ------------------------------------------------------------------ structural extraction (ast shapes -> config records)
# Local variable names are NOT compared: a variable is identified by the role it plays (loop target, accumulator,
# selection). What is compared is the shape: what the loop runs over, how the requested values are made iterable,
# which frame the mask comes from, in which order the pieces are concatenated, how the index is reset.
def _is_self_df(n):
    return isinstance(n, ast.Attribute) and n.attr == "df" and isinstance(n.value, ast.Name) and n.value.id == "self"


def _selection(n, colparam):
    """<frame>.loc[<frame>[colparam] <op> <Name>] (or without .loc, optionally .copy()) -> (frame expr, mask frame expr, rhs name) else None"""
    if isinstance(n, ast.Call) and isinstance(n.func, ast.Attribute) and n.func.attr == "copy" and not n.args and not n.keywords:
        n = n.func.value
    if not isinstance(n, ast.Subscript):
        return None
    frame = n.value.value if isinstance(n.value, ast.Attribute) and n.value.attr == "loc" else n.value
    c = n.slice
    if not (isinstance(c, ast.Compare) and len(c.ops) == 1 and isinstance(c.left, ast.Subscript) and isinstance(c.left.slice, ast.Name)
            and c.left.slice.id == colparam and isinstance(c.comparators[0], ast.Name)):
        return None
    return frame, c.left.value, c.comparators[0].id


def _top_for(fn, what):
    loops = [n for n in fn.body if isinstance(n, ast.For)]
    return _one(loops, f"{what}: one top-level for loop")


def _assigned_before(fn, loop, name):
    """value of the last top-level assignment `name = ...` before the loop (also inside a top-level `if`), with the guarding test"""
    out = None
    for st in fn.body:
        if st is loop:
            break
        if isinstance(st, ast.Assign) and len(st.targets) == 1 and isinstance(st.targets[0], ast.Name) and st.targets[0].id == name:
            out = (st.value, None)
        if isinstance(st, ast.If) and not st.orelse:
            for x in st.body:
                if isinstance(x, ast.Assign) and len(x.targets) == 1 and isinstance(x.targets[0], ast.Name) and x.targets[0].id == name:
                    out = (x.value, st.test)
    return out


def _call_attr(n, attr):
    return isinstance(n, ast.Call) and isinstance(n.func, ast.Attribute) and n.func.attr == attr


def _norm_of(fn, loop, vp):
    """how the requested values (parameter `vp`) are made iterable before the loop"""
    a = _assigned_before(fn, loop, vp)
    if a is None:
        return "none"
    v, test = a
    if test is None and _call_attr(v, "atleast_1d") and len(v.args) == 1 and _call_attr(v.args[0], "asarray") \
            and len(v.args[0].args) == 1 and isinstance(v.args[0].args[0], ast.Name) and v.args[0].args[0].id == vp:
        return "atleast1d"
    if test is None and _call_attr(v, "array") and len(v.args) == 1 and isinstance(v.args[0], ast.List):
        return "wrapInList"
    if test is not None and isinstance(v, ast.List) and len(v.elts) == 1 and isinstance(v.elts[0], ast.Name) and v.elts[0].id == vp \
            and isinstance(test, ast.UnaryOp) and isinstance(test.op, ast.Not) and isinstance(test.operand, ast.Call) \
            and isinstance(test.operand.func, ast.Name) and test.operand.func.id == "isinstance" \
            and isinstance(test.operand.args[0], ast.Name) and test.operand.args[0].id == vp \
            and sorted(core.norm_expr(e) for e in getattr(test.operand.args[1], "elts", [])) == ["list", "np.ndarray"]:
        return "listOrArrayElseWrap"
    return "bad"


def _reset_of(fn, accname):
    """reset_index handling of the accumulated frame after the loop"""
    calls = [n for n in ast.walk(fn) if _call_attr(n, "reset_index")]
    if not calls:
        return "absent"
    c = _one(calls, "one reset_index call")
    if not (isinstance(c.func.value, ast.Name) and c.func.value.id == accname):
        return "bad"
    drop = _kw(c, "drop")
    if drop is not None and isinstance(drop, ast.Constant) and drop.value is True:
        return "dropTrue"
    return "keepOld"


def _loop_cmp(src, qual):
    """the single comparison `self.df[feature_id] <op> <loop variable>` inside the function's top-level loop (names of locals are free)"""
    fn = src.find(REL, qual)
    loop = _top_for(fn, qual)
    if not isinstance(loop.target, ast.Name):
        raise core.AnchorMissing(f"{qual}: loop target is not a plain variable")
    hits = [n for n in ast.walk(loop) if isinstance(n, ast.Compare) and len(n.ops) == 1 and core.norm_expr(n.left) == "self.df[feature_id]"
            and isinstance(n.comparators[0], ast.Name) and n.comparators[0].id == loop.target.id]
    return CMP[type(_one(hits, f"{qual}: self.df[feature_id] <op> <loop variable>").ops[0])]


def loop_subset(src):
    fn = src.find(REL, "Motl.get_motl_subset")
    vp = fn.args.args[1].arg
    loop = _top_for(fn, "get_motl_subset")
    if not (isinstance(loop.iter, ast.Name) and loop.iter.id == vp and isinstance(loop.target, ast.Name)):
        raise core.AnchorMissing("get_motl_subset: the loop does not run over the requested values themselves")
    if len(loop.body) != 2 or loop.orelse or not all(isinstance(x, ast.Assign) and len(x.targets) == 1 and isinstance(x.targets[0], ast.Name) for x in loop.body):
        raise core.AnchorMissing("get_motl_subset: loop body is not <part> = <selection>; <acc> = pd.concat([...])")
    sel_st, cat_st = loop.body
    sel = _selection(sel_st.value, "feature_id")
    if sel is None or sel[2] != loop.target.id:
        raise core.AnchorMissing("get_motl_subset: first loop statement is not a selection against the loop variable")
    part, accn = sel_st.targets[0].id, cat_st.targets[0].id
    c = cat_st.value
    if not (isinstance(c, ast.Call) and core.norm_expr(c.func) == "pd.concat" and len(c.args) == 1 and isinstance(c.args[0], ast.List)
            and not c.keywords and len(c.args[0].elts) == 2 and all(isinstance(e, ast.Name) for e in c.args[0].elts)):
        raise core.AnchorMissing("get_motl_subset: accumulation is not pd.concat([a, b])")
    names = [e.id for e in c.args[0].elts]
    acc = "append" if names == [accn, part] else ("prepend" if names == [part, accn] else "bad")
    init = _assigned_before(fn, loop, accn)
    if init is None or not _call_attr(init[0], "create_empty_motl_df"):
        acc = "bad"
    rets = [n for n in ast.walk(fn) if isinstance(n, ast.Return)]
    for r in rets:
        v = r.value
        ok = (isinstance(v, ast.Name) and v.id == accn) or (isinstance(v, ast.Call) and core.norm_expr(v.func) == "Motl" and
              [core.norm_expr(a) for a in v.args] + [core.norm_expr(k.value) for k in v.keywords] == [accn])
        if not ok:
            acc = "bad"
    return dict(iter="requested", norm=_norm_of(fn, loop, vp), acc=acc, reset=_reset_of(fn, accn),
                sameFrame=bool(_is_self_df(sel[0]) and _is_self_df(sel[1])))


def loop_remove(src):
    fn = src.find(REL, "Motl.remove_feature")
    vp = fn.args.args[2].arg
    loop = _top_for(fn, "remove_feature")
    if not (isinstance(loop.iter, ast.Name) and loop.iter.id == vp and isinstance(loop.target, ast.Name)):
        raise core.AnchorMissing("remove_feature: the loop does not run over the given values themselves")
    if len(loop.body) != 1 or not isinstance(loop.body[0], ast.Assign) or len(loop.body[0].targets) != 1:
        raise core.AnchorMissing("remove_feature: loop body is not one assignment")
    st = loop.body[0]
    sel = _selection(st.value, "feature_id")
    if sel is None or sel[2] != loop.target.id:
        raise core.AnchorMissing("remove_feature: loop statement is not a selection against the loop variable")
    narrow = _is_self_df(st.targets[0]) and _is_self_df(sel[0]) and _is_self_df(sel[1])
    return dict(iter="requested", norm=_norm_of(fn, loop, vp), acc="narrow" if narrow else "bad", reset=_reset_of(fn, ""),
                sameFrame=bool(_is_self_df(sel[0]) and _is_self_df(sel[1])))


def _unique_kind(src, call):
    """self.<helper>(feature_id) resolved through the helper's single return: <column>.unique() -> uniqueFirst; np.unique / sorted -> uniqueSorted"""
    if not (isinstance(call, ast.Call) and isinstance(call.func, ast.Attribute) and isinstance(call.func.value, ast.Name) and call.func.value.id == "self"
            and len(call.args) == 1 and isinstance(call.args[0], ast.Name) and call.args[0].id == "feature_id"):
        return "bad"
    helper = src.find(REL, "Motl." + call.func.attr)
    hp = helper.args.args[1].arg
    ret = _one([n for n in ast.walk(helper) if isinstance(n, ast.Return)], "unique helper: one return").value
    def column(n):
        return isinstance(n, ast.Subscript) and any(isinstance(x, ast.Name) and x.id == hp for x in ast.walk(n.slice)) and \
            _is_self_df(n.value.value if isinstance(n.value, ast.Attribute) and n.value.attr == "loc" else n.value)
    if _call_attr(ret, "unique") and not ret.args and column(ret.func.value):
        return "uniqueFirst"
    if isinstance(ret, ast.Call) and core.norm_expr(ret.func) in ("np.unique", "sorted") and len(ret.args) == 1 and column(ret.args[0]):
        return "uniqueSorted"
    return "bad"


def loop_split(src):
    fn = src.find(REL, "Motl.split_by_feature")
    loop = _top_for(fn, "split_by_feature")
    if not (isinstance(loop.iter, ast.Name) and isinstance(loop.target, ast.Name)):
        raise core.AnchorMissing("split_by_feature: the loop does not run over a plain list of values")
    a = _assigned_before(fn, loop, loop.iter.id)
    it = _unique_kind(src, a[0]) if a is not None and a[1] is None else "bad"
    body = [x for x in loop.body if not (isinstance(x, ast.If) and isinstance(x.test, ast.Name))]   # `if write_out:` side effects
    if len(body) != 2 or not isinstance(body[0], ast.Assign) or not isinstance(body[1], ast.Expr):
        raise core.AnchorMissing("split_by_feature: loop body is not <part> = Motl(<selection>); <list>.append(<part>)")
    mk = body[0].value
    if not (isinstance(mk, ast.Call) and core.norm_expr(mk.func) == "Motl" and len(mk.args) == 1 and not mk.keywords):
        raise core.AnchorMissing("split_by_feature: part is not Motl(<selection>)")
    sel = _selection(mk.args[0], "feature_id")
    if sel is None or sel[2] != loop.target.id:
        raise core.AnchorMissing("split_by_feature: selection is not against the loop variable")
    part = body[0].targets[0].id
    call = body[1].value
    acc = "bad"
    if isinstance(call, ast.Call) and isinstance(call.func, ast.Attribute) and isinstance(call.func.value, ast.Name):
        lst = call.func.value.id
        init = _assigned_before(fn, loop, lst)
        empty = init is not None and ((isinstance(init[0], ast.List) and not init[0].elts) or (isinstance(init[0], ast.Call) and core.norm_expr(init[0]) == "list()"))
        rets = [n for n in ast.walk(fn) if isinstance(n, ast.Return)]
        retok = len(rets) == 1 and isinstance(rets[0].value, ast.Name) and rets[0].value.id == lst
        if empty and retok:
            if call.func.attr == "append" and [core.norm_expr(x) for x in call.args] == [part]:
                acc = "append"
            elif call.func.attr == "insert" and [core.norm_expr(x) for x in call.args] == ["0", part]:
                acc = "prepend"
    return dict(iter=it, norm="none", acc=acc, reset="absent", sameFrame=bool(_is_self_df(sel[0]) and _is_self_df(sel[1])))


def loop_objects(src):
    fn = src.find(REL, "Motl.renumber_objects_sequentially")
    gb = _one([n for n in ast.walk(fn) if _call_attr(n, "groupby")], "renumber_objects_sequentially: groupby")
    extra = sorted(k.arg for k in gb.keywords if k.arg not in ("group_keys", "sort"))
    if extra or len(gb.args) != 1:
        raise core.AnchorMissing(f"renumber_objects_sequentially: unexpected groupby options {extra}")
    key = ast.literal_eval(gb.args[0])
    srt = _kw(gb, "sort")
    order = "uniqueSorted" if srt is None or (isinstance(srt, ast.Constant) and srt.value is True) else "uniqueFirst"
    frame = gb.func.value
    reset = "absent"
    if isinstance(frame, ast.Name):
        init = [st for st in fn.body if isinstance(st, ast.Assign) and isinstance(st.targets[0], ast.Name) and st.targets[0].id == frame.id]
        v = _one(init, "renumber_objects_sequentially: working frame assigned once").value
        if _call_attr(v, "reset_index") and _is_self_df(v.func.value):
            d = _kw(v, "drop")
            reset = "dropTrue" if isinstance(d, ast.Constant) and d.value is True else "keepOld"
        else:
            reset = "bad"
    elif not _is_self_df(frame):
        reset = "bad"
    loop = _top_for(fn, "renumber_objects_sequentially")
    it = loop.iter
    over_groups = _call_attr(it, "items") and isinstance(it.func.value, ast.Attribute) and it.func.value.attr == "groups" and it.func.value.value is gb
    writes = False
    inner_name = None
    if over_groups and isinstance(loop.target, ast.Tuple) and len(loop.target.elts) == 2 and isinstance(loop.target.elts[1], ast.Name) and len(loop.body) == 1 \
            and isinstance(loop.body[0], ast.Assign):
        gi = loop.target.elts[1].id
        st = loop.body[0]
        want = f"{core.norm_expr(frame)}.loc[{gi}]"
        v = st.value
        if core.norm_expr(st.targets[0]) == want and isinstance(v, ast.Call) and isinstance(v.func, ast.Name) and len(v.args) == 1 \
                and core.norm_expr(v.args[0]) in (want, want + ".copy()"):
            inner_name = v.func.id
            last = fn.body[-1]
            writes = isinstance(last, ast.Assign) and _is_self_df(last.targets[0]) and core.norm_expr(last.value) == core.norm_expr(frame)
    codes, upd = "bad", None
    if inner_name:
        inner = src.find(REL, "Motl.renumber_objects_sequentially." + inner_name)
        gp = inner.args.args[0].arg
        sts = [x for x in inner.body if isinstance(x, ast.Assign)]
        nonloc = [n for x in inner.body if isinstance(x, ast.Nonlocal) for n in x.names]
        col = f"{gp}['object_id']"
        if len(sts) == 2 and len(nonloc) == 1:
            sv = nonloc[0]
            seed = [st for st in fn.body if isinstance(st, ast.Assign) and isinstance(st.targets[0], ast.Name) and st.targets[0].id == sv]
            seeded = len(seed) == 1 and isinstance(seed[0].value, ast.Name) and seed[0].value.id == "starting_number"
            a, b = sts
            if seeded and core.norm_expr(a.targets[0]) == col and core.norm_expr(a.value) == f"{col}.factorize()[0]+{sv}":
                codes = "factorizeFirst"
            if seeded and core.norm_expr(b.targets[0]) == sv and isinstance(b.value, ast.BinOp) and isinstance(b.value.op, ast.Add) \
                    and core.norm_expr(b.value.left) == f"{col}.max()" and isinstance(b.value.right, ast.Constant) and isinstance(b.value.right.value, int):
                upd = int(b.value.right.value)
            elif seeded and core.norm_expr(b.targets[0]) == sv and core.norm_expr(b.value) == f"{col}.max()":
                upd = 0
        rets = [n for n in ast.walk(inner) if isinstance(n, ast.Return)]
        if not (len(rets) == 1 and isinstance(rets[0].value, ast.Name) and rets[0].value.id == gp):
            codes = "bad"
    return dict(groupKey=key, groupOrder=order, codes=codes, startUpdate=upd, reset=reset, writesBack=bool(writes))


def _names_in(n):
    return {x.id for x in ast.walk(n) if isinstance(x, ast.Name)}


def _merge_roles(fn, qual):
    """the locals of the merging loop by ROLE (H2): the loop variable; the ACCUMULATED frame = target of `<name> = pd.concat([...])`
    inside the loop; the LOADED list = the name whose `.df` is concatenated to it; the RUNNING MAXIMUM = the name initialised with a
    literal constant before the loop and assigned again inside it; the list MINIMUM = the remaining name assigned inside the loop
    that is compared with the running maximum; the MERGED list = the name bound after the loop to a call taking the accumulated frame."""
    loop = _top_for(fn, qual)
    if not isinstance(loop.target, ast.Name):
        raise core.AnchorMissing(f"{qual}: the loop target `{ast.unparse(loop.target)}` is not a plain variable")
    lv = loop.target.id
    inloop = [n for n in ast.walk(loop) if isinstance(n, ast.Assign) and len(n.targets) == 1 and isinstance(n.targets[0], ast.Name)]
    cats = [n for n in inloop if isinstance(n.value, ast.Call) and core.norm_expr(n.value.func) == "pd.concat"]
    cat = _one(cats, f"{qual}: `<accumulated frame> = pd.concat([...])` inside the loop")
    acc = cat.targets[0].id
    parts = [e for e in (cat.value.args[0].elts if cat.value.args and isinstance(cat.value.args[0], (ast.List, ast.Tuple)) else [])
             if isinstance(e, ast.Attribute) and e.attr == "df" and isinstance(e.value, ast.Name)]
    loaded = _one(parts, f"{qual}: `{ast.unparse(cat)}` does not append `<loaded list>.df`").value.id
    before = [st for st in fn.body[:fn.body.index(loop)] if _is_const_init(st)]
    assigned = [n.targets[0].id for n in inloop]
    runs = [st.targets[0].id for st in before if st.targets[0].id in assigned]
    runmax = _one(runs, f"{qual}: one running maximum (initialised with a constant before the loop, assigned again inside it)")
    rest = [nme for nme in dict.fromkeys(assigned) if nme not in (acc, loaded, runmax, lv)]
    cmps = [n for n in ast.walk(loop) if isinstance(n, ast.Compare) and len(n.ops) == 1 and runmax in _names_in(n)]
    mins = [nme for nme in rest if any(nme in _names_in(c) for c in cmps)]
    minv = _one(mins, f"{qual}: one list minimum compared with the running maximum `{runmax}`")
    after = [st for st in fn.body[fn.body.index(loop) + 1:] if isinstance(st, ast.Assign) and len(st.targets) == 1 and isinstance(st.targets[0], ast.Name)
             and isinstance(st.value, ast.Call) and [core.norm_expr(a) for a in st.value.args] == [acc]]
    merged = _one(after, f"{qual}: `<merged list> = <class>({acc})` after the loop").targets[0].id
    roles = {acc: "v0", runmax: "v1", lv: "v2", loaded: "v3", minv: "v4", merged: "v5"}
    if len(roles) != 6:
        raise core.AnchorMissing(f"{qual}: one local plays two roles: {roles}")
    return roles


def _merge_alpha(src, qual):
    return _alpha(src.find(REL, qual), lambda f: _merge_roles(f, qual))


def _intersect_alpha(src):
    """get_motl_intersection: v0 / v1 = the locals loaded from the first / second operand (the parameters motl1 / motl2), v2 = the
    selected frame that is returned -- by role, whatever they are called and in whichever order the two loads are written"""
    return _alpha(src.find(REL, "Motl.get_motl_intersection"), _intersect_roles)


def _intersect_roles(fn):
    p1, p2 = fn.args.args[1].arg, fn.args.args[2].arg
    asg = [st for st in fn.body if isinstance(st, ast.Assign) and len(st.targets) == 1 and isinstance(st.targets[0], ast.Name)]
    a = _one([st for st in asg if p1 in _names_in(st.value)], f"get_motl_intersection: one local loaded from `{p1}`").targets[0].id
    b = _one([st for st in asg if p2 in _names_in(st.value)], f"get_motl_intersection: one local loaded from `{p2}`").targets[0].id
    sel = [st.targets[0].id for st in asg if any(_call_attr(n, "isin") or _call_attr(n, "merge") for n in ast.walk(st.value))]
    roles = {a: "v0", b: "v1"}
    if len(sel) == 1 and sel[0] not in roles:
        roles[sel[0]] = "v2"
    return roles


def extract(src):
    """returns dict of extracted items; every item goes through src.anchor (missing => recorded, never guessed)"""
    g = {}
    g["cols"] = src.anchor("Motl.motl_columns", lambda: src.literal(src.class_attr(REL, "Motl", "motl_columns")))

    # ---- check_df_correct_format: sorted(Motl.motl_columns) == sorted(input_df.columns)
    def fmt():
        fn = src.find(REL, "Motl.check_df_correct_format")
        cmps = [n for n in ast.walk(fn) if isinstance(n, ast.Compare)]
        n = _one(cmps, "check_df_correct_format: one comparison")
        sides = sorted([core.norm_expr(n.left), core.norm_expr(n.comparators[0])])
        if sides != ["sorted(Motl.motl_columns)", "sorted(input_df.columns)"] or not isinstance(n.ops[0], ast.Eq):
            raise core.AnchorMissing("check_df_correct_format: sorted(Motl.motl_columns) == sorted(input_df.columns)")
        return True
    g["format_is_perm"] = src.anchor("check_df_correct_format:sorted==sorted", fmt)

    # ---- get_motl_subset
    g["subset_cmp"] = src.anchor("get_motl_subset:self.df[feature_id]<op>i", lambda: _loop_cmp(src, "Motl.get_motl_subset"))
    g["subset_loop"] = src.anchor("get_motl_subset:loop-structure", lambda: loop_subset(src))

    # ---- remove_feature
    g["remove_cmp"] = src.anchor("remove_feature:self.df[feature_id]<op>value", lambda: _loop_cmp(src, "Motl.remove_feature"))
    g["split_cmp"] = src.anchor("split_by_feature:self.df[feature_id]<op>value", lambda: _loop_cmp(src, "Motl.split_by_feature"))
    g["split_loop"] = src.anchor("split_by_feature:loop-structure", lambda: loop_split(src))
    g["remove_loop"] = src.anchor("remove_feature:loop-structure", lambda: loop_remove(src))

    # ---- get_motl_intersection: rows of m1 whose id isin m2
    def inter():
        fn = _intersect_alpha(src)
        calls = [n for n in ast.walk(fn) if isinstance(n, ast.Call) and isinstance(n.func, ast.Attribute) and n.func.attr in ("isin", "merge")]
        c = _one(calls, "get_motl_intersection: one isin/merge call")
        if c.func.attr != "isin":
            return "merge"
        if c.keywords or len(c.args) != 1:
            raise core.AnchorMissing("get_motl_intersection: isin(<one argument>)")
        recv, arg = core.norm_expr(c.func.value), core.norm_expr(c.args[0])
        # the selection must index the same frame the receiver column comes from
        subs = [n for n in ast.walk(fn) if isinstance(n, ast.Subscript) and isinstance(n.slice, ast.Call) and n.slice is c]
        base = core.norm_expr(_one(subs, "get_motl_intersection: <frame>.loc[<isin>]").value)
        return f"{base}[{recv}.isin({arg})]"
    g["inter"] = src.anchor("get_motl_intersection:selection", inter)

    def inter_loads():
        # the two operands by role (v0 <- motl1, v1 <- motl2), whatever they are called
        fn = _intersect_alpha(src)
        out = {}
        for n in ast.walk(fn):
            if isinstance(n, ast.Assign) and isinstance(n.targets[0], ast.Name) and n.targets[0].id in ("v0", "v1"):
                out.setdefault(n.targets[0].id, []).append(core.norm_expr(n.value))
        if set(out) != {"v0", "v1"}:
            raise core.AnchorMissing("get_motl_intersection: <first local> = ..., <second local> = ...")
        return "v0=" + "|".join(out["v0"]) + ";v1=" + "|".join(out["v1"])
    g["inter_loads"] = src.anchor("get_motl_intersection:operands", inter_loads)

    def inter_ret():
        fn = _intersect_alpha(src)
        r = _one([n for n in ast.walk(fn) if isinstance(n, ast.Return)], "get_motl_intersection: one return")
        return core.norm_expr(r.value)
    g["inter_ret"] = src.anchor("get_motl_intersection:return", inter_ret)

    def fillna():
        fn = src.find(REL, "Motl.check_df_type")
        calls = [n for n in ast.walk(fn) if isinstance(n, ast.Call) and isinstance(n.func, ast.Attribute) and n.func.attr == "fillna"]
        c = _one(calls, "check_df_type: one fillna")
        v = ast.literal_eval(c.args[0])
        if float(v) != int(v):
            raise core.AnchorMissing("check_df_type: fillna value is not integral")
        return int(v)
    g["fill_value"] = src.anchor("check_df_type:fillna-value", fillna)

    # ---- drop_duplicates
    def dd_defaults():
        fn = src.find(REL, "Motl.drop_duplicates")
        d = _defaults(fn)
        return [d["duplicates_column"], d["decision_column"], bool(d["decision_sort_ascending"])]
    g["dd_defaults"] = src.anchor("drop_duplicates:defaults", dd_defaults)

    def dd_sort():
        fn = src.find(REL, "Motl.drop_duplicates")
        calls = [n for n in ast.walk(fn) if isinstance(n, ast.Call) and isinstance(n.func, ast.Attribute) and n.func.attr == "sort_values"]
        c = _one(calls, "drop_duplicates: sort_values")
        by, asc = _kw(c, "by"), _kw(c, "ascending")
        if by is None or asc is None or core.norm_expr(by) != "[duplicates_column,decision_column]":
            raise core.AnchorMissing("drop_duplicates: sort_values(by=[duplicates_column, decision_column], ascending=[...])")
        if not (isinstance(asc, ast.List) and len(asc.elts) == 2 and isinstance(asc.elts[0], ast.Constant) and core.norm_expr(asc.elts[1]) == "decision_sort_ascending"):
            raise core.AnchorMissing("drop_duplicates: ascending=[<const>, decision_sort_ascending]")
        extra = sorted(k.arg for k in c.keywords if k.arg not in ("by", "ascending"))
        if extra:
            raise core.AnchorMissing(f"drop_duplicates: unexpected sort_values options {extra}")
        return bool(asc.elts[0].value)
    g["dd_first_asc"] = src.anchor("drop_duplicates:sort_values-ascending[0]", dd_sort)

    def dd_keep():
        fn = src.find(REL, "Motl.drop_duplicates")
        calls = [n for n in ast.walk(fn) if isinstance(n, ast.Call) and isinstance(n.func, ast.Attribute) and n.func.attr == "drop_duplicates"]
        c = _one(calls, "drop_duplicates: DataFrame.drop_duplicates")
        sub = _kw(c, "subset")
        if sub is None or core.norm_expr(sub) != "duplicates_column":
            raise core.AnchorMissing("drop_duplicates: subset=duplicates_column")
        keep = _kw(c, "keep")
        return "first" if keep is None else ast.literal_eval(keep)
    g["dd_keep"] = src.anchor("drop_duplicates:keep", dd_keep)

    # ---- merge_and_renumber / merge_and_drop_duplicates (same shifting loop)
    # locals are identified by the ROLE they play (`_merge_roles`), never by their name or by the position of their first binding:
    # accumulated frame v0, running maximum v1, loop variable v2, loaded list v3, its minimum v4, merged list v5
    for tag, qual in (("mr", "Motl.merge_and_renumber"), ("md", "Motl.merge_and_drop_duplicates")):
        def shift_cmp(qual=qual):
            fn = _merge_alpha(src, qual)
            ifs = [n for n in ast.walk(fn) if isinstance(n, ast.If) and isinstance(n.test, ast.Compare) and len(n.test.ops) == 1
                   and core.norm_expr(n.test.left) == "v4" and core.norm_expr(n.test.comparators[0]) == "v1"]
            return CMP[type(_one(ifs, f"{qual}: if <list minimum> <op> <running maximum>").test.ops[0])]
        g[tag + "_cmp"] = src.anchor(f"{qual.split('.')[1]}:feature_min<op>feature_add", shift_cmp)

        def shift_expr(qual=qual):
            fn = _merge_alpha(src, qual)
            ifs = [n for n in ast.walk(fn) if isinstance(n, ast.If) and isinstance(n.test, ast.Compare) and core.norm_expr(n.test.left) == "v4"]
            st = _one(ifs, f"{qual}: shift if")
            if st.orelse:
                raise core.AnchorMissing(f"{qual}: the shift branch has an else")
            body = _one(st.body, f"{qual}: one statement in the shift branch")
            if not isinstance(body, ast.Assign):
                raise core.AnchorMissing(f"{qual}: the shift branch is not an assignment")
            return core.norm_expr(body.targets[0]) + "=" + core.norm_expr(body.value)
        g[tag + "_shift"] = src.anchor(f"{qual.split('.')[1]}:shift-assignment", shift_expr)

        def minmax(qual=qual):
            fn = _merge_alpha(src, qual)
            out = {}
            for n in ast.walk(fn):
                if isinstance(n, ast.Assign):
                    for t in n.targets:
                        for e in (t.elts if isinstance(t, ast.Tuple) else [t]):
                            if isinstance(e, ast.Name) and e.id in ("v4", "v1"):
                                out.setdefault(e.id, []).append(core.norm_expr(n.value))
            return "v4=" + "|".join(out.get("v4", [])) + ";v1=" + "|".join(out.get("v1", []))
        g[tag + "_minmax"] = src.anchor(f"{qual.split('.')[1]}:feature_min/feature_add", minmax)

        def tail(qual=qual):
            fn = _merge_alpha(src, qual)
            calls = []
            for n in ast.walk(fn):
                if isinstance(n, ast.Call) and isinstance(n.func, ast.Attribute) and core.norm_expr(n.func.value) == "v5":
                    calls.append(n.func.attr + "(" + ",".join(core.norm_expr(a) for a in n.args) + ",".join(f"{k.arg}={core.norm_expr(k.value)}" for k in n.keywords) + ")")
            return ";".join(calls)
        g[tag + "_tail"] = src.anchor(f"{qual.split('.')[1]}:post-merge-call", tail)

        def loadcall(qual=qual):
            # how every element of motl_list becomes the list that is shifted: must be a fresh object (cls.load copies a Motl
            # and re-loads a DataFrame) -- working on the caller's own object would shift the caller's object numbers in place
            fn = _merge_alpha(src, qual)
            vals = [core.norm_expr(n.value) for n in ast.walk(fn) if isinstance(n, ast.Assign) and isinstance(n.targets[0], ast.Name) and n.targets[0].id == "v3"]
            return "|".join(vals)
        g[tag + "_load"] = src.anchor(f"{qual.split('.')[1]}:input-is-loaded", loadcall)

    # ---- signatures (keyword names and defaults the adapter and the statement rely on) and whole-body digests
    g["signatures"] = src.anchor("signatures", lambda: [f"{q.split('.')[1]}({_signature(src.find(REL, q))})" for q in BODY_FUNCS[4:15]])
    g["bodies"] = src.anchor("whole-body-digests", lambda: [f"{q}:{_body_digest(src.find(REL, q))}" for q in BODY_FUNCS])

    # ---- subclasses (the operations are inherited; a list a user holds is usually an EmMotl / RelionMotl / ... instance)
    def overrides():
        """every class of the module other than Motl that (re)defines one of the anchored methods: the anchors above describe
        Motl.<method> only, so an override in a subclass would be code the model knows nothing about"""
        names = {q.split(".")[1] for q in BODY_FUNCS if q.startswith("Motl.") and not q.endswith("__init__")}
        out = []
        for c in src.tree(REL).body:
            if isinstance(c, ast.ClassDef) and c.name != "Motl":
                for st in ast.walk(c):
                    if isinstance(st, (ast.FunctionDef, ast.AsyncFunctionDef)) and st.name in names and st in c.body:
                        out.append(f"{c.name}.{st.name}")
                    elif isinstance(st, ast.Assign) and st in c.body:
                        out += [f"{c.name}.{t.id}" for t in st.targets if isinstance(t, ast.Name) and t.id in names]
        return sorted(out)
    g["overrides"] = src.anchor("subclasses:overrides-of-anchored-methods", overrides)

    def subclasses():
        found = motl_subclasses(src.tree(REL))
        if sorted(found) != sorted(SUBCLASSES):
            raise core.AnchorMissing(f"classes derived from Motl in the source: {found}; classes with a receiver stream and a constructor anchor: {SUBCLASSES} "
                                     f"(no stream for {sorted(set(found) - set(SUBCLASSES))}, gone {sorted(set(SUBCLASSES) - set(found))})")
        return found
    g["subclasses"] = src.anchor("subclasses:every-class-derived-from-Motl-has-a-receiver-stream", subclasses)

    def ctors():
        """what each subclass constructor does with a DataFrame: `cls(<merged frame>)` in the class methods relies on
        `self.check_df_type(frame)` (a frame with the 20 columns is taken as it is, index reset, missing values filled) and on nothing
        else happening in that branch. Runs over every class the SOURCE derives from Motl, listed or not."""
        out = []
        for cname in motl_subclasses(src.tree(REL)):
            if not any(isinstance(st, ast.FunctionDef) and st.name == "__init__" for st in src.find(REL, cname).body):
                out.append(f"{cname}:<inherited>"); continue
            fn = src.find(REL, f"{cname}.__init__")
            ap = fn.args.args[1].arg
            hits = []
            for n in ast.walk(fn):
                if isinstance(n, ast.If) and isinstance(n.test, ast.Call) and core.norm_expr(n.test.func) == "isinstance" and len(n.test.args) == 2 \
                        and core.norm_expr(n.test.args[0]) == ap and core.norm_expr(n.test.args[1]) == "pd.DataFrame":
                    hits.append(";".join(core.norm_expr(x) for x in n.body).replace(ap, "<frame>"))
            out.append(f"{cname}:" + _one(hits, f"{cname}.__init__: one `isinstance({ap}, pd.DataFrame)` branch"))
        return out
    g["ctors"] = src.anchor("subclasses:constructor-dataframe-branch", ctors)

    # ---- renumber_particles
    def rp():
        fn = src.find(REL, "Motl.renumber_particles")
        st = _one([n for n in ast.walk(fn) if isinstance(n, ast.Assign)], "renumber_particles: one assignment")
        return core.norm_expr(st.targets[0]) + "=" + core.norm_expr(st.value)
    g["rp"] = src.anchor("renumber_particles:assignment", rp)

    def rp_start():
        fn = src.find(REL, "Motl.renumber_particles")
        calls = [n for n in ast.walk(fn) if isinstance(n, ast.Call) and core.norm_expr(n.func) == "range"]
        c = _one(calls, "renumber_particles: range(...)")
        if len(c.args) != 2 or core.norm_expr(c.args[1]) != "len(self.df)+" + core.norm_expr(c.args[0]):
            raise core.AnchorMissing("renumber_particles: range(k, len(self.df)+k)")
        return int(ast.literal_eval(c.args[0]))
    g["rp_start"] = src.anchor("renumber_particles:first-number", rp_start)

    # ---- renumber_objects_sequentially
    def ro_default():
        return int(_defaults(src.find(REL, "Motl.renumber_objects_sequentially"))["starting_number"])
    g["ro_default"] = src.anchor("renumber_objects_sequentially:default-start", ro_default)

    g["obj_loop"] = src.anchor("renumber_objects_sequentially:loop-structure", lambda: loop_objects(src))
    return g


ITER = ("requested", "uniqueFirst", "uniqueSorted")
NORM = ("atleast1d", "wrapInList", "listOrArrayElseWrap", "none")
ACC = ("append", "prepend", "narrow")
RESET = ("dropTrue", "absent", "keepOld")
CODES = ("factorizeFirst",)

DOC = dict(
    inter="v0.df.loc[v0.df[feature_id].isin(v1.df[feature_id])]",
    inter_loads="v0=cls.load(motl1.df);v1=cls.load(motl2.df)",
    inter_ret="cls(v2.reset_index(drop=True))",
    mr_shift="v3.df.loc[:,'object_id']=v3.df.loc[:,'object_id']+(v1-v4+1)",
    mr_minmax="v4=min(v3.df.loc[:,'object_id']);v1=0|max(v3.df.loc[:,'object_id'])",
    mr_tail="renumber_particles()",
    md_tail="drop_duplicates()",
    mr_load="cls.load(v2)",
    rp="self.df.loc[:,'subtomo_id']=list(range(1,len(self.df)+1))",
    dd_keep="first",
)
DOC["md_shift"], DOC["md_minmax"], DOC["md_load"] = DOC["mr_shift"], DOC["mr_minmax"], DOC["mr_load"]
# documented values used when an anchor could NOT be extracted (anchorsOk is false then and the theorems break; the model
# keeps the documented behaviour instead of silently switching to an arbitrary one)
DOC_CMP = dict(subset_cmp="eq", remove_cmp="ne", split_cmp="eq", mr_cmp="le", md_cmp="le")
DOC_NAT = dict(fill_value=0, rp_start=1, ro_default=1)
DOC_LOOP = dict(subset_loop=dict(iter="requested", norm="atleast1d", acc="append", reset="dropTrue", sameFrame=True),
                remove_loop=dict(iter="requested", norm="atleast1d", acc="narrow", reset="absent", sameFrame=True),
                split_loop=dict(iter="uniqueFirst", norm="none", acc="append", reset="absent", sameFrame=True))
DOC_OBJ = dict(groupKey="tomo_id", groupOrder="uniqueSorted", codes="factorizeFirst", startUpdate=1, reset="dropTrue", writesBack=True)


def translate(src):
    g = extract(src)
    cols = g["cols"] if isinstance(g["cols"], list) and all(isinstance(c, str) for c in g["cols"]) else list(DOCUMENTED)
    cmp_ = lambda k: "." + (g[k] if g.get(k) in CMP.values() else DOC_CMP[k])
    s = lambda k: core.lean_str(g[k]) if isinstance(g.get(k), str) else core.lean_str(DOC[k])
    b = lambda v: "true" if v else "false"
    dd = g["dd_defaults"] if isinstance(g.get("dd_defaults"), list) else ["subtomo_id", "score", False]
    nat = lambda k: g[k] if isinstance(g.get(k), int) and g[k] >= 0 else DOC_NAT[k]
    en = lambda v, allowed: "." + (v if v in allowed else "bad")
    strs = lambda k: core.lean_str_list(g[k]) if isinstance(g.get(k), list) and all(isinstance(x, str) for x in g[k]) else "[]"
    missing_true = lambda k: True if g.get(k) is None else bool(g.get(k))

    def loop_(k):
        d = g.get(k) if isinstance(g.get(k), dict) else DOC_LOOP[k]
        return ("{ iter := " + en(d.get("iter"), ITER) + ", norm := " + en(d.get("norm"), NORM) + ", acc := " + en(d.get("acc"), ACC)
                + ", reset := " + en(d.get("reset"), RESET) + ", sameFrame := " + b(d.get("sameFrame")) + " }")

    def obj_():
        d = g.get("obj_loop") if isinstance(g.get("obj_loop"), dict) else DOC_OBJ
        upd = d.get("startUpdate")
        return ("{ groupKey := " + core.lean_str(str(d.get("groupKey", "<missing>"))) + ", groupOrder := " + en(d.get("groupOrder"), ITER)
                + ", codes := " + en(d.get("codes"), CODES) + ", startUpdate := " + (f"some {upd}" if isinstance(upd, int) and upd >= 0 else "none")
                + ", reset := " + en(d.get("reset"), RESET) + ", writesBack := " + b(d.get("writesBack")) + " }")
    inter_ok = (g.get("inter") in (None, DOC["inter"])) and (g.get("inter_loads") in (None, DOC["inter_loads"]))
    return f"""-- GENERATED by harness/props/c08.py from {REL}; do not edit
namespace CryoCat.Gen.C08
/-- comparison operators as they appear in the source (`.bad` = not one of the six) -/
inductive Cmp | eq | ne | lt | le | gt | ge | bad
deriving DecidableEq, Repr
/-- what a loop runs over: the requested values themselves / the distinct values of the column in order of
first appearance (`Series.unique`) / the distinct values sorted (`np.unique`, `groupby` default) -/
inductive Iter | requested | uniqueFirst | uniqueSorted | bad
deriving DecidableEq, Repr
/-- how the requested values are made iterable: `np.atleast_1d(np.asarray(v))` / `np.array([v])` (wrong for
array-likes) / `if not isinstance(v, (list, np.ndarray)): v = [v]` / nothing -/
inductive Norm | atleast1d | wrapInList | listOrArrayElseWrap | none | bad
deriving DecidableEq, Repr
/-- how the loop accumulates: `acc = concat([acc, part])` or `list.append(part)` / `concat([part, acc])` or
`insert(0, part)` / `frame = frame.loc[mask of the same frame]` -/
inductive Acc | append | prepend | narrow | bad
deriving DecidableEq, Repr
/-- index handling: `reset_index(drop=True)` / no reset / `reset_index()` that would add the old index as a column -/
inductive Reset | dropTrue | absent | keepOld | bad
deriving DecidableEq, Repr
inductive Codes | factorizeFirst | bad
deriving DecidableEq, Repr
/-- structure of a `for value in …: <select rows by comparison with value>; <accumulate>` loop, extracted from
ast shapes (local variable names are not compared) -/
structure SelectLoop where
  iter : Iter
  norm : Norm
  acc : Acc
  reset : Reset
  sameFrame : Bool
deriving DecidableEq, Repr
/-- structure of `renumber_objects_sequentially`: `groupby(groupKey)` in `groupOrder`, per group
`factorize()[0] + start`, then `start = max + startUpdate`, written back into the re-indexed frame -/
structure ObjLoop where
  groupKey : String
  groupOrder : Iter
  codes : Codes
  startUpdate : Option Nat
  reset : Reset
  writesBack : Bool
deriving DecidableEq, Repr
def anchorsOk : Bool := {b(src.ok)}
def motlColumnNames : List String := {core.lean_str_list(cols)}
def formatIsPermCheck : Bool := {b(missing_true("format_is_perm"))}
-- get_motl_subset
def subsetCmp : Cmp := {cmp_("subset_cmp")}
def subsetLoop : SelectLoop := {loop_("subset_loop")}
-- remove_feature
def removeCmp : Cmp := {cmp_("remove_cmp")}
def removeLoop : SelectLoop := {loop_("remove_loop")}
-- split_by_feature
def splitCmp : Cmp := {cmp_("split_cmp")}
def splitLoop : SelectLoop := {loop_("split_loop")}
-- get_motl_intersection
def intersectSelection : String := {s("inter")}
def intersectOperands : String := {s("inter_loads")}
def intersectReturn : String := {s("inter_ret")}
def intersectKeepsFirstByIsin : Bool := {b(inter_ok)}
def loadFillValue : Nat := {nat("fill_value")}
-- drop_duplicates
def ddDefaultDuplicates : String := {core.lean_str(str(dd[0]))}
def ddDefaultDecision : String := {core.lean_str(str(dd[1]))}
def ddDefaultAscending : Bool := {b(dd[2])}
def ddFirstKeyAscending : Bool := {b(missing_true("dd_first_asc"))}
def ddKeep : String := {s("dd_keep")}
-- merge_and_renumber / merge_and_drop_duplicates
def mergeRenumberShiftCmp : Cmp := {cmp_("mr_cmp")}
def mergeRenumberShift : String := {s("mr_shift")}
def mergeRenumberMinMax : String := {s("mr_minmax")}
def mergeRenumberTail : String := {s("mr_tail")}
def mergeDropDupShiftCmp : Cmp := {cmp_("md_cmp")}
def mergeDropDupShift : String := {s("md_shift")}
def mergeDropDupMinMax : String := {s("md_minmax")}
def mergeDropDupTail : String := {s("md_tail")}
def mergeRenumberLoad : String := {s("mr_load")}
def mergeDropDupLoad : String := {s("md_load")}
-- renumber_particles
def renumberParticlesAssign : String := {s("rp")}
def renumberParticlesFirst : Nat := {nat("rp_start")}
-- renumber_objects_sequentially
def renumberObjectsDefaultStart : Nat := {nat("ro_default")}
def objLoop : ObjLoop := {obj_()}
-- signatures (parameter names and literal defaults) and digests of the whole alpha-normalised bodies
-- subclasses: overrides of the anchored methods (none documented), what each constructor does with a DataFrame
def subclassOverrides : List String := {strs("overrides") if isinstance(g.get("overrides"), list) else '["<missing>"]'}
def subclassConstructors : List String := {strs("ctors")}
def motlSubclasses : List String := {core.lean_str_list(g["subclasses"] if isinstance(g.get("subclasses"), list) else motl_subclasses(src.tree(REL)))}
def signatures : List String := {strs("signatures")}
def bodyDigests : List String := {strs("bodies")}
end CryoCat.Gen.C08
"""


# ================================================================== generators, adapter, judge
import math, random as _random, copy as _copy
from collections import Counter

PROP = "C08"
COUNT = {"quick": 400, "thorough": 6000, "search": 1500}
PARALLEL = True
FIELDS = DOCUMENTED
IDX = {f: i for i, f in enumerate(FIELDS)}
KEY_FIELDS = ["tomo_id", "object_id", "subtomo_id", "class", "geom1", "geom2", "score", "subtomo_mean"]
NAN_FIELDS = ["x", "y", "z", "shift_x", "shift_y", "shift_z", "geom3", "geom4", "geom5", "phi", "psi", "theta"]
NANB = 0x7FF8000000000000
ZEROB = 0
OPS = ["subset", "remove", "split", "intersect", "dropdup", "merge_renumber", "merge_dropdup", "renumber_particles", "renumber_objects"]

RULE = ("histories: a base particle list of 0..200 rows (key fields tomo_id/object_id/subtomo_id/class/geom1/geom2/score/subtomo_mean from small "
        "domains with gaps, so values repeat; subtomo_id unsorted with duplicates; object ids include 0 and negatives; NaN holes in the 12 "
        "non-key fields; the frame's column order is shuffled in 30% of the cases) followed by 1..10 operations (thorough: up to 40) drawn from "
        "subset / remove / split / intersection / drop_duplicates / merge_and_renumber / merge_and_drop_duplicates / renumber_particles / "
        "renumber_objects_sequentially; arguments are chosen against a pure-Python simulation of the current table so that most ops hit "
        "existing values (requested values as list / tuple / ndarray / scalar, repeated and absent values, empty value lists; second operands of "
        "intersection repeat ids and have up to 45 rows; merge inputs are Motl objects or bare DataFrames, some empty, 1..5 per call). "
        "Round 7: requested values of subset AND remove come as list / tuple / ndarray / Series / scalar (remove_feature documents array-like: D34); the receiver and "
        "list classes are EVERY class of cryomotl.py whose base chain reaches Motl (ModMotl included; translator obligation subclasses_documented); the large-ids stream also "
        "draws adjacent ids from 2^24 on (one number in single precision) and nextafter neighbours as scores / geom1 values. "
        "Receiver classes (M-5): the list the history starts from is a Motl / EmMotl / StopgapMotl / RelionMotl / DynamoMotl / ModMotl / Motl.load(frame) instance and "
        "the class methods (intersection, both merges) are called on each of these classes (42% not the plain Motl); every class but Motl re-loads the frame it is given "
        "(missing values filled, row labels reset), so the REAL table after construction is the table the history is judged from. H3: the base frame carries shifted or "
        "duplicated row labels in 16% of the cases. An op that would grow the table beyond 400 rows is not taken (len(values) == len(rows) only for <= 24 rows). "
        "Round 6 -- 'after ANY sequence of operations' includes using a merge's INPUTS again: 25% of the merges only look at the result and go on with the same "
        "list (itself an input; judged like split(keep)), often followed by a subset / remove by object number on it; after 40% of the merges with a Motl-instance input "
        "(and in 20% of the other intersections once such an object exists) that very object is the second list of an intersection by object number; every later step "
        "is judged against the ORIGINAL tables of the re-used lists, and a caller-owned argument found edited (corr) no longer ends the judging. "
        "Five streams: plain (56%); nan-decision (7%): NaN in a DECISION column (score / geom2 / subtomo_mean) used by drop_duplicates -- a row without a value is "
        "never the best one (pandas sorts missing values last); nan-key (12%): NaN in ONE key field (tomo_id / object_id / subtomo_id / class / geom1) which is then used as the "
        "feature of split / subset / remove (NaN also among the requested values) or by renumber_objects_sequentially -- where the real code then "
        "behaves exactly as the open known findings C08-K1 / K2 / K3 describe the step is classified AND THE FOLLOWING STEPS ARE STILL JUDGED against the implementation's "
        "actual tables (L-11), every other deviation is a violation; large-ids (14%): "
        "adjacent particle / object numbers >= 1e5 and scores / geom values differing in the 6th digit, requested in subset / remove; g2-cache (12%): "
        "split by F, rewrite F without changing the number of rows (renumber), split by F again ON THE SAME INSTANCE. "
        "G1: keywords whose value equals the signature default are omitted in 45-50% of the calls (feature_id of subset / intersection, the three of "
        "drop_duplicates, starting_number), subset also with return_df=True and reset_index=False. G2: 40% of the splits only look at the parts and continue "
        "with the same instance; 12% of the non-mutating calls are made twice on the same objects (the second result is judged); operand objects "
        "(second list of an intersection, inputs of a merge) are re-used by later calls; in-place ops are repeated; every caller-owned argument is "
        "compared before/after each call. G3: dtype of every returned column, text cells, index state, column order and returned class are observed. "
        "After every op the real output (all parts of a split, the column names) is sent to the Lean verified checkers, which decide the clauses of "
        "the statement against the REAL previous table (Python evaluators cross-check them); then table, parts, index state, dtypes, class are compared "
        "with the Lean model / the documented behaviour (corr). "
        "non-trivial = base >= 4 rows, >= 3 ops of >= 2 kinds, and >= 2 ops acting on a non-empty table; distinct = distinct (base, ops) content")
ASSUMPTIONS = [
    "key comparisons are IEEE `==` (the statement's 'matching'): a missing key matches nothing. subset / remove / intersection are exact under it "
    "(subset_spec_beq, remove_spec_beq need no reflexivity); split_partition, dropDup_spec (every id survives) and renumberObjects_spec need `=` to be "
    "reflexive on the keys (split_drops_irreflexive_rows, renumberObjects_irreflexive_rows show what happens otherwise = open known finding C08-K1)",
    "reading of the statement with missing values (one reading for the Lean checkers stepClausesM, the Python evaluators and classify()): a missing id "
    "duplicates nothing (all rows without an id survive drop_duplicates: C08-K2 is reported only when at least two such rows actually collapse into one); a "
    "missing decision value is never the best one (a survivor without one is right only if no row of its id has one; pandas sort_values puts missing values "
    "last whatever the direction); a missing object number carries no offset and collides with nothing (C08-K3 is reported only on an actual collision / "
    "lost grouping). While C08-K2 / K3 are not registered as open such lists are steered around (a merge gets them as a bare DataFrame)",
    "a class method called on a class other than Motl returns cls(<frame>) -> check_df_type: missing values of EVERY input may come back filled (Op.mayFill via "
    "the df tags on the wire); such a receiver is generated only when no Motl input has a missing key, so filling before or after the numbering is the same",
    "numpy float64 ==, <, + on the generated key values (small integers, halves, integers < 2^24, dyadic fractions) = Lean Float ==, <, + (IEEE binary64 both; compared bit for bit on every case)",
    "Motl.load(DataFrame) replaces missing values by 0.0 (check_df_type: fillna(0.0)); get_motl_intersection and merge inputs given as DataFrames therefore "
    "return 0.0 where a surviving row had NaN. ONLY these operations may do so (Op.mayFill; step_rows / history_rows / check_history_rows are stated with opFill / histFill); "
    "selections, drop_duplicates, the renumberings and merges of Motl objects must return literal rows (step_rows_literal, history_rows_literal)",
    "pandas: boolean-mask selection and concat keep row order; Series.unique / factorize number by first appearance; sort_values on two keys is a stable "
    "lexicographic sort; drop_duplicates keeps the first; groupby iterates its keys in ascending order; isin is exact float membership",
    "the whole-body digests (bodies_documented) are ast.dump digests under the pinned Python 3.12; another Python version may need them regenerated",
]
TRUSTED = ["spec findings are decided by the Lean verified checkers on the REAL output of every op -- by the EXECUTED PROVED INSTANCE (Model/C08_Cell.lean: cells decoded "
           "from their bit patterns into exact rationals, NaN -> `missing`; theorems check_step_iff_executed / check_run_iff_executed / check_history_rows_executed, no "
           "hypothesis left) whenever no key cell of the step is missing or infinite (`proved` in the verdict; a disagreement with the Float run is the corr finding "
           "checker-instances-disagree), otherwise by the missing-value-aware Float checkers stepClausesM, which no theorem covers beyond dropDupClausesM_no_missing and "
           "the concrete witnesses -- or by an exception with a frame inside cryocat/ (classified by exception TYPE and operation, never by message text). A text cell in a "
           "numeric field and a caller-owned argument edited in place are corr (the statement is silent about them). Trusted around the checkers: the adapter that reads a "
           "frame into IEEE bit patterns by column NAME (dtypes, text cells, index state and column order are recorded beside it); decodeBits (pure Nat arithmetic on the "
           "pattern; its injectivity -- a double is a dyadic rational, the code 1/3 of `missing` is not -- is argued in Model/C08_Cell.lean, not proved)",
           "an exception without a frame inside cryocat/ (harness / third-party) is reported as corr `harness-or-library-raised`, never as a spec finding",
           "offset certificates for merge_and_drop_duplicates are computed in Python but NOT trusted (the checker verifies them; a wrong one can only cause a rejection)",
           "the pure-Python clause evaluators are a cross-check only (a disagreement with the Lean checker is reported as a corr finding); the simulations used by "
           "classify() (k1_split_parts, k1_renumber_objects, py_dropdup, py_merge) only decide whether a rejected output is EXACTLY the known defect"]


def canon(b):
    """canonical bit pattern (all NaNs -> one)"""
    return NANB if (b & 0x7FF0000000000000) == 0x7FF0000000000000 and (b & 0x000FFFFFFFFFFFFF) else b


def fb(x):
    return canon(f2b(x))


def fz(row):
    """row after fillna(0.0)"""
    return tuple(ZEROB if c == NANB else c for c in row)


# ------------------------------------------------------------------ pure-Python row-set model (rows = lists of bit patterns)
def val(row, f):
    return b2f(row[IDX[f]])


def setf(row, f, v):
    r = list(row); r[IDX[f]] = fb(v); return r


def py_uniq(xs):
    out = []
    for x in xs:
        if not any(x == y for y in out):
            out.append(x)
    return out


def _nan(x):
    return x != x


def has_nan(rows, f):
    return any(r[IDX[f]] == NANB for r in rows)


def pd_uniq(xs):
    """Series.unique(): first appearance, all missing values are ONE value"""
    out, seen_nan = [], False
    for x in xs:
        if _nan(x):
            if not seen_nan:
                seen_nan = True; out.append(x)
        elif not any(x == y for y in out):
            out.append(x)
    return out


def py_dropdup(rows, dup, dec, asc):
    """sort_values([dup, dec], ascending=[True, asc]) (stable, missing values last) + drop_duplicates(subset=dup) (keep first,
    missing ids are one id) -- pandas' behaviour, also for NaN keys (class C08-K2 when dup holds NaN)"""
    def k2(r):
        d = val(r, dec)
        return (1, 0.0) if _nan(d) else (0, d if asc else -d)
    srt = sorted(rows, key=k2)
    srt = sorted(srt, key=lambda r: (1, 0.0) if _nan(val(r, dup)) else (0, val(r, dup)))
    seen, seen_nan, out = [], False, []
    for r in srt:
        v = val(r, dup)
        if _nan(v):
            if not seen_nan:
                seen_nan = True; out.append(list(r))
        elif v not in seen:
            seen.append(v); out.append(list(r))
    return out


def py_merge(inputs):
    """the documented loop, with Python's own min()/max() over the column in row order (so that a NaN object number behaves
    as in the real code: class C08-K3) """
    out, add = [], 0.0
    for df, rows in inputs:
        rows = [list(fz(r)) for r in rows] if df else [list(r) for r in rows]
        if not rows:
            continue
        mn = min(val(r, "object_id") for r in rows)
        if mn <= add:
            rows = [setf(r, "object_id", val(r, "object_id") + (add - mn + 1)) for r in rows]
        out += rows
        add = max(val(r, "object_id") for r in rows)
    return out


def refills(op):
    """the receiver class of a class method re-loads the frame it returns (`cls(<frame>)` -> check_df_type -> fillna) unless it is
    the plain Motl: every input may then come back with its missing values filled"""
    return op.get("cls", "Motl") != "Motl"


def inputs_of(op, cur):
    """(may come back filled?, rows) per input of a merge: an input handed over as a bare DataFrame is re-loaded before the loop;
    with a receiver class other than Motl the merged frame is re-loaded at the end (generated only when no Motl input has a
    missing key, so that filling first or last makes no difference to the numbers)"""
    rf = refills(op)
    return [(x["df"] or rf, x["rows"]) for x in op["before"]] + [(op["self_df"] or rf, cur)] + [(x["df"] or rf, x["rows"]) for x in op["after"]]


def k1_split_parts(rows, f):
    """what split_by_feature does when the feature holds NaN (known finding C08-K1): Series.unique() lists NaN once and
    `== NaN` selects nothing, so the rows with a missing feature are in no part (and one part is empty)"""
    return [[list(r) for r in rows if val(r, f) == v] for v in pd_uniq([val(r, f) for r in rows])]


def k1_renumber_objects(rows, start):
    """what renumber_objects_sequentially does with NaN keys (known finding C08-K1): groupby drops rows with a missing
    tomo_id (left un-renumbered); factorize codes a missing object_id as -1, so it gets start-1"""
    out = [list(r) for r in rows]
    s = start
    for t in sorted({val(r, "tomo_id") for r in rows if not _nan(val(r, "tomo_id"))}):
        idx = [i for i, r in enumerate(rows) if val(r, "tomo_id") == t]
        codes, new = [], []
        for i in idx:
            o = val(rows[i], "object_id")
            if _nan(o):
                new.append(s - 1)
            else:
                if o not in codes:
                    codes.append(o)
                new.append(s + codes.index(o))
        for i, nw in zip(idx, new):
            out[i] = setf(out[i], "object_id", float(nw))
        s = max(new) + 1
    return out


def py_step(rows, op):
    """pure-Python simulation used by the GENERATOR only (to choose arguments that hit existing values)"""
    k = op["op"]
    if k == "subset":
        return [list(r) for v in op["vs"] for r in rows if val(r, op["f"]) == b2f(v)]
    if k == "remove":
        return [list(r) for r in rows if all(val(r, op["f"]) != b2f(v) for v in op["vs"])]
    if k == "split":
        if op.get("keep"):
            return [list(r) for r in rows]
        parts = k1_split_parts(rows, op["f"])
        return parts[op["pick"]] if op["pick"] < len(parts) else []
    if k == "intersect":
        ids = {b2f(fz(r)[IDX[op["f"]]]) for r in op["other"]}
        return [list(fz(r)) for r in rows if b2f(fz(r)[IDX[op["f"]]]) in ids]
    if k == "dropdup":
        return py_dropdup(rows, op["dup"], op["dec"], op["asc"])
    if k in ("merge_renumber", "merge_dropdup") and op.get("keep") and not op.get("_result"):
        return [list(r) for r in rows]          # the result is only looked at; the history goes on with the same list
    if k == "merge_renumber":
        m = py_merge(inputs_of(op, rows))
        return [setf(r, "subtomo_id", float(i + 1)) for i, r in enumerate(m)]
    if k == "merge_dropdup":
        return py_dropdup(py_merge(inputs_of(op, rows)), "subtomo_id", "score", False)
    if k == "renumber_particles":
        return [setf(r, "subtomo_id", float(i + 1)) for i, r in enumerate(rows)]
    if k == "renumber_objects":
        return k1_renumber_objects(rows, b2f(op["start"]))   # = the documented renumbering when no key is missing
    raise ValueError(k)


# ------------------------------------------------------------------ generators
def _open_ids():
    """ids of OPEN known findings of C08 (the classes C08-K2 / C08-K3 reported by the hardening pass are generated only once
    the integrator has registered them; until then they would be unlisted violations on the unchanged tree)"""
    import json, os
    try:
        path = os.path.join(os.path.dirname(os.path.dirname(os.path.dirname(os.path.abspath(__file__)))), "known_findings.json")
        return {f["id"] for f in json.load(open(path)).get("findings", []) if f.get("status") == "open" and f.get("property") == "C08"}
    except Exception:
        return set()


def _domain(rng, f, big=False):
    if f == "tomo_id":
        return rng.choice([[1, 2, 3], [1, 2, 5, 9], [3, 7], [2], [10, 4, 1, 6, 8]])
    if f == "object_id":
        if big:
            # 2^24 + k: adjacent integers that are ONE number in single precision
            return rng.choice([[100001, 100002, 100003, 100004], [250017, 250018, 250019, 7, 8], [16777216, 16777217, 16777218, 16777219, 3]])
        return rng.choice([[1, 2, 3, 4], [0, 1, 2], [5, 9, 2, 7, 11], [1], [-2, 0, 3, 4], [1, 2, 3, 4, 5, 6, 7, 8]])
    if f == "class":
        return [1, 2, 3]
    if f in ("geom1", "geom2", "subtomo_mean"):
        if big and f == "geom1":
            return rng.choice([[0.75, 0.75 + 2.0 ** -20, 0.75 + 2.0 ** -19, 3.0],     # different values closer than 1e-5 relative
                               [0.75, math.nextafter(0.75, 1.0), math.nextafter(0.75, 0.0), 3.0]])
        return rng.choice([[0, 1, 2], [0.5, 1.5, 2.5, 3.0], [7]])
    if f == "score":
        if big:
            # neighbours in double precision (nextafter) and values 2^-21 apart: one number each in single precision / after rounding
            return rng.choice([[0.5, 0.5 + 2.0 ** -21, 0.5 + 2.0 ** -20, 0.25, 1.0], [0.5, math.nextafter(0.5, 1.0), math.nextafter(0.5, 0.0), 0.25, 1.0]])
        return rng.choice([[0.25, 0.5, 0.75, 1.0], [k / 16 for k in range(17)], [0.5]])
    raise KeyError(f)


def _payload(rng):
    k = rng.random()
    if k < 0.22:
        return float("nan")
    if k < 0.5:
        return float(rng.randint(-20, 400))
    if k < 0.8:
        return rng.uniform(-180, 180)
    return rng.gauss(0, 1e3)


def _rows(rng, n, doms, id_pool, nan_ok=True):
    rows = []
    for _ in range(n):
        r = [0.0] * 20
        for f in FIELDS:
            if f == "subtomo_id":
                r[IDX[f]] = float(rng.choice(id_pool))
            elif f in doms:
                r[IDX[f]] = float(rng.choice(doms[f]))
            else:
                v = _payload(rng)
                r[IDX[f]] = v if (nan_ok or not math.isnan(v)) else 0.0
        rows.append([fb(x) for x in r])
    return rows


def _size(rng, tier):
    k = rng.random()
    if k < 0.05:
        return 0
    if k < 0.15:
        return rng.randint(1, 3)
    if k < 0.70:
        return rng.randint(4, 30)
    if k < 0.93:
        return rng.randint(31, 100 if tier != "search" else 40)
    return rng.randint(101, 200) if tier != "search" else rng.randint(4, 12)


def _other_list(rng, cur, doms, id_pool, maxn):
    """a second list related to `cur`: some of its rows (payload re-drawn, ids repeated) plus fresh rows"""
    out = []
    k = rng.randint(0, min(len(cur), maxn))
    for r in (rng.sample(cur, k) if k else []):
        r = list(r)
        for f in NAN_FIELDS:
            if rng.random() < 0.5:
                r[IDX[f]] = fb(_payload(rng))
        out.append(r)
        if rng.random() < 0.3:
            out.append(list(r))  # repeated id in the second list
    out += _rows(rng, rng.randint(0, max(0, maxn - len(out))) if rng.random() < 0.8 else 0, doms, id_pool)
    rng.shuffle(out)
    return out


def _values(rng, cur, f, doms):
    present = py_uniq([val(r, f) for r in cur if not _nan(val(r, f))])
    pool = present if present else [1.0]
    kind = rng.choices(["list", "tuple", "ndarray", "scalar", "series"], [0.36, 0.17, 0.26, 0.14, 0.07])[0]
    nanreq = has_nan(cur, f) and rng.random() < 0.3      # a missing value among the requested ones
    if kind == "scalar":
        vs = [rng.choice(pool)] if rng.random() < 0.85 else [97.0]
    else:
        # len(values) == len(rows) is the D20 shape; it squares the table, so only for short lists (L-4)
        n = len(cur) if (rng.random() < 0.1 and len(cur) <= 24) else rng.choice([0, 1, 1, 2, 2, 3, 4])
        vs = [rng.choice(pool) if rng.random() < 0.85 else float(rng.choice([97, 0, -1, 2.5])) for _ in range(n)]
        if nanreq:
            vs.insert(rng.randrange(len(vs) + 1), float("nan"))
    return kind, [fb(v) for v in vs]


CLASSES = ["Motl"] + SUBCLASSES      # every list class of the module (translator obligation `subclasses_documented`)


def _pick_cls(rng):
    return rng.choices(CLASSES, [55] + [9] * len(SUBCLASSES))[0]


def _gen_op(rng, cur, doms, id_pool, tier, ctx):
    """ctx: dict(nanf=field holding NaN keys or None, big=bool, pool=[reusable operand lists], open=set of open finding ids)"""
    kind = rng.choices(OPS, [16, 12, 10, 14, 12, 9, 7, 8, 12])[0]
    nanf = ctx.get("nanf")
    pref = [nanf] * 3 if nanf else (["subtomo_id", "geom1", "score", "object_id"] if ctx.get("big") else [])
    twice = rng.random() < 0.12
    if kind in ("subset", "remove"):
        f = rng.choice(["tomo_id", "tomo_id", "tomo_id", "object_id", "class", "subtomo_id", "geom1", "score"] + pref * 3)
        vk, vs = _values(rng, cur, f, doms)
        # remove_feature documents `feature_values : array-like` like get_motl_subset: tuples, arrays, Series and scalars are all generated
        op = dict(op=kind, f=f, vs=vs, vkind=vk)
        if kind == "subset":
            # G1: omit keywords whose value is the signature default (feature_id='tomo_id', return_df=False, reset_index=True)
            op["omit_f"] = (f == "tomo_id" and rng.random() < 0.5)
            op["ret_df"] = rng.random() < 0.12
            op["reset"] = rng.choices(["omit", True, False], [0.5, 0.3, 0.2])[0]
            op["twice"] = twice
        else:
            op["kw"] = rng.random() < 0.3
        return op
    if kind == "split":
        f = rng.choice(["tomo_id", "tomo_id", "object_id", "class", "geom2", "subtomo_id"] + pref)
        n = len(k1_split_parts(cur, f))
        return dict(op="split", f=f, pick=rng.randrange(n) if n else 0, keep=rng.random() < 0.4, twice=twice)
    if kind == "intersect":
        f = rng.choice(["subtomo_id", "subtomo_id", "subtomo_id", "subtomo_id", "tomo_id", "object_id", "class"] + pref)
        reuse = [x for x in ctx["pool"] if x["kind"] == "other"]
        merged = [x for x in ctx["pool"] if x["kind"] == "input" and not x["df"] and x["rows"]]
        if merged and rng.random() < 0.2:
            # round 6: the second list IS an object that an earlier merge was given as input
            x = rng.choice(merged)
            f = rng.choice(["object_id", "object_id", f])
            return dict(op="intersect", f=f, other=x["rows"], oid=x["oid"], okey="input", omit_f=False, twice=twice, cls=_pick_cls(rng))
        if reuse and rng.random() < 0.25:
            x = rng.choice(reuse)
            other, oid = x["rows"], x["oid"]
        else:
            maxn = (25 if rng.random() < 0.6 else 45) if tier != "thorough" else 60
            other, oid = _other_list(rng, cur, doms, id_pool, maxn), f"o{len(ctx['pool'])}"
            ctx["pool"].append(dict(kind="other", rows=other, oid=oid))
        return dict(op="intersect", f=f, other=other, oid=oid, omit_f=(f == "subtomo_id" and rng.random() < 0.5), twice=twice, cls=_pick_cls(rng))
    if kind == "dropdup":
        dup = rng.choice(["subtomo_id", "subtomo_id", "subtomo_id", "object_id", "tomo_id", "class"])
        if has_nan(cur, dup) and "C08-K2" not in ctx["open"]:
            dup = next((d for d in ["subtomo_id", "tomo_id", "class", "object_id"] if not has_nan(cur, d)), "geom2")
        decf = ctx.get("decf")
        dec = rng.choice([f for f in ["score", "score", "score", "geom1", "geom2", "subtomo_mean"] + ([decf] * 6 if decf else []) if f != dup])
        asc = rng.random() < 0.35
        # G1: omit keywords whose value is the signature default
        omit = [k for k, isdef in (("dup", dup == "subtomo_id"), ("dec", dec == "score"), ("asc", not asc)) if isdef and rng.random() < 0.45]
        return dict(op="dropdup", dup=dup, dec=dec, asc=asc, omit=omit)
    if kind in ("merge_renumber", "merge_dropdup"):
        def inp():
            reuse = [x for x in ctx["pool"] if x["kind"] == "input"]
            if reuse and rng.random() < 0.3:
                x = rng.choice(reuse)
                return dict(df=x["df"], rows=x["rows"], oid=x["oid"])
            n = 0 if rng.random() < 0.2 else rng.randint(1, 12)
            x = dict(kind="input", df=rng.random() < 0.4, rows=_rows(rng, n, doms, id_pool), oid=f"i{len(ctx['pool'])}")
            ctx["pool"].append(x)
            return dict(df=x["df"], rows=x["rows"], oid=x["oid"])
        nb, na = rng.choice([0, 0, 1, 2]), rng.choice([0, 1, 1, 2])
        self_df = rng.random() < 0.4
        # a NaN object number (subtomo number for merge_and_drop_duplicates) in a Motl input is class C08-K3 (C08-K2): handed
        # over as a bare DataFrame the list is re-loaded (missing values filled) and the merge is exact
        if has_nan(cur, "object_id") and "C08-K3" not in ctx["open"]:
            self_df = True
        if kind == "merge_dropdup" and has_nan(cur, "subtomo_id") and "C08-K2" not in ctx["open"]:
            self_df = True
        op = dict(op=kind, before=[inp() for _ in range(nb)], after=[inp() for _ in range(na)], self_df=self_df, twice=twice)
        # receiver class (M-5): the class methods are inherited; cls(<merged frame>) re-loads the frame for every class but Motl.
        # With a missing KEY in a Motl input the order of filling and numbering matters (classes K2 / K3): plain Motl then.
        keyed = [r for df, rows in [(x["df"], x["rows"]) for x in op["before"] + op["after"]] + [(self_df, cur)] if not df for r in rows]
        if not any(r[IDX[f]] == NANB for r in keyed for f in ("object_id", "subtomo_id", "score")):
            op["cls"] = _pick_cls(rng)
        # round 6: in a quarter of the merges the result is only looked at and the history goes on with the SAME list, which was
        # one of the inputs (judged like a split(keep): against the table before the call)
        if rng.random() < 0.25:
            op["keep"] = True
        return op
    if kind == "renumber_particles":
        return dict(op=kind)
    return dict(op="renumber_objects", start=fb(float(rng.choice([1, 1, 1, 0, 5, 10, 100]))), default=rng.random() < 0.3)


def gen_case(rng, tier):
    n = _size(rng, tier)
    stream = rng.choices(["plain", "nan-key", "nan-decision", "g2-cache", "large-ids"], [0.56, 0.12, 0.07, 0.11, 0.14])[0]
    big = stream == "large-ids"
    doms = {f: _domain(rng, f, big) for f in KEY_FIELDS if f != "subtomo_id"}
    pool_n = max(1, int(max(n, 4) * rng.choice([0.5, 0.8, 1.5])))
    if big:   # adjacent particle numbers >= 1e5 (two different ids within 1e-5 relative of each other)
        # 16777216 = 2^24: from there on adjacent integers are the same number in single precision (a comparison done in float32
        # confuses 16777217 with 16777216)
        lo = rng.choice([100001, 250017, 1000003, 16777216, 16777216])
        id_pool = rng.sample(range(lo, lo + 2 * pool_n + 1), pool_n)
    else:
        id_pool = rng.sample(range(1, 4 * pool_n + 1), pool_n)   # unsorted, with gaps; rows draw with repetition
    if stream in ("nan-key", "nan-decision", "g2-cache") and n < 4:
        n = rng.randint(4, 30)
    base = _rows(rng, n, doms, id_pool)
    ctx = dict(nanf=None, decf=None, big=big, pool=[], open=_open_ids())
    # M-5: the class of the list the history starts from (Motl.load(frame) returns an EmMotl); every class but the plain Motl
    # fills missing values when it is constructed, so the streams that are about missing keys start from a plain Motl
    cls0 = "Motl" if stream in ("nan-key", "nan-decision") else rng.choices(CLASSES + ["load"], [52] + [7] * len(SUBCLASSES) + [13])[0]
    # H3: row labels a user naturally has (Motl(frame) keeps them): default / shifted / duplicated
    index = rng.choices(["default", "shifted", "duplicated"], [0.84, 0.08, 0.08])[0]
    if stream == "nan-decision" and base:
        # a missing DECISION value (score / geom2 / subtomo_mean): pandas sorts missing values last whatever the direction, so a
        # row without a score is kept only if no row of its id has one (M-4)
        f = rng.choice(["score", "score", "geom2", "subtomo_mean"])
        ctx["decf"] = f
        for i in rng.sample(range(len(base)), max(1, min(len(base), rng.randint(1, 1 + len(base) // 3)))):
            base[i][IDX[f]] = NANB
    if stream == "nan-key" and base:
        # a missing value in a KEY field ("repeated and missing field values"): tomo_id / object_id / subtomo_id or another
        # field used as the feature of subset / remove / split
        f = rng.choice(["tomo_id", "object_id", "subtomo_id", "tomo_id", "object_id", "subtomo_id", "class", "geom1"])
        ctx["nanf"] = f
        for i in rng.sample(range(len(base)), max(1, min(len(base), rng.randint(1, 1 + len(base) // 4)))):
            base[i][IDX[f]] = NANB
    cols = list(FIELDS)
    if rng.random() < 0.3:
        rng.shuffle(cols)
    nops = rng.randint(1, 10)
    if tier == "thorough" and rng.random() < 0.05:
        nops = rng.randint(11, 40)
    ops, cur = [], ([list(fz(r)) for r in base] if cls0 != "Motl" else base)

    def push(op):
        """simulate first; an op that would grow the table beyond 400 rows is not taken (L-4: the guard used to look at the table
        only after the NEXT op had been pushed)"""
        nonlocal cur
        if op["op"] == "renumber_objects" and op.get("default"):
            op["start"] = fb(1.0)
        new = py_step(cur, op)
        if len(new) > 400:
            return False
        ops.append(op)
        cur = new
        return True

    if stream == "nan-key" and rng.random() < 0.75:
        # use the field with the missing key early, while the rows that hold it are still in the list
        f = ctx["nanf"]
        lead = rng.choice(["split", "subset", "remove", "renumber_objects"] if f in ("tomo_id", "object_id") else ["split", "subset", "remove"])
        if lead == "split":
            k = len(k1_split_parts(cur, f))
            push(dict(op="split", f=f, pick=rng.randrange(k) if k else 0, keep=rng.random() < 0.5, twice=False))
        elif lead == "renumber_objects":
            push(dict(op="renumber_objects", start=fb(float(rng.choice([1, 1, 5]))), default=rng.random() < 0.3))
        else:
            vk, vs = _values(rng, cur, f, doms)
            push(dict(op=lead, f=f, vs=vs, vkind=vk, omit_f=False, ret_df=False, reset="omit", twice=False, kw=False))
    if stream == "large-ids" and cur and rng.random() < 0.75:
        # request a value that has a DIFFERENT value of the same field within 1e-5 relative (adjacent particle numbers >= 1e5,
        # scores differing in the 6th digit): selection must stay exact
        f = rng.choice(["subtomo_id", "subtomo_id", "object_id", "geom1", "score"])
        col = sorted({val(r, f) for r in cur})
        near = [a for a in col if any(0 < abs(a - b) <= 1e-5 * abs(b) for b in col)]
        if near:
            lead = rng.choice(["subset", "subset", "remove"])
            vs = rng.sample(near, min(len(near), rng.choice([1, 1, 2, 3])))
            vk = rng.choice(["list", "ndarray", "scalar"] if len(vs) == 1 else ["list", "ndarray"])
            push(dict(op=lead, f=f, vs=[fb(v) for v in vs], vkind=vk, omit_f=False, ret_df=False, reset="omit", twice=False, kw=False))
    if stream == "g2-cache":
        # G2: ONE instance asked for the unique values of F, then F rewritten without changing the number of rows, then asked
        # again (a cache keyed by (feature, shape) would answer with the stale values)
        for _ in range(rng.randint(0, 2)):
            push(_gen_op(rng, cur, doms, id_pool, tier, ctx))
        f = rng.choice(["object_id", "object_id", "subtomo_id"])
        push(dict(op="split", f=f, pick=0, keep=True, twice=False))
        if f == "object_id":
            push(dict(op="renumber_objects", start=fb(float(rng.choice([1, 1, 5, 100]))), default=rng.random() < 0.3))
        else:
            push(dict(op="renumber_particles"))
        k = len(k1_split_parts(cur, f))
        push(dict(op="split", f=f, pick=rng.randrange(k) if k else 0, keep=rng.random() < 0.5, twice=False))
    if stream == "nan-decision" and rng.random() < 0.7:
        f = ctx["decf"]
        dup = rng.choice(["subtomo_id", "subtomo_id", "tomo_id", "object_id", "class"])
        asc = rng.random() < 0.4
        push(dict(op="dropdup", dup=dup, dec=f, asc=asc, omit=[k for k, d in (("dup", dup == "subtomo_id"), ("dec", f == "score"), ("asc", not asc)) if d and rng.random() < 0.45]))
    tries = 0
    while len(ops) < nops and tries < 4 * nops + 8:
        tries += 1
        op = _gen_op(rng, cur, doms, id_pool, tier, ctx)
        if not push(op):
            continue
        if op["op"] in ("remove", "dropdup", "renumber_particles", "renumber_objects") and rng.random() < 0.1:
            push(dict(op))      # the same in-place operation once more on the same instance
        if op["op"] in ("merge_renumber", "merge_dropdup"):
            # round 6 (seed load-shallow-copy-aliases-input): "after any sequence of operations" -- the lists a merge was GIVEN are
            # used again, and the later step is judged against their ORIGINAL tables: the intersection with an input object, a
            # selection by object number on the list that was itself an input
            ins = [x for x in op["before"] + op["after"] if not x["df"] and x["rows"] and x.get("oid")]
            if ins and rng.random() < 0.4:
                x = rng.choice(ins)
                push(dict(op="intersect", f="object_id", other=x["rows"], oid=x["oid"], okey="input", omit_f=False, twice=False, cls=_pick_cls(rng)))
            elif op.get("keep") and not op["self_df"] and cur and rng.random() < 0.6:
                vk, vs = _values(rng, cur, "object_id", doms)
                lead = rng.choice(["subset", "remove"])
                push(dict(op=lead, f="object_id", vs=vs, vkind=vk, omit_f=False, ret_df=False, reset="omit", twice=False, kw=False))
    case = dict(base=base, cols=cols, ops=ops, stream=stream)
    if cls0 != "Motl":
        case["cls0"] = cls0
    if index != "default":
        case["index"] = index
    return case


def generate(rng, tier, n):
    for _ in range(n):
        yield gen_case(rng, tier)


def _rep(case, k, new):
    ops = case["ops"]
    return dict(case, ops=ops[:k] + [new] + ops[k + 1:])


def shrink(case):
    ops, base = case["ops"], case["base"]
    for k in range(len(ops) - 1, 0, -1):          # a shorter prefix
        yield dict(case, ops=ops[:k])
    for k in range(len(ops) - 1):                  # drop one earlier op
        yield dict(case, ops=ops[:k] + ops[k + 1:])
    if case.get("cols") != FIELDS:
        yield dict(case, cols=list(FIELDS))
    if case.get("cls0"):
        yield {k: v for k, v in case.items() if k != "cls0"}
    if case.get("index"):
        yield {k: v for k, v in case.items() if k != "index"}
    for k, op in enumerate(ops):
        if op.get("cls", "Motl") != "Motl":
            yield _rep(case, k, {a: b for a, b in op.items() if a != "cls"})
    if len(base) > 1:
        yield dict(case, base=base[: len(base) // 2])
        yield dict(case, base=base[len(base) // 2:])
        for i in range(min(len(base), 12)):
            yield dict(case, base=base[:i] + base[i + 1:])
    for k, op in enumerate(ops):                   # smaller operands, plainer calls
        for key in ("other",):
            if key in op and len(op[key]) > 1:
                yield _rep(case, k, dict(op, oid=None, **{key: op[key][: len(op[key]) // 2]}))
                yield _rep(case, k, dict(op, oid=None, **{key: op[key][len(op[key]) // 2:]}))
        for key in ("before", "after"):
            if key in op and op[key]:
                yield _rep(case, k, dict(op, **{key: op[key][1:]}))
                for j, x in enumerate(op[key]):
                    if len(x["rows"]) > 1:
                        nx = dict(x, oid=None, rows=x["rows"][: len(x["rows"]) // 2])
                        yield _rep(case, k, dict(op, **{key: op[key][:j] + [nx] + op[key][j + 1:]}))
        if "vs" in op and len(op["vs"]) > 1 and op.get("vkind") != "scalar":
            yield _rep(case, k, dict(op, vs=op["vs"][1:]))
        if op.get("twice"):
            yield _rep(case, k, dict(op, twice=False))
        if op.get("okey") == "input" and not any(x.get("oid") == op.get("oid") for o in ops for x in o.get("before", []) + o.get("after", [])):
            yield _rep(case, k, {a: b for a, b in op.items() if a != "okey"})
        if op.get("ret_df") or op.get("reset") not in (None, "omit"):
            yield _rep(case, k, dict(op, ret_df=False, reset="omit"))
    # NaN holes -> plain numbers (payload fields only; a NaN key is the point of a nan-key case)
    if any(r[IDX[f]] == NANB for r in base for f in NAN_FIELDS):
        yield dict(case, base=[[fb(1.0) if (c == NANB and FIELDS[j] in NAN_FIELDS) else c for j, c in enumerate(r)] for r in base])


# ------------------------------------------------------------------ implementation adapter
def _table(df):
    """observation of a frame WITHOUT coercion: column names in the frame's order, cells as IEEE bit patterns in the canonical
    field order, the dtype of every column that is not float64, text cells, and the state of the index"""
    import numpy as np, pandas as pd
    cols = [str(c) for c in df.columns]
    named = sorted(cols) == sorted(FIELDS)
    odd, text = {}, []
    if named and all(str(t) == "float64" for t in df.dtypes.tolist()):
        arr = df[FIELDS].to_numpy()
        rows = [[fb(x) for x in row] for row in arr.tolist()]
    else:
        data = []
        for j, c in enumerate(FIELDS if named else cols):
            col = df[c] if named else df.iloc[:, j]
            dt = str(col.dtype)
            if dt != "float64":
                odd[c] = dt
            vals = []
            if pd.api.types.is_numeric_dtype(col.dtype) and not pd.api.types.is_bool_dtype(col.dtype):
                vals = [float(x) if x is not None and x is not pd.NA else float("nan") for x in col.tolist()]
            else:
                for x in col.tolist():
                    if isinstance(x, (int, float, np.integer, np.floating)) and not isinstance(x, (bool, np.bool_)):
                        vals.append(float(x))
                    elif x is None or x is pd.NA:
                        vals.append(float("nan"))
                    else:
                        text.append(f"{c}={x!r}"[:60]); vals.append(float("nan"))
            data.append([fb(v) for v in vals])
        rows = [list(r) for r in zip(*data)] if data else []
    idx = df.index
    n = len(df)
    default = (isinstance(idx, pd.RangeIndex) and idx.start == 0 and idx.step == 1) or list(idx) == list(range(n))
    out = dict(cols=cols, rows=rows, index="default" if default else ("unique" if idx.is_unique else "duplicated"))
    if odd:
        out["dtypes"] = odd
    if text:
        out["text"] = text[:8]
    return out


def _frame(rows, cols=None, index="default"):
    import pandas as pd
    vals = [[b2f(b) for b in r] for r in rows]
    df = pd.DataFrame(vals, columns=FIELDS, dtype=float) if vals else pd.DataFrame({c: [] for c in FIELDS}, dtype=float)
    if index == "shifted":          # H3: labels a frame has after a filter elsewhere (gaps, not starting at 0)
        df.index = [7 + 3 * i for i in range(len(df))]
    elif index == "duplicated":     # ... or after a concat without ignore_index
        df.index = [i // 2 for i in range(len(df))]
    return df[cols] if cols else df


def _vals(op):
    import numpy as np
    vs = [b2f(v) for v in op["vs"]]
    k = op.get("vkind", "list")
    if k == "scalar":
        return vs[0]
    if k == "tuple":
        return tuple(vs)
    if k == "ndarray":
        return np.array(vs, dtype=float)
    if k == "series":
        import pandas as pd
        return pd.Series(vs, dtype=float, index=[3 + 2 * i for i in range(len(vs))])     # labels unrelated to the list's
    return vs


def _snap(x):
    """before/after picture of a caller-owned object (Motl, DataFrame, ndarray, list, tuple, scalar)"""
    import numpy as np, pandas as pd
    if hasattr(x, "df") and isinstance(getattr(x, "df"), pd.DataFrame):
        t = _table(x.df)
        return ("Motl", type(x).__name__, t["cols"], t["rows"], t["index"], t.get("dtypes"), [int(i) if isinstance(i, (int, np.integer)) else str(i) for i in x.df.index[:400]])
    if isinstance(x, pd.DataFrame):
        t = _table(x)
        return ("DataFrame", t["cols"], t["rows"], t["index"], t.get("dtypes"), [int(i) if isinstance(i, (int, np.integer)) else str(i) for i in x.index[:400]])
    if isinstance(x, pd.Series):
        return ("Series", str(x.dtype), [int(i) for i in x.index], [fb(float(v)) for v in x.tolist()])
    if isinstance(x, np.ndarray):
        return ("ndarray", str(x.dtype), list(x.shape), [fb(float(v)) for v in x.ravel().tolist()])
    if isinstance(x, (list, tuple)):
        return (type(x).__name__, [fb(float(v)) for v in x])
    return ("scalar", fb(float(x)))


def _cryocat_frame(e):
    import traceback, os
    for fr in reversed(traceback.extract_tb(e.__traceback__)):
        if "/cryocat/" in fr.filename.replace("\\", "/"):
            return f"{os.path.basename(fr.filename)}:{fr.lineno}"
    return ""


def run_impl(case):
    import warnings, io, contextlib
    from cryocat import cryomotl
    Motl = cryomotl.Motl
    steps = []
    pool = {}
    klass = lambda name: getattr(cryomotl, name or "Motl")

    def operand(rows, df, oid, key):
        """a caller-owned operand; the same label gives the SAME Python object again (G2)"""
        k = (key, oid, bool(df))
        if oid is None or k not in pool:
            obj = _frame(rows) if df else Motl(_frame(rows))
            if oid is None:
                return obj
            pool[k] = obj
        return pool[k]

    with warnings.catch_warnings(), contextlib.redirect_stdout(io.StringIO()):
        warnings.simplefilter("ignore")
        try:
            frame0 = _frame(case["base"], case.get("cols"), case.get("index", "default"))
            cls0 = case.get("cls0", "Motl")
            m = Motl.load(frame0) if cls0 == "load" else klass(cls0)(frame0)
        except Exception as e:
            where = _cryocat_frame(e)
            return dict(steps=[], init=dict(error=f"{type(e).__name__}: {str(e)[:200]}", where=where))
        init = _table(m.df)
        init["type"] = type(m).__name__
        for k, op in enumerate(case["ops"]):
            kind = op["op"]
            rec = {}
            owned = []          # (label, object) the caller still owns after the call
            try:
                ncalls = 2 if op.get("twice") else 1
                new_m = m
                if kind == "subset":
                    vals = _vals(op)
                    kw = {}
                    if not op.get("omit_f"):
                        kw["feature_id"] = op["f"]
                    if op.get("ret_df"):
                        kw["return_df"] = True
                    if op.get("reset", "omit") != "omit":
                        kw["reset_index"] = bool(op["reset"])
                    owned = [("self", m), ("feature_values", vals)]
                    before = [_snap(o) for _, o in owned]
                    for c in range(ncalls):
                        res = m.get_motl_subset(vals, **kw)
                        if c == 0 and ncalls == 2:
                            rec["first"] = _table(res if op.get("ret_df") else res.df)["rows"]
                    rec["type"] = type(res).__name__
                    new_m = Motl(res) if op.get("ret_df") else res
                elif kind == "remove":
                    vals = _vals(op)
                    owned = [("feature_values", vals)]
                    before = [_snap(o) for _, o in owned]
                    if op.get("kw"):
                        m.remove_feature(feature_id=op["f"], feature_values=vals)
                    else:
                        m.remove_feature(op["f"], vals)
                elif kind == "split":
                    owned = [("self", m)]
                    before = [_snap(o) for _, o in owned]
                    for c in range(ncalls):
                        parts = m.split_by_feature(op["f"])
                        if c == 0 and ncalls == 2:
                            rec["first"] = [_table(p.df)["rows"] for p in parts]
                    rec["parts"] = [_table(p.df) for p in parts]
                    rec["part_types"] = sorted({type(p).__name__ for p in parts})
                    if not op.get("keep"):
                        new_m = parts[op["pick"]] if op["pick"] < len(parts) else Motl(_frame([]))
                elif kind == "intersect":
                    # okey == "input": the very object an earlier merge was given as input (same label -> same Python object)
                    other = operand(op["other"], False, op.get("oid"), op.get("okey", "other"))
                    owned = [("motl1", m), ("motl2", other)]
                    before = [_snap(o) for _, o in owned]
                    K = klass(op.get("cls"))
                    for c in range(ncalls):
                        res = K.get_motl_intersection(m, other) if op.get("omit_f") else K.get_motl_intersection(m, other, feature_id=op["f"])
                        if c == 0 and ncalls == 2:
                            rec["first"] = _table(res.df)["rows"]
                    new_m = res
                elif kind == "dropdup":
                    kw = {}
                    om = op.get("omit", [])
                    if "dup" not in om:
                        kw["duplicates_column"] = op["dup"]
                    if "dec" not in om:
                        kw["decision_column"] = op["dec"]
                    if "asc" not in om:
                        kw["decision_sort_ascending"] = op["asc"]
                    before = []
                    m.drop_duplicates(**kw)
                elif kind in ("merge_renumber", "merge_dropdup"):
                    mk = lambda x: operand(x["rows"], x["df"], x.get("oid"), "input")
                    lst = [mk(x) for x in op["before"]] + [m.df if op["self_df"] else m] + [mk(x) for x in op["after"]]
                    owned = [(f"motl_list[{i}]", o) for i, o in enumerate(lst)] + [("self", m)]
                    before = [_snap(o) for _, o in owned]
                    nlist = len(lst)
                    K = klass(op.get("cls"))
                    for c in range(ncalls):
                        res = K.merge_and_renumber(lst) if kind == "merge_renumber" else K.merge_and_drop_duplicates(lst)
                        if c == 0 and ncalls == 2:
                            rec["first"] = _table(res.df)["rows"]
                    if len(lst) != nlist:
                        rec.setdefault("mutated", []).append("motl_list (length)")
                    if op.get("keep"):      # the result is only looked at; the caller goes on with the list it passed in
                        rec["side"] = dict(_table(res.df), type=type(res).__name__)
                    else:
                        new_m = res
                elif kind == "renumber_particles":
                    before = []
                    m.renumber_particles()
                elif kind == "renumber_objects":
                    before = []
                    if op.get("default"):
                        m.renumber_objects_sequentially()
                    else:
                        s = b2f(op["start"])
                        m.renumber_objects_sequentially(starting_number=int(s) if s == int(s) else s)
                else:
                    raise ValueError(kind)
                # G2: what the caller handed over must be what the caller still has
                for (label, o), b in zip(owned, before):
                    if _snap(o) != b:
                        rec.setdefault("mutated", []).append(label)
                m = new_m
            except Exception as e:
                where = _cryocat_frame(e)
                steps.append(dict(error=f"{type(e).__name__}: {str(e)[:200]}", where=where, harness=(where == "")))
                break
            rec.update(_table(m.df))
            rec.setdefault("type", type(m).__name__)
            steps.append(rec)
    return dict(steps=steps, init=init)


def _wire_op(op):
    k = op["op"]
    if k in ("subset", "remove"):
        return dict(op=k, f=op["f"], vs=op["vs"])
    if k == "split":
        return dict(op=k, f=op["f"], pick=op["pick"])
    if k == "intersect":
        return dict(op=k, f=op["f"], other=op["other"])
    if k == "dropdup":
        return dict(op=k, dup=op["dup"], dec=op["dec"], asc=bool(op["asc"]))
    if k in ("merge_renumber", "merge_dropdup"):
        rf = refills(op)
        strip = lambda xs: [dict(df=bool(x["df"]) or rf, rows=x["rows"]) for x in xs]
        return dict(op=k, before=strip(op["before"]), after=strip(op["after"]), self_df=bool(op["self_df"]) or rf)
    if k == "renumber_objects":
        return dict(op=k, start=op["start"])
    return dict(op=k)


def py_merge_offsets(inputs):
    """object-number offset per input as the documented loop computes them (0 for empty / unshifted inputs)"""
    offs, add = [], 0.0
    for df, rows in inputs:
        if not rows:
            offs.append(0.0); continue
        objs = [val(fz(r) if df else r, "object_id") for r in rows]
        c = (add - min(objs) + 1) if min(objs) <= add else 0.0
        offs.append(c)
        add = max(objs) + c
    return offs


def _offset_hints(op, prev, cur):
    """UNTRUSTED certificates for the Lean checker of merge_and_drop_duplicates (one offset per input):
    the offsets read off the real output where a surviving row identifies its input uniquely (else the
    documented ones), and the documented ones. The checker verifies whichever it is given; the driver adds
    the offsets of the Lean model's own loop (`mergeOffsets`, Props check_merge_dropdup_accepts_model) as a last candidate."""
    ins = inputs_of(op, prev)
    doc = py_merge_offsets(ins)
    seen = list(doc)
    cnt = Counter(_mask(fz(r), ["object_id"]) for df, rows in ins for r in rows)
    outidx, found = {}, set()
    for c in cur:
        outidx.setdefault(_mask(fz(c), ["object_id"]), c)
    for i, (df, rows) in enumerate(ins):
        for r in rows:
            key = _mask(fz(r), ["object_id"])
            if cnt[key] == 1 and key in outidx:
                d = val(outidx[key], "object_id") - val(fz(r) if df else r, "object_id")
                if not _nan(d):
                    seen[i] = d; found.add(i); break
    # an input of which no row can be recognised in the output (all its rows dropped as duplicates) may sit anywhere that collides
    # with nothing: the clause only says that SOME offsets exist, so a third candidate puts every such input beyond all numbers in
    # sight (without it a correct output whose recognisable inputs are not at the documented offsets had no certificate: round 6)
    free = list(seen)
    top = [abs(val(c, "object_id")) for c in cur if not _nan(val(c, "object_id"))]
    top += [abs(val(fz(r) if df else r, "object_id")) + abs(seen[i]) for i, (df, rows) in enumerate(ins) for r in rows
            if not _nan(val(fz(r) if df else r, "object_id")) and not _nan(seen[i])]
    ceil_ = math.floor(max(top, default=0.0)) + 1.0
    for i, (df, rows) in enumerate(ins):
        objs = [val(fz(r) if df else r, "object_id") for r in rows]
        objs = [o for o in objs if not _nan(o)]
        if i not in found and objs:
            free[i] = ceil_ - min(objs)
            ceil_ = math.floor(max(objs) + free[i]) + 1.0
    hints = []
    for h in (seen, free, doc):
        if h not in hints:
            hints.append(h)
    return [[fb(x) for x in h] for h in hints]


def _schema_ok(t):
    return sorted(t["cols"]) == sorted(FIELDS)


def _start(case, obs):
    """the REAL table the history starts from: what the constructed list holds (a class other than the plain Motl fills missing
    values and resets the row labels when it is constructed), else the generated base"""
    init = obs.get("init") or {}
    if "rows" in init and _schema_ok(init) and not init.get("text"):
        return init["rows"]
    return case["base"]


def _is_side(op):
    """a call whose result is only looked at while the history continues with the SAME instance: a split (its parts), or a merge
    whose inputs -- the current list among them -- go on being used (round 6: a merge must leave its inputs alone)"""
    return bool(op.get("keep")) and op["op"] in ("split", "merge_renumber", "merge_dropdup")


def _side_table(op, st):
    """the table a side call returned (for a merge; a split returns parts)"""
    return st.get("side") if op["op"] != "split" else None


def _plan(case, obs):
    """splits the observed history into the MAIN chain (operations after which the history continues with the returned
    table) and SIDE checks (a split whose parts are only looked at: the same instance continues unchanged, G2).
    Returns (chain, sides, stop): chain = [(k, op, st)], sides = [(k, op, st, real table before)], stop = index of the first
    step that raised / has an unusable table (None if none)."""
    chain, sides, stop = [], [], None
    prev = _start(case, obs)
    for k, (op, st) in enumerate(zip(case["ops"], obs.get("steps", []))):
        if "error" in st:
            stop = k; break
        tabs = [st] + (st.get("parts") or []) + ([st["side"]] if st.get("side") else [])
        good = all(_schema_ok(t) and not t.get("text") for t in tabs)
        if _is_side(op):
            sides.append((k, op, st, prev))
        else:
            chain.append((k, op, st))
        if not good:
            stop = k; break
        if not _is_side(op):
            prev = st["rows"]       # after a side call the list is, by the statement, what it was: later steps are judged against THAT
    return chain, sides, stop


def _obs_rec(op, st, prev):
    tabs = [st] + (st.get("parts") or [])
    good = all(_schema_ok(t) and not t.get("text") for t in tabs)
    rec = dict(cols=st["cols"], rows=st["rows"] if good else [])
    if "parts" in st:
        rec["parts"] = [dict(cols=p["cols"], rows=p["rows"] if good else []) for p in st["parts"]]
    if op["op"] == "merge_dropdup" and good:
        rec["hints"] = _offset_hints(op, prev, st["rows"])
    return rec


def requests(case, obs):
    """[0] the model's trace of the main chain, [1] the Lean verified checkers on the REAL outputs of the main chain,
    then per side split: [2+2i] the model's parts, [3+2i] the checkers on the real parts (base = the REAL table before it)"""
    chain, sides, _ = _plan(case, obs)
    ops = [op for op in case["ops"] if not _is_side(op)]
    base = _start(case, obs)
    reqs = [dict(op="history", base=base, ops=[_wire_op(o) for o in ops])]
    prev, recs = base, []
    for k, op, st in chain:
        recs.append(_obs_rec(op, st, prev)); prev = st["rows"]
    reqs.append(dict(op="check", base=base, ops=[_wire_op(op) for _, op, _ in chain], obs=recs))
    for k, op, st, before in sides:
        if op["op"] != "split":     # a merge whose result is only looked at: [model's merge of the REAL inputs, checkers on the real result]
            sd = st.get("side") or dict(cols=[], rows=[])
            reqs.append(dict(op="history", base=before, ops=[_wire_op(op)]))
            reqs.append(dict(op="check", base=before, ops=[_wire_op(op)], obs=[_obs_rec(op, dict(cols=sd["cols"], rows=sd["rows"], text=sd.get("text")), before)]))
            continue
        w = dict(_wire_op(op), pick=0)
        parts = st.get("parts") or []
        side = dict(_obs_rec(op, st, before))
        side["rows"] = side["parts"][0]["rows"] if side.get("parts") else []     # `split-pick`: the history does not continue with a part
        reqs.append(dict(op="history", base=before, ops=[w]))
        reqs.append(dict(op="check", base=before, ops=[w], obs=[side]))
    return reqs


# ------------------------------------------------------------------ the statement, clause by clause, on the real output
def _ms(rows):
    return Counter(tuple(r) for r in rows)


def _mask(row, fields):
    r = list(row)
    for f in fields:
        r[IDX[f]] = None
    return tuple(r)


def _fmt_row(r):
    return "{" + ", ".join(f"{f}={b2f(r[IDX[f]]):g}" for f in ("subtomo_id", "tomo_id", "object_id", "class", "score")) + "}"


def clauses(op, prev, cur, parts=None):
    """findings (clause, detail) for one op: `prev` -> `cur` as the REAL code produced them. Only what the statement says."""
    out = []
    k = op["op"]
    P, C = _ms(prev), _ms(cur)
    if k == "subset":
        exp = [tuple(r) for v in op["vs"] for r in prev if val(r, op["f"]) == b2f(v)]
        if [tuple(r) for r in cur] != exp:
            out.append(("subset-holds-exactly-the-matching-rows-grouped-by-value", f"{op['f']} in {[b2f(v) for v in op['vs']]} ({op.get('vkind')}): got {len(cur)} rows, the matching rows are {len(exp)}"
                        + ("" if _ms(exp) != C else " (same rows, wrong order)")))
    elif k == "remove":
        vs = [b2f(v) for v in op["vs"]]
        exp = _ms([r for r in prev if all(val(r, op["f"]) != v for v in vs)])
        if C != exp:
            out.append(("remove-is-complement-of-selection", f"remove {op['f']} in {vs}: {len(cur)} rows left, complement of the selection has {sum(exp.values())}"))
    elif k == "split":
        allrows = [r for p in parts for r in p]
        if _ms(allrows) != P:
            out.append(("split-partitions-the-list", f"split by {op['f']}: parts hold {len(allrows)} rows, list has {len(prev)}"))
        heads = []
        for p in parts:
            vs = py_uniq([val(r, op["f"]) for r in p])
            if len(vs) != 1:
                out.append(("split-part-has-one-value", f"a part holds values {vs} of {op['f']}"))
            heads += vs[:1]
        if len(py_uniq(heads)) != len(heads):
            out.append(("split-parts-have-distinct-values", f"values of the parts: {heads}"))
    elif k == "intersect":
        ids = {b2f(fz(r)[IDX[op["f"]]]) for r in op["other"]}
        exp = [r for r in prev if b2f(fz(r)[IDX[op["f"]]]) in ids]
        if _ms([fz(r) for r in cur]) != _ms([fz(r) for r in exp]):
            out.append(("intersection-keeps-exactly-first-list-rows-with-id-in-second", f"on {op['f']}: got {len(cur)} rows, first-list rows whose id occurs in the second: {len(exp)}"))
        else:
            bad = _ms(cur) - (_ms(exp) + _ms([fz(r) for r in exp]))
            if bad:
                out.append(("other-fields-unchanged", f"intersection changed a cell other than a missing value: {_fmt_row(next(iter(bad)))}"))
    elif k in ("dropdup", "merge_dropdup"):
        if k == "dropdup":
            src, dup, dec, asc = [tuple(r) for r in prev], op["dup"], op["dec"], op["asc"]
            member = lambda r: tuple(r) in P
        else:
            ins = inputs_of(op, prev)
            src = [tuple(fz(r) if df else r) for df, rows in ins for r in rows]     # ids / scores of a DataFrame input are read after loading
            dup, dec, asc = "subtomo_id", "score", False
            # a missing value may come back filled only for an input handed over as a bare DataFrame
            pool = _ms([_mask(x, ["object_id"]) for df, rows in ins for r in rows for x in ((r, fz(r)) if df else (r,))])
            member = lambda r: _mask(r, ["object_id"]) in pool
        # reading with missing values (the same as Model/C08_Check.lean dropDupClausesM): ids are compared with ==, so a row with a
        # missing id duplicates nothing and ALL such rows survive; a missing decision value is never the best one (pandas sorts
        # missing values last whatever the direction): a survivor without one is right only if no row of its id has one
        ids = [val(r, dup) for r in cur if not _nan(val(r, dup))]
        sids = {val(r, dup) for r in src if not _nan(val(r, dup))}
        nmiss_cur, nmiss_src = sum(1 for r in cur if _nan(val(r, dup))), sum(1 for r in src if _nan(val(r, dup)))
        if len(py_uniq(ids)) != len(ids):
            out.append(("dropdup-one-row-per-id", f"{dup} values after dropping duplicates repeat: {sorted(ids)[:12]}"))
        if set(ids) != sids or nmiss_cur != nmiss_src:
            out.append(("dropdup-every-id-survives", f"ids before {sorted(sids)[:12]} (+{nmiss_src} rows without id) after {sorted(set(ids))[:12]} (+{nmiss_cur} rows without id)"))
        for r in cur:
            if not member(r):
                out.append(("other-fields-unchanged", f"row after drop_duplicates is not a row of the input: {_fmt_row(r)}")); break
            same = [val(s, dec) for s in src if val(s, dup) == val(r, dup)]
            have = [d for d in same if not _nan(d)]
            d = val(r, dec)
            if _nan(d):
                if have:
                    out.append(("dropdup-keeps-best-scoring-row", f"{dup}={val(r, dup):g}: kept a row WITHOUT {dec} although rows of this id have one (best {(min(have) if asc else max(have)):g})")); break
            elif have and d != (min(have) if asc else max(have)):
                out.append(("dropdup-keeps-best-scoring-row", f"{dup}={val(r, dup):g}: kept {dec}={d:g}, best is {(min(have) if asc else max(have)):g} ({'ascending' if asc else 'descending'})")); break
        if k == "merge_dropdup":
            out += _object_clauses(ins, cur, by_position=False)
    elif k == "merge_renumber":
        ins = inputs_of(op, prev)
        n = sum(len(rows) for _, rows in ins)
        got = [val(r, "subtomo_id") for r in cur]
        if got != [float(i) for i in range(1, n + 1)]:          # in ROW ORDER, as mergeRenumber_ids proves
            out.append(("merge-renumber-subtomo-1..N", f"N={n}, subtomo ids in row order {got[:12]}{'...' if len(got) > 12 else ''}"))
        pos, same = 0, len(cur) == n
        for df, rows in ins:                                      # block by block; only a DataFrame input may come back filled
            for r, c in zip(rows, cur[pos:pos + len(rows)]):
                mc = _mask(c, ["subtomo_id", "object_id"])
                if mc != _mask(r, ["subtomo_id", "object_id"]) and not (df and all(a == b or (a == NANB and b == ZEROB) for a, b in zip(_mask(r, ["subtomo_id", "object_id"]), mc) if a is not None)):
                    same = False
            pos += len(rows)
        if not same:
            out.append(("other-fields-unchanged", "merge_and_renumber: rows (ids masked) differ from the inputs one after the other"))
        else:
            out += _object_clauses(ins, cur, by_position=True)
    elif k == "renumber_particles":
        got = [val(r, "subtomo_id") for r in cur]
        if got != [float(i) for i in range(1, len(prev) + 1)]:
            out.append(("renumber-particles-1..N", f"N={len(prev)}, subtomo ids {got[:12]}"))
        if [_mask(r, ["subtomo_id"]) for r in cur] != [_mask(r, ["subtomo_id"]) for r in prev]:
            out.append(("other-fields-unchanged", "renumber_particles changed a field other than subtomo_id"))
    elif k == "renumber_objects":
        if [_mask(r, ["object_id"]) for r in cur] != [_mask(r, ["object_id"]) for r in prev]:
            out.append(("other-fields-unchanged", "renumber_objects_sequentially changed a field other than object_id (or the rows)"))
        else:
            old = [(val(r, "tomo_id"), val(r, "object_id")) for r in prev]
            new = [val(r, "object_id") for r in cur]
            fwd, bwd = {}, {}
            for o, nw in zip(old, new):
                if fwd.setdefault(o, nw) != nw or bwd.setdefault(nw, o) != o:
                    out.append(("renumber-objects-keeps-grouping", f"(tomo, object) {o} -> {nw} while {bwd.get(nw)} -> {nw} / {o} -> {fwd.get(o)}")); break
            start = b2f(op["start"])
            want = sorted(start + i for i in range(len(set(old))))
            if not out and sorted(set(new)) != want:
                out.append(("renumber-objects-consecutive", f"start {start:g}: new object numbers {sorted(set(new))[:12]}, wanted {want[:12]}"))
    if k in ("subset", "remove", "split") and not out:
        for r in (cur if k != "split" else [r for p in parts for r in p]):
            if tuple(r) not in P:
                out.append(("other-fields-unchanged", f"{k}: a surviving row is not a row of the list: {_fmt_row(r)}")); break
    return out


def _object_clauses(ins, cur, by_position):
    """object numbers never collide across inputs; each input keeps its grouping (uniform offset; the object numbers of an
    input handed over as a bare DataFrame are read after loading, i.e. a missing one is 0)"""
    out = []
    blocks = []
    ld = lambda df, r: fz(r) if df else r
    if by_position:
        pos = 0
        for df, rows in ins:
            blocks.append([(ld(df, r), c) for r, c in zip(rows, cur[pos:pos + len(rows)])]); pos += len(rows)
    else:
        # after drop_duplicates rows are identified by content (ids masked); ambiguous rows are skipped
        cnt = Counter(_mask(fz(r), ["object_id"]) for df, rows in ins for r in rows)
        for df, rows in ins:
            idx = {_mask(fz(r), ["object_id"]): ld(df, r) for r in rows if cnt[_mask(fz(r), ["object_id"])] == 1}
            blocks.append([(idx[_mask(fz(c), ["object_id"])], c) for c in cur if _mask(fz(c), ["object_id"]) in idx])
    seen = {}
    for bi, blk in enumerate(blocks):
        # a row whose object number (read after loading) is missing has no offset (NaN - NaN) and no number that could
        # collide: it is left to the Lean checker, which is the authority (class C08-K3 when it rejects); this cross-check
        # compares offsets only over the rows that carry a number
        offs = {val(c, "object_id") - val(r, "object_id") for r, c in blk if not _nan(val(r, "object_id"))}
        if len(offs) > 1:
            out.append(("merge-keeps-each-inputs-grouping", f"input {bi}: object offsets {sorted(offs, key=lambda v: (_nan(v), v if not _nan(v) else 0.0))}")); break
        for r, c in blk:
            o = val(c, "object_id")
            if _nan(o):
                continue
            if seen.setdefault(o, bi) != bi:
                out.append(("merge-object-numbers-never-collide", f"object number {o:g} used by inputs {seen[o]} and {bi}")); return out
    return out


RESETTING = ("intersect", "dropdup", "merge_renumber", "merge_dropdup", "renumber_objects")


def _side_merge_findings(k, op, st, prev, verdict, model):
    """a merge whose result is only looked at: the result is judged by the Lean checker against the REAL table before the call
    and the other inputs as they were HANDED OVER"""
    name = op["op"]
    res = (st.get("side") or {}).get("rows", [])
    fs = clauses(op, prev, res, None)
    failed = list(dict.fromkeys(verdict.get("failed") or ([] if verdict.get("ok") else ["checker-rejected"])))
    if failed:
        pyd = dict(fs)
        return [dict(kind="spec", clause=c, step=k, detail=f"op {k} {name}(keep): Lean checker rejects the real result: " + pyd.get(c, "; ".join(d for _, d in fs) or f"{len(res)} rows out")) for c in failed]
    if fs:
        return [dict(kind="corr", clause="checker-vs-python-evaluator", step=k, detail=f"op {k} {name}(keep): the Lean checker accepts the real result but the Python evaluator reports {c}: {d}") for c, d in fs]
    nan_key = any(has_nan(rows, f) for df, rows in inputs_of(op, prev) if not df for f in ("score", "subtomo_id", "object_id"))
    want = op.get("cls", "Motl")
    if (st.get("side") or {}).get("type") != want:
        return [dict(kind="corr", clause="returned-class", step=k, detail=f"op {k} {name}(keep): returned {(st.get('side') or {}).get('type')}, documented {want}")]
    if not nan_key and isinstance(model, dict) and model.get("states") and model["states"][0] != res:
        return [dict(kind="corr", clause=f"{name}-vs-model", step=k, detail=f"op {k} {name}(keep): the result differs from the model's ({len(res)} vs {len(model['states'][0])} rows)")]
    return []


def _side_findings(k, op, st, prev, verdict, model):
    """a split whose parts are only looked at (G2: the same instance continues): the parts are judged by the Lean checker
    against the REAL table before the call"""
    if op["op"] != "split":
        return _side_merge_findings(k, op, st, prev, verdict, model)
    name = "split"
    parts = [p["rows"] for p in st.get("parts", [])]
    fs = clauses(op, prev, st["rows"], parts)
    failed = [c for c in (verdict.get("failed") or []) if c != "split-pick"]
    if failed:
        pyd = dict(fs)
        return [dict(kind="spec", clause=c, step=k, detail=f"op {k} split(keep): Lean checker rejects the real parts: " + pyd.get(c, "; ".join(d for _, d in fs) or f"{len(prev)} rows in, {sum(map(len, parts))} rows in {len(parts)} parts"))
                for c in failed]
    if fs:
        return [dict(kind="corr", clause="checker-vs-python-evaluator", step=k, detail=f"op {k} split(keep): the Lean checker accepts the real parts but the Python evaluator reports {c}: {d}") for c, d in fs]
    if isinstance(model, dict) and "parts" in model and model["parts"][0] != parts:
        return [dict(kind="corr", clause="split-parts-vs-model", step=k, detail=f"op {k} split(keep): parts differ from the model's (count {len(parts)} vs {len(model['parts'][0])})")]
    return []


def _judge(case, obs, resps):
    """spec findings are decided by the Lean VERIFIED CHECKERS (`check` requests: Model/C08_Check.lean; the verdict of a step comes
    from the executed PROVED instance -- checkers at `Cell`, Model/C08_Cell.lean, theorems check_step_iff_executed ... -- whenever no
    key cell of the step is missing (`proved`), else from the missing-value-aware Float checkers) applied to the REAL output of every
    operation, or by an exception raised inside cryocat. The Python clause evaluators (`clauses`) only cross-check the checker (a
    disagreement is a corr finding) and supply the human-readable detail. Everything the statement is silent about (a caller-owned
    argument edited in place, text in a numeric field) and everything compared with the MODEL (table, parts, index state, dtypes,
    class) is corr.
    A step whose rejection is EXACTLY an open known class (C08-K1/K2/K3, `_known_class`) does not end the judging (L-11): the
    following steps are judged by the checkers against the implementation's ACTUAL tables; only the comparison with the model
    stops there (its trace has left the implementation's)."""
    steps = obs.get("steps", [])
    init = obs.get("init") or {}
    if "error" in obs:
        if not obs.get("where"):
            return [dict(kind="corr", clause="harness-or-library-raised", detail=obs["error"])]
        return [dict(kind="spec", clause="raises", detail=obs["error"] + " @" + obs.get("where", ""))]
    if "error" in init:
        # building the list is not one of the operations of the statement
        return [dict(kind="corr", clause="list-construction-raised", detail=f"{case.get('cls0', 'Motl')}(<frame with the 20 columns>): {init['error']} @{init.get('where', '')}")]
    chain, sides, stop = _plan(case, obs)
    model = resps[0] if resps else {"error": "no response"}
    check = resps[1] if len(resps) > 1 else {"error": "no checker response"}
    side_of = {k: (2 + 2 * i, 3 + 2 * i) for i, (k, _, _, _) in enumerate(sides)}
    chain_pos = {k: i for i, (k, _, _) in enumerate(chain)}
    prev = _start(case, obs)
    corr = []      # the first disagreement with the model / documented behaviour; later steps are still judged by the checkers
    known = []     # spec findings that are exactly an open known class; judging goes on after them
    diverged = False
    cls0 = case.get("cls0", "Motl")
    cur_type = {"load": "EmMotl"}.get(cls0, cls0)
    if init:
        want0 = [list(fz(r)) for r in case["base"]] if cls0 != "Motl" else case["base"]
        if init.get("type") != cur_type:
            corr = [dict(kind="corr", clause="returned-class", detail=f"constructing the list gave a {init.get('type')}, documented {cur_type}")]
        elif init.get("rows") != want0:
            corr = [dict(kind="corr", clause="list-construction-vs-documented", detail=f"{cls0}(frame): the table of the new list differs from the frame" + (" with missing values filled" if cls0 != "Motl" else ""))]

    def done(extra):
        return known + extra

    for k, (op, st) in enumerate(zip(case["ops"], steps)):
        name = op["op"]
        if "error" in st:
            if st.get("harness"):   # G4: no frame inside cryocat/ -> not the property's business
                return done([dict(kind="corr", clause="harness-or-library-raised", step=k, detail=f"op {k} {name}: {st['error']} (no frame inside cryocat/)")])
            etype = st["error"].split(":")[0]
            return done([dict(kind="spec", clause=f"{name}-raises", step=k, detail=f"op {k} {name} on a {cur_type}" + (f" (class method of {op['cls']})" if op.get("cls") else "")
                              + f": {st['error']} @{st.get('where','')} [{etype}]")])
        tabs = [st] + (st.get("parts") or []) + ([st["side"]] if st.get("side") else [])
        txt = [x for t in tabs for x in (t.get("text") or [])]
        if txt:                      # G3: a numeric field came back as text (the statement is silent about representations: corr)
            return done([dict(kind="corr", clause="field-not-numeric", step=k, detail=f"op {k} {name}: text in numeric field(s): {txt[:4]}; dtypes {st.get('dtypes')}")])
        is_side = k in side_of
        if is_side:
            vresp = resps[side_of[k][1]] if len(resps) > side_of[k][1] else {"error": "no checker response"}
            vlist, vi = vresp.get("verdicts", []) if isinstance(vresp, dict) else [], 0
        else:
            vresp, vlist, vi = check, check.get("verdicts", []) if isinstance(check, dict) else [], chain_pos.get(k, 10 ** 9)
        if "error" in vresp or vi >= len(vlist):
            return done([dict(kind="corr", clause="checker-error", step=k, detail=f"op {k} {name}: no verdict from the Lean checker: {str(vresp)[:300]}")])
        verdict = vlist[vi]
        if not verdict["schema"]:
            t = next((t for t in tabs if not _schema_ok(t)), st)
            missing = [f for f in FIELDS if f not in t["cols"]]
            extra = [c for c in t["cols"] if c not in FIELDS]
            return done([dict(kind="spec", clause="exactly-the-20-fields", step=k, detail=f"op {k} {name}: table has {len(t['cols'])} columns; missing {missing}, extra {extra}")])
        if not all(_schema_ok(t) for t in tabs):
            return done([dict(kind="corr", clause="checker-vs-python-evaluator", step=k, detail=f"op {k} {name}: the Lean schema check accepted column names {st['cols']}")])
        if not verdict.get("agree", True):
            corr = corr or [dict(kind="corr", clause="checker-instances-disagree", step=k, detail=f"op {k} {name}: the checkers at Cell (proved instance) and at Float (IEEE) give different verdicts although no key cell is missing")]
        if st.get("mutated"):
            # G2: the call edited something the caller owns. The statement is silent about arguments as such (corr), but "after any
            # sequence of operations" the edited list is used again by later steps, which are judged against its ORIGINAL table:
            # the judging goes on, and a later wrong result is the spec finding (round 6)
            corr = corr or [dict(kind="corr", clause="caller-input-mutated", step=k, detail=f"op {k} {name}: after the call the caller's {st['mutated']} differ(s) from before the call "
                                 "(the operation returns a new list; its arguments are not part of the result)")]
        cur = st["rows"]
        if is_side:
            smodel = resps[side_of[k][0]] if len(resps) > side_of[k][0] else {}
            fs = _side_findings(k, op, st, prev, verdict, smodel)
            if fs and fs[0]["kind"] == "spec":
                if all(_known_class(case, obs, f) for f in fs):
                    known += fs
                else:
                    return done(fs)
            else:
                corr = corr or fs       # a side split is compared with the model run from the REAL table before it
            if cur != prev:     # prev stays the table before the call: that is what the list is by the statement
                corr = corr or [dict(kind="corr", clause="caller-input-mutated", step=k, detail=f"op {k} {name}: the list itself changed although the call only returns {'parts' if name == 'split' else 'a new list'}")]
            continue
        parts = [p["rows"] for p in st["parts"]] if "parts" in st else None
        try:
            fs = clauses(op, prev, cur, parts)
        except Exception as e:
            import traceback
            fs = [("clause-evaluator-crashed", f"{type(e).__name__}: {e} {traceback.format_exc()[-400:]}")]
        if fs and fs[0][0] == "clause-evaluator-crashed":
            return done([dict(kind="corr", clause=fs[0][0], step=k, detail=f"op {k} {name}: {fs[0][1]}")])
        rejected = not verdict["ok"]
        if rejected:
            pyd = dict(fs)
            failed = list(dict.fromkeys(verdict["failed"] or ["checker-rejected"]))
            note = "" if fs else " [the Python cross-check evaluator saw no failing clause]"
            sp = [dict(kind="spec", clause=c, step=k, detail=f"op {k} {name}: Lean checker ({'proved instance' if verdict.get('proved') else 'missing-key instance'}) rejects the real output: "
                       + pyd.get(c, "; ".join(d for _, d in fs) or f"{len(prev)} rows in, {len(cur)} rows out") + note) for c in failed]
            if all(_known_class(case, obs, f) for f in sp):
                known += sp
                diverged = True
            else:
                return done(sp)
        elif fs:
            corr = corr or [dict(kind="corr", clause="checker-vs-python-evaluator", step=k,
                                 detail=f"op {k} {name}: the Lean checker accepts the real output but the Python evaluator reports {c}: {d}") for c, d in fs]
        # ---- everything below compares with the model / the documented behaviour: corr
        odd = {c: t for tb in tabs for c, t in (tb.get("dtypes") or {}).items()}
        if name == "subset":
            want_type = "DataFrame" if op.get("ret_df") else "Motl"
        elif name in ("intersect", "merge_renumber", "merge_dropdup"):
            want_type = op.get("cls", "Motl")
        elif name == "split" and not op.get("keep"):
            want_type = "Motl"
        else:
            want_type = cur_type
        ci = chain_pos[k]
        # a missing DECISION value or id: the model's sort compares with `<` only (no order on a missing value), pandas puts
        # missing values last -- the documented behaviour is then the Python rendering py_dropdup, and the model's trace is left
        nan_dec = (name == "dropdup" and (has_nan(prev, op["dec"]) or has_nan(prev, op["dup"]))) or \
                  (name == "merge_dropdup" and any(has_nan(rows, "score") or has_nan(rows, "subtomo_id") for df, rows in inputs_of(op, prev) if not df))
        if corr or rejected:
            pass
        elif odd:                      # G3: numeric, but not the float64 the lists are made of
            corr = corr or [dict(kind="corr", clause="dtype-vs-model", step=k, detail=f"op {k} {name}: columns not float64: {odd}")]
        elif st.get("type") != want_type or any(t != "Motl" for t in st.get("part_types", [])):
            corr = corr or [dict(kind="corr", clause="returned-class", step=k, detail=f"op {k} {name}: returned {st.get('type')} {st.get('part_types', '')}, documented {want_type}")]
        elif (name in RESETTING or (name == "subset" and op.get("reset", "omit") is not False)) and st.get("index") != "default":
            corr = corr or [dict(kind="corr", clause="index-vs-documented-reset", step=k, detail=f"op {k} {name}: the index of the returned table is {st.get('index')}, the source resets it (reset_index(drop=True))")]
        elif st["cols"] != FIELDS and st["cols"] != case.get("cols", FIELDS):
            corr = corr or [dict(kind="corr", clause="column-order", step=k, detail=f"op {k} {name}: column order {st['cols']} is neither the documented nor the input's")]
        elif "first" in st and st["first"] != (parts if name == "split" else cur):
            corr = corr or [dict(kind="corr", clause="second-call-differs-from-first", step=k, detail=f"op {k} {name}: the same call on the same objects gave a different result the second time (the second is the one judged)")]
        elif nan_dec:
            sim = py_step(prev, op)
            if sim != cur:
                corr = corr or [dict(kind="corr", clause=f"{name}-vs-documented-missing-last", step=k, detail=f"op {k} {name}: with missing decision values the result differs from sort_values (missing last) + keep first: {len(sim)} vs {len(cur)} rows")]
            if not ("error" in model) and ci < len(model.get("states", [])) and model["states"][ci] != cur:
                diverged = True
        elif diverged:
            pass
        elif "error" in model:
            corr = corr or [dict(kind="corr", clause="model-error", step=k, detail=str(model))]
        elif model["states"][ci] != cur:
            mrows = model["states"][ci]
            i = next((i for i, (a, b) in enumerate(zip(mrows, cur)) if a != b), min(len(mrows), len(cur)))
            det = f"op {k} {name}: model has {len(mrows)} rows, implementation {len(cur)}; first difference at row {i}"
            if i < len(mrows) and i < len(cur):
                j = next(j for j in range(20) if mrows[i][j] != cur[i][j])
                det += f", field {FIELDS[j]}: model {b2f(mrows[i][j])!r}, implementation {b2f(cur[i][j])!r}"
            corr = corr or [dict(kind="corr", clause=f"{name}-vs-model", step=k, detail=det)]
        elif parts is not None and model["parts"][ci] != parts:
            corr = corr or [dict(kind="corr", clause="split-parts-vs-model", step=k, detail=f"op {k}: parts differ from the model's (count {len(parts)} vs {len(model['parts'][ci])})")]
        prev = cur
        cur_type = st.get("type") if st.get("type") != "DataFrame" else "Motl"
    if corr:
        return done(corr)
    out = []
    if len(steps) != len(case["ops"]):
        out.append(dict(kind="corr", clause="history-truncated", detail=f"{len(steps)} of {len(case['ops'])} ops observed"))
    elif "error" not in check and not known and check.get("run_proved") and not check.get("run_ok", False):
        out.append(dict(kind="corr", clause="checker-run-vs-steps", detail="every step was accepted by the proved instance but checkRunQ (the function check_history_rows_executed is about) is false"))
    return done(out)


def _real_before(case, obs, k):
    """the table step k is judged against: the start table, then the table after the last step before k that was not a side call"""
    steps = obs.get("steps", [])
    prev = _start(case, obs)
    for j in range(min(k, len(steps), len(case["ops"]))):
        if not _is_side(case["ops"][j]):
            prev = steps[j].get("rows")
    return prev


def judge(case, obs, resps):
    """`_judge`, then every spec finding that is EXACTLY a known class gets the class id attached (field `known`, and as a
    suffix of the clause, so that the framework's shrinker -- which keeps kind and clause fixed -- can neither turn an
    unlisted violation into an input of a known class nor the other way round)"""
    fs = _judge(case, obs, resps)
    for f in fs:
        kid = _known_class(case, obs, f)
        if kid:
            f["known"] = kid
            f["clause"] = f"{f['clause']} [{kid}]"
    return fs


def classify(case, obs, finding):
    return finding.get("known")


def _known_class(case, obs, finding):
    """id of the known finding a failure belongs to, only when the real output is EXACTLY what the described defect produces
    (simulated independently here); anything else stays a violation.
    C08-K1 (open): NaN in the key field -> split_by_feature loses exactly the rows with a missing feature (and returns one
    empty part); renumber_objects_sequentially leaves rows with a missing tomo_id un-renumbered and numbers a missing object_id
    start-1.  C08-K2 / C08-K3 are NEW classes found by the hardening pass (reported to the integrator; generated only once
    they are registered as open): drop_duplicates / merge_and_drop_duplicates collapse all rows with a missing id into one;
    a missing object_id in a Motl input of a merge poisons min()/max() so that object numbers of different inputs collide."""
    if finding.get("kind") != "spec" or "step" not in finding:
        return None
    k = finding["step"]
    steps = obs.get("steps", [])
    if k >= len(steps) or k >= len(case["ops"]) or "rows" not in steps[k]:
        return None
    op, st = case["ops"][k], steps[k]
    prev = _real_before(case, obs, k)
    if prev is None or st.get("mutated") or st.get("text"):
        return None
    name, clause = op["op"], finding.get("clause")
    try:
        if name == "split" and has_nan(prev, op["f"]) and clause in ("split-partitions-the-list", "split-part-has-one-value"):
            if [p["rows"] for p in st.get("parts", [])] == k1_split_parts(prev, op["f"]):
                return "C08-K1"
        if name == "renumber_objects" and (has_nan(prev, "tomo_id") or has_nan(prev, "object_id")) \
                and clause in ("renumber-objects-keeps-grouping", "renumber-objects-consecutive"):
            if st["rows"] == k1_renumber_objects(prev, b2f(op["start"])):
                return "C08-K1"
        nmiss = lambda rows, f: sum(1 for r in rows if r[IDX[f]] == NANB)
        if name == "dropdup" and clause == "dropdup-every-id-survives":
            # exactly the listed class: at least two rows without an id, collapsed into one, everything else as pandas does it
            if nmiss(prev, op["dup"]) >= 2 and nmiss(st["rows"], op["dup"]) == 1 and st["rows"] == py_dropdup(prev, op["dup"], op["dec"], op["asc"]):
                return "C08-K2"
        if name in ("merge_renumber", "merge_dropdup"):
            ins = inputs_of(op, prev)
            nan_obj = any((not df) and has_nan(rows, "object_id") for df, rows in ins)
            nan_id = any((not df) and has_nan(rows, "subtomo_id") for df, rows in ins)
            sim = py_step(prev, dict(op, _result=True))
            got = (st.get("side") or {}).get("rows") if op.get("keep") else st["rows"]
            if got == sim and not refills(op):
                # K3: an actual collision / lost grouping (the checkers accept a merge whose numbers do not collide)
                if nan_obj and clause in ("merge-object-numbers-never-collide", "merge-keeps-each-inputs-grouping", "merge-dropdup-no-certificate"):
                    return "C08-K3"
                merged_ids = [r for df, rows in ins if not df for r in rows]
                if name == "merge_dropdup" and nan_id and nmiss(merged_ids, "subtomo_id") >= 2 and nmiss(got, "subtomo_id") == 1 \
                        and clause in ("dropdup-every-id-survives", "merge-dropdup-no-certificate"):
                    return "C08-K2"
    except Exception:
        return None
    return None


def nontrivial(case, obs):
    ops = case["ops"]
    if len(case["base"]) < 4 or len(ops) < 3 or len({o["op"] for o in ops}) < 2:
        return False
    steps = obs.get("steps", [])
    sizes = [len(case["base"])] + [len(s.get("rows", [])) for s in steps]
    return sum(1 for s in sizes[:len(ops)] if s > 0) >= 2


def _bucket(n):
    return "0" if n == 0 else ("1-3" if n <= 3 else ("4-30" if n <= 30 else ("31-100" if n <= 100 else ">100")))


def stats(case, obs, resps):
    steps = obs.get("steps", [])
    d = {"base_rows": _bucket(len(case["base"])), "n_ops": str(len(case["ops"])), "op": [o["op"] for o in case["ops"]],
         "column_order": "canonical" if case.get("cols", FIELDS) == FIELDS else "shuffled", "stream": case.get("stream", "corpus")}
    prev = case["base"]
    branch = []
    pool_seen = set()
    for op, st in zip(case["ops"], steps):
        if "rows" not in st:
            branch.append(op["op"] + (":harness-raised" if st.get("harness") else ":raised")); break
        cur = st["rows"]
        k = op["op"]
        tag = "empty-in" if not prev else ("empty-out" if not cur else ("all-kept" if len(cur) == len(prev) and k in ("subset", "remove", "intersect", "dropdup") else "some"))
        branch.append(f"{k}:{tag}")
        branch.append(f"index-after:{st.get('index')}")
        if st.get("dtypes"):
            branch.append(f"{k}:dtypes-not-float64:{sorted(set(st['dtypes'].values()))}")
        if st.get("cols") != FIELDS:
            branch.append("column-order-after:" + ("input's" if st.get("cols") == case.get("cols") else "other"))
        if op.get("twice"):
            branch.append(f"{k}:G2-called-twice-on-the-same-objects")
        if _is_side(op):
            branch.append(f"{k}:G2-same-instance-continues")
        if op.get("okey") == "input":
            branch.append("intersect:second-list-is-an-object-merged-earlier")
        for x in ([op] if "oid" in op else []) + op.get("before", []) + op.get("after", []):
            if x.get("oid"):
                if x["oid"] in pool_seen:
                    branch.append(f"{k}:G2-operand-object-reused")
                pool_seen.add(x["oid"])
        # G1: which keywords were left to the signature default
        if k == "subset":
            branch += [f"subset:G1-{w}" for w, c in (("feature_id-omitted", op.get("omit_f")), ("reset_index-omitted", op.get("reset", "omit") == "omit"),
                                                     ("reset_index=False", op.get("reset") is False), ("return_df=True", op.get("ret_df"))) if c]
        if k == "intersect" and op.get("omit_f"):
            branch.append("intersect:G1-feature_id-omitted")
        if k == "dropdup":
            branch += [f"dropdup:G1-{w}-omitted" for w in op.get("omit", [])]
        if k == "renumber_objects" and op.get("default"):
            branch.append("renumber_objects:G1-starting_number-omitted")
        kf = op.get("f") or op.get("dup")
        if kf and has_nan(prev, kf):
            branch.append(f"{k}:NaN-in-key-field")
        if k == "renumber_objects" and (has_nan(prev, "tomo_id") or has_nan(prev, "object_id")):
            branch.append("renumber_objects:NaN-in-key-field")
        if "vkind" in op:
            branch.append(f"{k}:values-{op['vkind']}")
            if len(set(op["vs"])) < len(op["vs"]):
                branch.append(f"{k}:repeated-values")
            if NANB in op["vs"]:
                branch.append(f"{k}:NaN-requested")
            big = sorted(b2f(v) for v in set(op["vs"]) if v != NANB)
            col = sorted({val(r, op["f"]) for r in prev if not _nan(val(r, op["f"]))})
            if any(0 < abs(a - b) <= 1e-5 * abs(b) for a in big for b in col):
                branch.append(f"{k}:requested-value-within-1e-5-of-a-different-one")
        if k == "intersect":
            ids = [r[IDX[op["f"]]] for r in op["other"]]
            if len(set(ids)) < len(ids):
                branch.append("intersect:second-list-repeats-id")
            branch.append("intersect:second-list-" + ("<=20" if len(ids) <= 20 else ">20") + "-rows")
            keep = {b2f(fz(r)[IDX[op["f"]]]) for r in op["other"]}
            if any(c == NANB for r in prev if b2f(fz(r)[IDX[op["f"]]]) in keep for c in r):
                branch.append("intersect:surviving-row-had-missing-value(filled-with-0)")
        if k in ("dropdup", "merge_dropdup") and prev:
            dup, dec = (op["dup"], op["dec"]) if k == "dropdup" else ("subtomo_id", "score")
            grp = {}
            for r in prev:
                grp.setdefault(val(r, dup), []).append((val(r, dec), val(r, "tomo_id")))
            if any(len(v) > 1 and sorted(v)[-1][0] == sorted(v)[-2][0] for v in grp.values()):
                branch.append(f"{k}:tie-on-best")
            if any(len({t for _, t in v}) > 1 for v in grp.values()):
                branch.append(f"{k}:id-duplicated-across-tomograms")
        if k in ("merge_renumber", "merge_dropdup"):
            ins = inputs_of(op, prev)
            branch.append(f"{k}:{len(ins)}-inputs")
            if any(not rows for _, rows in ins):
                branch.append(f"{k}:has-empty-input")
            if any(df for df, _ in ins):
                branch.append(f"{k}:has-dataframe-input")
            if sum(1 for c in py_merge_offsets(ins)[:-1] if c != 0) and len([1 for _, rows in ins if rows]) >= 3:
                branch.append(f"{k}:3+-inputs-with-an-earlier-one-shifted")
        if not _is_side(op):
            prev = cur
    d["branch"] = branch
    d["final_rows"] = _bucket(len(prev))
    chk = resps[1] if len(resps) > 1 and isinstance(resps[1], dict) else {}
    chain_ops = [op for op in case["ops"] if not _is_side(op)]
    d["lean_checker"] = [f"{op['op']}:{'accepted' if v.get('ok') and v.get('schema') else 'rejected:' + ','.join(v.get('failed') or ['schema'])}"
                         for op, v in zip(chain_ops, chk.get("verdicts", []))] or ["no-verdict"]
    for r in resps[3::2]:
        for v in (r.get("verdicts", []) if isinstance(r, dict) else []):
            bad = [c for c in (v.get("failed") or []) if c != "split-pick"]
            d["lean_checker"].append("side(keep):" + ("accepted" if not bad and v.get("schema") else "rejected:" + ",".join(bad or ["schema"])))
    d["lean_checker_history"] = "accepted (check_history_rows applies)" if chk.get("run_ok") else "not accepted"
    return d


def sample_view(case):
    def opv(o):
        v = {k: x for k, x in o.items() if k not in ("other", "before", "after", "vs")}
        if "vs" in o:
            v["vs"] = [b2f(x) for x in o["vs"]]
        if "other" in o:
            v["other_rows"] = len(o["other"])
        for k in ("before", "after"):
            if k in o:
                v[k] = [dict(df=x["df"], rows=len(x["rows"])) for x in o[k]]
        if "start" in o:
            v["start"] = b2f(o["start"])
        return v
    return dict(base_rows=len(case["base"]), cols=case.get("cols"), first_row=[b2f(b) for b in case["base"][0]] if case["base"] else None,
                ops=[opv(o) for o in case["ops"]])


def probes(rng):
    """library assumptions the model relies on, probed on small frames"""
    import numpy as np, pandas as pd
    out = []
    df = pd.DataFrame(dict(a=[2.0, 1.0, 2.0, 1.0, 2.0], b=[0.5, 0.5, 0.5, 0.25, 0.5], c=[0.0, 1.0, 2.0, 3.0, 4.0]))
    s = df.sort_values(by=["a", "b"], ascending=[True, False])
    out.append(dict(name="pandas sort_values on two keys is stable (ties keep table order)", ok=s["c"].tolist() == [1.0, 3.0, 0.0, 2.0, 4.0], detail=str(s["c"].tolist())))
    out.append(dict(name="pandas drop_duplicates keeps the first", ok=s.drop_duplicates(subset="a")["c"].tolist() == [1.0, 0.0], detail=""))
    out.append(dict(name="Series.unique / factorize number by first appearance", ok=df["a"].unique().tolist() == [2.0, 1.0] and df["a"].factorize()[0].tolist() == [0, 1, 0, 1, 0], detail=""))
    out.append(dict(name="groupby iterates keys in ascending order", ok=list(df.groupby("a").groups.keys()) == [1.0, 2.0], detail=""))
    out.append(dict(name="isin is exact float membership", ok=df["b"].isin(pd.Series([0.25, 7.0, 0.25])).tolist() == [False, False, False, True, False], detail=""))
    return out


LEVEL_TEXT = ("Lean 4 verified checkers deciding the clauses of the statement on the REAL output of every operation (checkSchema/checkSubset/checkRemove/checkSplit/"
              "checkIntersect/checkDropDup/checkMergeRenumber/checkMergeDropDup/checkRenumberParticles/checkRenumberObjects with check_*_sound and check_*_complete, "
              "check_step_iff / check_run_iff: checkStep and checkRun decide EXACTLY the clause Props (StepOK, HintCertOK, RunCertOK: no checker on the right-hand side); "
              "EXECUTED INSTANCE check_step_iff_executed / check_run_iff_executed / check_history_rows_executed / check_run_accepts_model_executed at Cell = exact rationals + missing; check_history_rows and check_merge_renumber_then_selections_nodup for an accepted observed history; "
              "check_*_accepts_model for EVERY checker incl. the two merges on arbitrary tagged inputs, check_run_accepts_model: checkRun accepts the model's whole run for every history, "
              "history_rows_via_checkers; check_subset_iff_model / check_renumber_particles_iff_model), plus Lean 4 theorems about an executable model of get_motl_subset / remove_feature / split_by_feature / get_motl_intersection / drop_duplicates / "
              "merge_and_renumber / merge_and_drop_duplicates / renumber_particles / renumber_objects_sequentially, for all lists, all value lists and all "
              "operation sequences, no size bound (subset_spec, remove_spec, remove_subset_complement, split_partition, split_disjoint, intersect_spec, "
              "dropDup_spec, mergeRenumber_ids, mergeRenumber_objects, renumberParticles_spec, renumberObjects_spec, step_rows_literal, history_rows (histFill), history_rows_literal, selection_history_rows, "
              "subset_spec_beq, remove_spec_beq, split_drops_irreflexive_rows, renumberObjects_irreflexive_rows, "
              "split_flatten_eq_stable_sort, subset_eq_stable_sort, mergeRenumber_then_selections_nodup); "
              "the model is tied to the source by regenerated operators/defaults/expressions and by loop-structure records extracted from ast shapes and EXECUTED by the "
              "model (Gen/C08.lean: SelectLoop for get_motl_subset / remove_feature / split_by_feature, ObjLoop for renumber_objects_sequentially; 15 documented-value theorems incl. signatures_documented and bodies_documented) and by a "
              "bit-exact differential run of random operation histories through the real Motl API against the compiled model")
LEVEL_NOTE = ("trusted: Lean kernel; translator anchors (alpha-normalised: names of locals are free; signatures with defaults and whole-body digests of the 16 functions involved); "
              "pandas semantics listed in assumptions (probed each run); the schema clause (exactly 20 fields) is a "
              "type in the model (history_schema) and is decided for the code by checkSchema on the real column names (check_schema_iff); NaN->0.0 filling by Motl.load is modelled explicitly "
              "and permitted only for intersection and merges with a bare-DataFrame input (Op.mayFill); accepts_model theorems exist for every checker "
              "(check_merge_renumber_accepts_model / check_merge_dropdup_accepts_model: every list of tagged inputs, empty and bare-DataFrame inputs included) and for whole histories "
              "(check_run_accepts_model, hypotheses: fill idempotent, nat injective), so the model-level history theorem is also a corollary of the checker theorems (history_rows_via_checkers); "
              "the merge-and-drop-duplicates checker reads the keys of a bare-DataFrame input (object_id, subtomo_id, score) after loading (loadKeys) and is always offered the model's own "
              "offsets (mergeOffsets on the REAL previous table) as one more certificate; the checker theorems are over ordered commutative rings with a lawful cell comparison; the driver decodes every cell into Cell (Model/C08_Cell.lean: an exact rational, "
              "NaN -> the constant missing) and runs the checkers THERE -- an instance the theorems are about (section `executed` of Props/C08.lean) -- for every step without a missing or infinite "
              "key cell (keysPresent); steps with a missing key (nan-key / nan-decision streams) are judged by the missing-value-aware Float checkers (stepClausesM: not covered by "
              "theorems; dropDupClausesM_no_missing, *_witness theorems over the 3-valued type W); the MODEL (trace) still runs at IEEE doubles (trace_eq_run ties it to `run`); "
              "whole-body digests ignore annotations, message texts, discards and the position of constant initialisations; locals of the merges / the intersection are identified by role; "
              "no_subclass_overrides + subclass_constructors_documented cover the classes users actually hold")
TECHNIQUE = "Lean 4 proof (list induction, permutation/partition lemmas, sortedness invariants, ordered-ring arithmetic) + regenerated operators + bit-exact differential histories"
DESIGN_REF = "DESIGN.md section 4, C08"
