"""C08 — particle-list set algebra and identifier discipline (DESIGN.md section 4, C08)."""
from core import f2b, b2f
import ast
import core

REL = "cryocat/cryomotl.py"
DOCUMENTED = ["score", "geom1", "geom2", "subtomo_id", "tomo_id", "object_id", "subtomo_mean", "x", "y", "z",
              "shift_x", "shift_y", "shift_z", "geom3", "geom4", "geom5", "phi", "psi", "theta", "class"]
CMP = {ast.Eq: "eq", ast.NotEq: "ne", ast.Lt: "lt", ast.LtE: "le", ast.Gt: "gt", ast.GtE: "ge"}


def _one(xs, what):
    if len(xs) != 1:
        raise core.AnchorMissing(f"{what}: expected exactly one match, found {len(xs)}")
    return xs[0]


def _defaults(fn):
    a = fn.args
    names = [x.arg for x in a.args]
    d = {}
    for name, val in zip(names[len(names) - len(a.defaults):], a.defaults):
        d[name] = ast.literal_eval(val)
    return d


def _kw(call, name):
    for k in call.keywords:
        if k.arg == name:
            return k.value
    return None


# ------------------------------------------------------------------ structural extraction (ast shapes -> config records)
# Local variable names are NOT compared: a variable is identified by the role it plays (loop target, accumulator,
# selection). What is compared is the shape: what the loop runs over, how the requested values are made iterable,
# which frame the mask comes from, in which order the pieces are concatenated, how the index is reset.
def _is_self_df(n):
    return isinstance(n, ast.Attribute) and n.attr == "df" and isinstance(n.value, ast.Name) and n.value.id == "self"


def _selection(n, colparam):
    """<frame>.loc[<frame>[colparam] <op> <Name>] (or without .loc, optionally .copy()) -> (frame expr, mask frame expr, rhs name) else None"""
    if isinstance(n, ast.Call) and isinstance(n.func, ast.Attribute) and n.func.attr == "copy" and not n.args and not n.keywords:
        n = n.func.value
    if not isinstance(n, ast.Subscript):
        return None
    frame = n.value.value if isinstance(n.value, ast.Attribute) and n.value.attr == "loc" else n.value
    c = n.slice
    if not (isinstance(c, ast.Compare) and len(c.ops) == 1 and isinstance(c.left, ast.Subscript) and isinstance(c.left.slice, ast.Name)
            and c.left.slice.id == colparam and isinstance(c.comparators[0], ast.Name)):
        return None
    return frame, c.left.value, c.comparators[0].id


def _top_for(fn, what):
    loops = [n for n in fn.body if isinstance(n, ast.For)]
    return _one(loops, f"{what}: one top-level for loop")


def _assigned_before(fn, loop, name):
    """value of the last top-level assignment `name = ...` before the loop (also inside a top-level `if`), with the guarding test"""
    out = None
    for st in fn.body:
        if st is loop:
            break
        if isinstance(st, ast.Assign) and len(st.targets) == 1 and isinstance(st.targets[0], ast.Name) and st.targets[0].id == name:
            out = (st.value, None)
        if isinstance(st, ast.If) and not st.orelse:
            for x in st.body:
                if isinstance(x, ast.Assign) and len(x.targets) == 1 and isinstance(x.targets[0], ast.Name) and x.targets[0].id == name:
                    out = (x.value, st.test)
    return out


def _call_attr(n, attr):
    return isinstance(n, ast.Call) and isinstance(n.func, ast.Attribute) and n.func.attr == attr


def _norm_of(fn, loop, vp):
    """how the requested values (parameter `vp`) are made iterable before the loop"""
    a = _assigned_before(fn, loop, vp)
    if a is None:
        return "none"
    v, test = a
    if test is None and _call_attr(v, "atleast_1d") and len(v.args) == 1 and _call_attr(v.args[0], "asarray") \
            and len(v.args[0].args) == 1 and isinstance(v.args[0].args[0], ast.Name) and v.args[0].args[0].id == vp:
        return "atleast1d"
    if test is None and _call_attr(v, "array") and len(v.args) == 1 and isinstance(v.args[0], ast.List):
        return "wrapInList"
    if test is not None and isinstance(v, ast.List) and len(v.elts) == 1 and isinstance(v.elts[0], ast.Name) and v.elts[0].id == vp \
            and isinstance(test, ast.UnaryOp) and isinstance(test.op, ast.Not) and isinstance(test.operand, ast.Call) \
            and isinstance(test.operand.func, ast.Name) and test.operand.func.id == "isinstance" \
            and isinstance(test.operand.args[0], ast.Name) and test.operand.args[0].id == vp \
            and sorted(core.norm_expr(e) for e in getattr(test.operand.args[1], "elts", [])) == ["list", "np.ndarray"]:
        return "listOrArrayElseWrap"
    return "bad"


def _reset_of(fn, accname):
    """reset_index handling of the accumulated frame after the loop"""
    calls = [n for n in ast.walk(fn) if _call_attr(n, "reset_index")]
    if not calls:
        return "absent"
    c = _one(calls, "one reset_index call")
    if not (isinstance(c.func.value, ast.Name) and c.func.value.id == accname):
        return "bad"
    drop = _kw(c, "drop")
    if drop is not None and isinstance(drop, ast.Constant) and drop.value is True:
        return "dropTrue"
    return "keepOld"


def _loop_cmp(src, qual):
    """the single comparison `self.df[feature_id] <op> <loop variable>` inside the function's top-level loop (names of locals are free)"""
    fn = src.find(REL, qual)
    loop = _top_for(fn, qual)
    if not isinstance(loop.target, ast.Name):
        raise core.AnchorMissing(f"{qual}: loop target is not a plain variable")
    hits = [n for n in ast.walk(loop) if isinstance(n, ast.Compare) and len(n.ops) == 1 and core.norm_expr(n.left) == "self.df[feature_id]"
            and isinstance(n.comparators[0], ast.Name) and n.comparators[0].id == loop.target.id]
    return CMP[type(_one(hits, f"{qual}: self.df[feature_id] <op> <loop variable>").ops[0])]


def loop_subset(src):
    fn = src.find(REL, "Motl.get_motl_subset")
    vp = fn.args.args[1].arg
    loop = _top_for(fn, "get_motl_subset")
    if not (isinstance(loop.iter, ast.Name) and loop.iter.id == vp and isinstance(loop.target, ast.Name)):
        raise core.AnchorMissing("get_motl_subset: the loop does not run over the requested values themselves")
    if len(loop.body) != 2 or loop.orelse or not all(isinstance(x, ast.Assign) and len(x.targets) == 1 and isinstance(x.targets[0], ast.Name) for x in loop.body):
        raise core.AnchorMissing("get_motl_subset: loop body is not <part> = <selection>; <acc> = pd.concat([...])")
    sel_st, cat_st = loop.body
    sel = _selection(sel_st.value, "feature_id")
    if sel is None or sel[2] != loop.target.id:
        raise core.AnchorMissing("get_motl_subset: first loop statement is not a selection against the loop variable")
    part, accn = sel_st.targets[0].id, cat_st.targets[0].id
    c = cat_st.value
    if not (isinstance(c, ast.Call) and core.norm_expr(c.func) == "pd.concat" and len(c.args) == 1 and isinstance(c.args[0], ast.List)
            and not c.keywords and len(c.args[0].elts) == 2 and all(isinstance(e, ast.Name) for e in c.args[0].elts)):
        raise core.AnchorMissing("get_motl_subset: accumulation is not pd.concat([a, b])")
    names = [e.id for e in c.args[0].elts]
    acc = "append" if names == [accn, part] else ("prepend" if names == [part, accn] else "bad")
    init = _assigned_before(fn, loop, accn)
    if init is None or not _call_attr(init[0], "create_empty_motl_df"):
        acc = "bad"
    rets = [n for n in ast.walk(fn) if isinstance(n, ast.Return)]
    for r in rets:
        v = r.value
        ok = (isinstance(v, ast.Name) and v.id == accn) or (isinstance(v, ast.Call) and core.norm_expr(v.func) == "Motl" and
              [core.norm_expr(a) for a in v.args] + [core.norm_expr(k.value) for k in v.keywords] == [accn])
        if not ok:
            acc = "bad"
    return dict(iter="requested", norm=_norm_of(fn, loop, vp), acc=acc, reset=_reset_of(fn, accn),
                sameFrame=bool(_is_self_df(sel[0]) and _is_self_df(sel[1])))


def loop_remove(src):
    fn = src.find(REL, "Motl.remove_feature")
    vp = fn.args.args[2].arg
    loop = _top_for(fn, "remove_feature")
    if not (isinstance(loop.iter, ast.Name) and loop.iter.id == vp and isinstance(loop.target, ast.Name)):
        raise core.AnchorMissing("remove_feature: the loop does not run over the given values themselves")
    if len(loop.body) != 1 or not isinstance(loop.body[0], ast.Assign) or len(loop.body[0].targets) != 1:
        raise core.AnchorMissing("remove_feature: loop body is not one assignment")
    st = loop.body[0]
    sel = _selection(st.value, "feature_id")
    if sel is None or sel[2] != loop.target.id:
        raise core.AnchorMissing("remove_feature: loop statement is not a selection against the loop variable")
    narrow = _is_self_df(st.targets[0]) and _is_self_df(sel[0]) and _is_self_df(sel[1])
    return dict(iter="requested", norm=_norm_of(fn, loop, vp), acc="narrow" if narrow else "bad", reset=_reset_of(fn, ""),
                sameFrame=bool(_is_self_df(sel[0]) and _is_self_df(sel[1])))


def _unique_kind(src, call):
    """self.<helper>(feature_id) resolved through the helper's single return: <column>.unique() -> uniqueFirst; np.unique / sorted -> uniqueSorted"""
    if not (isinstance(call, ast.Call) and isinstance(call.func, ast.Attribute) and isinstance(call.func.value, ast.Name) and call.func.value.id == "self"
            and len(call.args) == 1 and isinstance(call.args[0], ast.Name) and call.args[0].id == "feature_id"):
        return "bad"
    helper = src.find(REL, "Motl." + call.func.attr)
    hp = helper.args.args[1].arg
    ret = _one([n for n in ast.walk(helper) if isinstance(n, ast.Return)], "unique helper: one return").value
    def column(n):
        return isinstance(n, ast.Subscript) and any(isinstance(x, ast.Name) and x.id == hp for x in ast.walk(n.slice)) and \
            _is_self_df(n.value.value if isinstance(n.value, ast.Attribute) and n.value.attr == "loc" else n.value)
    if _call_attr(ret, "unique") and not ret.args and column(ret.func.value):
        return "uniqueFirst"
    if isinstance(ret, ast.Call) and core.norm_expr(ret.func) in ("np.unique", "sorted") and len(ret.args) == 1 and column(ret.args[0]):
        return "uniqueSorted"
    return "bad"


def loop_split(src):
    fn = src.find(REL, "Motl.split_by_feature")
    loop = _top_for(fn, "split_by_feature")
    if not (isinstance(loop.iter, ast.Name) and isinstance(loop.target, ast.Name)):
        raise core.AnchorMissing("split_by_feature: the loop does not run over a plain list of values")
    a = _assigned_before(fn, loop, loop.iter.id)
    it = _unique_kind(src, a[0]) if a is not None and a[1] is None else "bad"
    body = [x for x in loop.body if not (isinstance(x, ast.If) and isinstance(x.test, ast.Name))]   # `if write_out:` side effects
    if len(body) != 2 or not isinstance(body[0], ast.Assign) or not isinstance(body[1], ast.Expr):
        raise core.AnchorMissing("split_by_feature: loop body is not <part> = Motl(<selection>); <list>.append(<part>)")
    mk = body[0].value
    if not (isinstance(mk, ast.Call) and core.norm_expr(mk.func) == "Motl" and len(mk.args) == 1 and not mk.keywords):
        raise core.AnchorMissing("split_by_feature: part is not Motl(<selection>)")
    sel = _selection(mk.args[0], "feature_id")
    if sel is None or sel[2] != loop.target.id:
        raise core.AnchorMissing("split_by_feature: selection is not against the loop variable")
    part = body[0].targets[0].id
    call = body[1].value
    acc = "bad"
    if isinstance(call, ast.Call) and isinstance(call.func, ast.Attribute) and isinstance(call.func.value, ast.Name):
        lst = call.func.value.id
        init = _assigned_before(fn, loop, lst)
        empty = init is not None and ((isinstance(init[0], ast.List) and not init[0].elts) or (isinstance(init[0], ast.Call) and core.norm_expr(init[0]) == "list()"))
        rets = [n for n in ast.walk(fn) if isinstance(n, ast.Return)]
        retok = len(rets) == 1 and isinstance(rets[0].value, ast.Name) and rets[0].value.id == lst
        if empty and retok:
            if call.func.attr == "append" and [core.norm_expr(x) for x in call.args] == [part]:
                acc = "append"
            elif call.func.attr == "insert" and [core.norm_expr(x) for x in call.args] == ["0", part]:
                acc = "prepend"
    return dict(iter=it, norm="none", acc=acc, reset="absent", sameFrame=bool(_is_self_df(sel[0]) and _is_self_df(sel[1])))


def loop_objects(src):
    fn = src.find(REL, "Motl.renumber_objects_sequentially")
    gb = _one([n for n in ast.walk(fn) if _call_attr(n, "groupby")], "renumber_objects_sequentially: groupby")
    extra = sorted(k.arg for k in gb.keywords if k.arg not in ("group_keys", "sort"))
    if extra or len(gb.args) != 1:
        raise core.AnchorMissing(f"renumber_objects_sequentially: unexpected groupby options {extra}")
    key = ast.literal_eval(gb.args[0])
    srt = _kw(gb, "sort")
    order = "uniqueSorted" if srt is None or (isinstance(srt, ast.Constant) and srt.value is True) else "uniqueFirst"
    frame = gb.func.value
    reset = "absent"
    if isinstance(frame, ast.Name):
        init = [st for st in fn.body if isinstance(st, ast.Assign) and isinstance(st.targets[0], ast.Name) and st.targets[0].id == frame.id]
        v = _one(init, "renumber_objects_sequentially: working frame assigned once").value
        if _call_attr(v, "reset_index") and _is_self_df(v.func.value):
            d = _kw(v, "drop")
            reset = "dropTrue" if isinstance(d, ast.Constant) and d.value is True else "keepOld"
        else:
            reset = "bad"
    elif not _is_self_df(frame):
        reset = "bad"
    loop = _top_for(fn, "renumber_objects_sequentially")
    it = loop.iter
    over_groups = _call_attr(it, "items") and isinstance(it.func.value, ast.Attribute) and it.func.value.attr == "groups" and it.func.value.value is gb
    writes = False
    inner_name = None
    if over_groups and isinstance(loop.target, ast.Tuple) and len(loop.target.elts) == 2 and isinstance(loop.target.elts[1], ast.Name) and len(loop.body) == 1 \
            and isinstance(loop.body[0], ast.Assign):
        gi = loop.target.elts[1].id
        st = loop.body[0]
        want = f"{core.norm_expr(frame)}.loc[{gi}]"
        v = st.value
        if core.norm_expr(st.targets[0]) == want and isinstance(v, ast.Call) and isinstance(v.func, ast.Name) and len(v.args) == 1 \
                and core.norm_expr(v.args[0]) in (want, want + ".copy()"):
            inner_name = v.func.id
            last = fn.body[-1]
            writes = isinstance(last, ast.Assign) and _is_self_df(last.targets[0]) and core.norm_expr(last.value) == core.norm_expr(frame)
    codes, upd = "bad", None
    if inner_name:
        inner = src.find(REL, "Motl.renumber_objects_sequentially." + inner_name)
        gp = inner.args.args[0].arg
        sts = [x for x in inner.body if isinstance(x, ast.Assign)]
        nonloc = [n for x in inner.body if isinstance(x, ast.Nonlocal) for n in x.names]
        col = f"{gp}['object_id']"
        if len(sts) == 2 and len(nonloc) == 1:
            sv = nonloc[0]
            seed = [st for st in fn.body if isinstance(st, ast.Assign) and isinstance(st.targets[0], ast.Name) and st.targets[0].id == sv]
            seeded = len(seed) == 1 and isinstance(seed[0].value, ast.Name) and seed[0].value.id == "starting_number"
            a, b = sts
            if seeded and core.norm_expr(a.targets[0]) == col and core.norm_expr(a.value) == f"{col}.factorize()[0]+{sv}":
                codes = "factorizeFirst"
            if seeded and core.norm_expr(b.targets[0]) == sv and isinstance(b.value, ast.BinOp) and isinstance(b.value.op, ast.Add) \
                    and core.norm_expr(b.value.left) == f"{col}.max()" and isinstance(b.value.right, ast.Constant) and isinstance(b.value.right.value, int):
                upd = int(b.value.right.value)
            elif seeded and core.norm_expr(b.targets[0]) == sv and core.norm_expr(b.value) == f"{col}.max()":
                upd = 0
        rets = [n for n in ast.walk(inner) if isinstance(n, ast.Return)]
        if not (len(rets) == 1 and isinstance(rets[0].value, ast.Name) and rets[0].value.id == gp):
            codes = "bad"
    return dict(groupKey=key, groupOrder=order, codes=codes, startUpdate=upd, reset=reset, writesBack=bool(writes))


def extract(src):
    """returns dict of extracted items; every item goes through src.anchor (missing => recorded, never guessed)"""
    g = {}
    g["cols"] = src.anchor("Motl.motl_columns", lambda: src.literal(src.class_attr(REL, "Motl", "motl_columns")))

    # ---- check_df_correct_format: sorted(Motl.motl_columns) == sorted(input_df.columns)
    def fmt():
        fn = src.find(REL, "Motl.check_df_correct_format")
        cmps = [n for n in ast.walk(fn) if isinstance(n, ast.Compare)]
        n = _one(cmps, "check_df_correct_format: one comparison")
        sides = sorted([core.norm_expr(n.left), core.norm_expr(n.comparators[0])])
        if sides != ["sorted(Motl.motl_columns)", "sorted(input_df.columns)"] or not isinstance(n.ops[0], ast.Eq):
            raise core.AnchorMissing("check_df_correct_format: sorted(Motl.motl_columns) == sorted(input_df.columns)")
        return True
    g["format_is_perm"] = src.anchor("check_df_correct_format:sorted==sorted", fmt)

    # ---- get_motl_subset
    g["subset_cmp"] = src.anchor("get_motl_subset:self.df[feature_id]<op>i", lambda: _loop_cmp(src, "Motl.get_motl_subset"))
    g["subset_loop"] = src.anchor("get_motl_subset:loop-structure", lambda: loop_subset(src))

    # ---- remove_feature
    g["remove_cmp"] = src.anchor("remove_feature:self.df[feature_id]<op>value", lambda: _loop_cmp(src, "Motl.remove_feature"))
    g["split_cmp"] = src.anchor("split_by_feature:self.df[feature_id]<op>value", lambda: _loop_cmp(src, "Motl.split_by_feature"))
    g["split_loop"] = src.anchor("split_by_feature:loop-structure", lambda: loop_split(src))
    g["remove_loop"] = src.anchor("remove_feature:loop-structure", lambda: loop_remove(src))

    # ---- get_motl_intersection: rows of m1 whose id isin m2
    def inter():
        fn = src.find(REL, "Motl.get_motl_intersection")
        calls = [n for n in ast.walk(fn) if isinstance(n, ast.Call) and isinstance(n.func, ast.Attribute) and n.func.attr in ("isin", "merge")]
        c = _one(calls, "get_motl_intersection: one isin/merge call")
        if c.func.attr != "isin":
            return "merge"
        recv, arg = core.norm_expr(c.func.value), core.norm_expr(c.args[0])
        # the selection must index the same frame the receiver column comes from
        subs = [n for n in ast.walk(fn) if isinstance(n, ast.Subscript) and isinstance(n.slice, ast.Call) and n.slice is c]
        base = core.norm_expr(_one(subs, "get_motl_intersection: <frame>.loc[<isin>]").value)
        return f"{base}[{recv}.isin({arg})]"
    g["inter"] = src.anchor("get_motl_intersection:selection", inter)

    def inter_loads():
        fn = src.find(REL, "Motl.get_motl_intersection")
        out = {}
        for n in ast.walk(fn):
            if isinstance(n, ast.Assign) and isinstance(n.targets[0], ast.Name) and n.targets[0].id in ("m1", "m2"):
                out[n.targets[0].id] = core.norm_expr(n.value)
        if set(out) != {"m1", "m2"}:
            raise core.AnchorMissing("get_motl_intersection: m1 = ..., m2 = ...")
        return f"m1={out['m1']};m2={out['m2']}"
    g["inter_loads"] = src.anchor("get_motl_intersection:operands", inter_loads)

    def fillna():
        fn = src.find(REL, "Motl.check_df_type")
        calls = [n for n in ast.walk(fn) if isinstance(n, ast.Call) and isinstance(n.func, ast.Attribute) and n.func.attr == "fillna"]
        c = _one(calls, "check_df_type: one fillna")
        v = ast.literal_eval(c.args[0])
        if float(v) != int(v):
            raise core.AnchorMissing("check_df_type: fillna value is not integral")
        return int(v)
    g["fill_value"] = src.anchor("check_df_type:fillna-value", fillna)

    # ---- drop_duplicates
    def dd_defaults():
        fn = src.find(REL, "Motl.drop_duplicates")
        d = _defaults(fn)
        return [d["duplicates_column"], d["decision_column"], bool(d["decision_sort_ascending"])]
    g["dd_defaults"] = src.anchor("drop_duplicates:defaults", dd_defaults)

    def dd_sort():
        fn = src.find(REL, "Motl.drop_duplicates")
        calls = [n for n in ast.walk(fn) if isinstance(n, ast.Call) and isinstance(n.func, ast.Attribute) and n.func.attr == "sort_values"]
        c = _one(calls, "drop_duplicates: sort_values")
        by, asc = _kw(c, "by"), _kw(c, "ascending")
        if by is None or asc is None or core.norm_expr(by) != "[duplicates_column,decision_column]":
            raise core.AnchorMissing("drop_duplicates: sort_values(by=[duplicates_column, decision_column], ascending=[...])")
        if not (isinstance(asc, ast.List) and len(asc.elts) == 2 and isinstance(asc.elts[0], ast.Constant) and core.norm_expr(asc.elts[1]) == "decision_sort_ascending"):
            raise core.AnchorMissing("drop_duplicates: ascending=[<const>, decision_sort_ascending]")
        extra = sorted(k.arg for k in c.keywords if k.arg not in ("by", "ascending"))
        if extra:
            raise core.AnchorMissing(f"drop_duplicates: unexpected sort_values options {extra}")
        return bool(asc.elts[0].value)
    g["dd_first_asc"] = src.anchor("drop_duplicates:sort_values-ascending[0]", dd_sort)

    def dd_keep():
        fn = src.find(REL, "Motl.drop_duplicates")
        calls = [n for n in ast.walk(fn) if isinstance(n, ast.Call) and isinstance(n.func, ast.Attribute) and n.func.attr == "drop_duplicates"]
        c = _one(calls, "drop_duplicates: DataFrame.drop_duplicates")
        sub = _kw(c, "subset")
        if sub is None or core.norm_expr(sub) != "duplicates_column":
            raise core.AnchorMissing("drop_duplicates: subset=duplicates_column")
        keep = _kw(c, "keep")
        return "first" if keep is None else ast.literal_eval(keep)
    g["dd_keep"] = src.anchor("drop_duplicates:keep", dd_keep)

    # ---- merge_and_renumber / merge_and_drop_duplicates (same shifting loop)
    for tag, qual in (("mr", "Motl.merge_and_renumber"), ("md", "Motl.merge_and_drop_duplicates")):
        def shift_cmp(qual=qual):
            fn = src.find(REL, qual)
            ifs = [n for n in ast.walk(fn) if isinstance(n, ast.If) and isinstance(n.test, ast.Compare)
                   and core.norm_expr(n.test.left) == "feature_min" and core.norm_expr(n.test.comparators[0]) == "feature_add"]
            return CMP[type(_one(ifs, f"{qual}: if feature_min <op> feature_add").test.ops[0])]
        g[tag + "_cmp"] = src.anchor(f"{qual.split('.')[1]}:feature_min<op>feature_add", shift_cmp)

        def shift_expr(qual=qual):
            fn = src.find(REL, qual)
            ifs = [n for n in ast.walk(fn) if isinstance(n, ast.If) and isinstance(n.test, ast.Compare) and core.norm_expr(n.test.left) == "feature_min"]
            body = _one(ifs, f"{qual}: shift if").body
            st = _one([s for s in body if isinstance(s, ast.Assign)], f"{qual}: one assignment in the shift branch")
            return core.norm_expr(st.targets[0]) + "=" + core.norm_expr(st.value)
        g[tag + "_shift"] = src.anchor(f"{qual.split('.')[1]}:shift-assignment", shift_expr)

        def minmax(qual=qual):
            fn = src.find(REL, qual)
            out = {}
            for n in ast.walk(fn):
                if isinstance(n, ast.Assign) and isinstance(n.targets[0], ast.Name) and n.targets[0].id in ("feature_min", "feature_add"):
                    out.setdefault(n.targets[0].id, []).append(core.norm_expr(n.value))
            return "feature_min=" + "|".join(out.get("feature_min", [])) + ";feature_add=" + "|".join(out.get("feature_add", []))
        g[tag + "_minmax"] = src.anchor(f"{qual.split('.')[1]}:feature_min/feature_add", minmax)

        def tail(qual=qual):
            fn = src.find(REL, qual)
            calls = []
            for n in ast.walk(fn):
                if isinstance(n, ast.Call) and isinstance(n.func, ast.Attribute) and core.norm_expr(n.func.value) == "merged_motl":
                    calls.append(n.func.attr + "(" + ",".join(core.norm_expr(a) for a in n.args) + ",".join(f"{k.arg}={core.norm_expr(k.value)}" for k in n.keywords) + ")")
            return ";".join(calls)
        g[tag + "_tail"] = src.anchor(f"{qual.split('.')[1]}:post-merge-call", tail)

    # ---- renumber_particles
    def rp():
        fn = src.find(REL, "Motl.renumber_particles")
        st = _one([n for n in ast.walk(fn) if isinstance(n, ast.Assign)], "renumber_particles: one assignment")
        return core.norm_expr(st.targets[0]) + "=" + core.norm_expr(st.value)
    g["rp"] = src.anchor("renumber_particles:assignment", rp)

    def rp_start():
        fn = src.find(REL, "Motl.renumber_particles")
        calls = [n for n in ast.walk(fn) if isinstance(n, ast.Call) and core.norm_expr(n.func) == "range"]
        c = _one(calls, "renumber_particles: range(...)")
        if len(c.args) != 2 or core.norm_expr(c.args[1]) != "len(self.df)+" + core.norm_expr(c.args[0]):
            raise core.AnchorMissing("renumber_particles: range(k, len(self.df)+k)")
        return int(ast.literal_eval(c.args[0]))
    g["rp_start"] = src.anchor("renumber_particles:first-number", rp_start)

    # ---- renumber_objects_sequentially
    def ro_default():
        return int(_defaults(src.find(REL, "Motl.renumber_objects_sequentially"))["starting_number"])
    g["ro_default"] = src.anchor("renumber_objects_sequentially:default-start", ro_default)

    g["obj_loop"] = src.anchor("renumber_objects_sequentially:loop-structure", lambda: loop_objects(src))
    return g


ITER = ("requested", "uniqueFirst", "uniqueSorted")
NORM = ("atleast1d", "wrapInList", "listOrArrayElseWrap", "none")
ACC = ("append", "prepend", "narrow")
RESET = ("dropTrue", "absent", "keepOld")
CODES = ("factorizeFirst",)

DOC = dict(
    inter="m1.df.loc[m1.df[feature_id].isin(m2.df[feature_id])]",
    inter_loads="m1=cls.load(motl1.df);m2=cls.load(motl2.df)",
    shift="motl.df.loc[:,'object_id']=motl.df.loc[:,'object_id']+(feature_add-feature_min+1)",
    minmax="feature_min=min(motl.df.loc[:,'object_id']);feature_add=0|max(motl.df.loc[:,'object_id'])",
    mr_tail="renumber_particles()",
    md_tail="drop_duplicates()",
    rp="self.df.loc[:,'subtomo_id']=list(range(1,len(self.df)+1))",
)


def translate(src):
    g = extract(src)
    cols = g["cols"] if isinstance(g["cols"], list) and all(isinstance(c, str) for c in g["cols"]) else []
    cmp_ = lambda k: "." + (g[k] if g.get(k) in CMP.values() else "bad")
    s = lambda k: core.lean_str(g[k]) if isinstance(g.get(k), str) else '"<missing>"'
    b = lambda v: "true" if v else "false"
    dd = g["dd_defaults"] if isinstance(g.get("dd_defaults"), list) else ["<missing>", "<missing>", True]
    nat = lambda k: g[k] if isinstance(g.get(k), int) and g[k] >= 0 else 0
    en = lambda v, allowed: "." + (v if v in allowed else "bad")

    def loop_(k):
        d = g.get(k) if isinstance(g.get(k), dict) else {}
        return ("{ iter := " + en(d.get("iter"), ITER) + ", norm := " + en(d.get("norm"), NORM) + ", acc := " + en(d.get("acc"), ACC)
                + ", reset := " + en(d.get("reset"), RESET) + ", sameFrame := " + b(d.get("sameFrame")) + " }")

    def obj_():
        d = g.get("obj_loop") if isinstance(g.get("obj_loop"), dict) else {}
        upd = d.get("startUpdate")
        return ("{ groupKey := " + core.lean_str(str(d.get("groupKey", "<missing>"))) + ", groupOrder := " + en(d.get("groupOrder"), ITER)
                + ", codes := " + en(d.get("codes"), CODES) + ", startUpdate := " + (f"some {upd}" if isinstance(upd, int) and upd >= 0 else "none")
                + ", reset := " + en(d.get("reset"), RESET) + ", writesBack := " + b(d.get("writesBack")) + " }")
    return f"""-- GENERATED by harness/props/c08.py from {REL}; do not edit
namespace CryoCat.Gen.C08
/-- comparison operators as they appear in the source (`.bad` = not one of the six) -/
inductive Cmp | eq | ne | lt | le | gt | ge | bad
deriving DecidableEq, Repr
/-- what a loop runs over: the requested values themselves / the distinct values of the column in order of
first appearance (`Series.unique`) / the distinct values sorted (`np.unique`, `groupby` default) -/
inductive Iter | requested | uniqueFirst | uniqueSorted | bad
deriving DecidableEq, Repr
/-- how the requested values are made iterable: `np.atleast_1d(np.asarray(v))` / `np.array([v])` (wrong for
array-likes) / `if not isinstance(v, (list, np.ndarray)): v = [v]` / nothing -/
inductive Norm | atleast1d | wrapInList | listOrArrayElseWrap | none | bad
deriving DecidableEq, Repr
/-- how the loop accumulates: `acc = concat([acc, part])` or `list.append(part)` / `concat([part, acc])` or
`insert(0, part)` / `frame = frame.loc[mask of the same frame]` -/
inductive Acc | append | prepend | narrow | bad
deriving DecidableEq, Repr
/-- index handling: `reset_index(drop=True)` / no reset / `reset_index()` that would add the old index as a column -/
inductive Reset | dropTrue | absent | keepOld | bad
deriving DecidableEq, Repr
inductive Codes | factorizeFirst | bad
deriving DecidableEq, Repr
/-- structure of a `for value in …: <select rows by comparison with value>; <accumulate>` loop, extracted from
ast shapes (local variable names are not compared) -/
structure SelectLoop where
  iter : Iter
  norm : Norm
  acc : Acc
  reset : Reset
  sameFrame : Bool
deriving DecidableEq, Repr
/-- structure of `renumber_objects_sequentially`: `groupby(groupKey)` in `groupOrder`, per group
`factorize()[0] + start`, then `start = max + startUpdate`, written back into the re-indexed frame -/
structure ObjLoop where
  groupKey : String
  groupOrder : Iter
  codes : Codes
  startUpdate : Option Nat
  reset : Reset
  writesBack : Bool
deriving DecidableEq, Repr
def anchorsOk : Bool := {b(src.ok)}
def motlColumnNames : List String := {core.lean_str_list(cols)}
def formatIsPermCheck : Bool := {b(g.get("format_is_perm"))}
-- get_motl_subset
def subsetCmp : Cmp := {cmp_("subset_cmp")}
def subsetLoop : SelectLoop := {loop_("subset_loop")}
-- remove_feature
def removeCmp : Cmp := {cmp_("remove_cmp")}
def removeLoop : SelectLoop := {loop_("remove_loop")}
-- split_by_feature
def splitCmp : Cmp := {cmp_("split_cmp")}
def splitLoop : SelectLoop := {loop_("split_loop")}
-- get_motl_intersection
def intersectSelection : String := {s("inter")}
def intersectOperands : String := {s("inter_loads")}
def intersectKeepsFirstByIsin : Bool := {b(g.get("inter") == DOC["inter"] and g.get("inter_loads") == DOC["inter_loads"])}
def loadFillValue : Nat := {nat("fill_value")}
-- drop_duplicates
def ddDefaultDuplicates : String := {core.lean_str(str(dd[0]))}
def ddDefaultDecision : String := {core.lean_str(str(dd[1]))}
def ddDefaultAscending : Bool := {b(dd[2])}
def ddFirstKeyAscending : Bool := {b(g.get("dd_first_asc"))}
def ddKeep : String := {s("dd_keep")}
-- merge_and_renumber / merge_and_drop_duplicates
def mergeRenumberShiftCmp : Cmp := {cmp_("mr_cmp")}
def mergeRenumberShift : String := {s("mr_shift")}
def mergeRenumberMinMax : String := {s("mr_minmax")}
def mergeRenumberTail : String := {s("mr_tail")}
def mergeDropDupShiftCmp : Cmp := {cmp_("md_cmp")}
def mergeDropDupShift : String := {s("md_shift")}
def mergeDropDupMinMax : String := {s("md_minmax")}
def mergeDropDupTail : String := {s("md_tail")}
-- renumber_particles
def renumberParticlesAssign : String := {s("rp")}
def renumberParticlesFirst : Nat := {nat("rp_start")}
-- renumber_objects_sequentially
def renumberObjectsDefaultStart : Nat := {nat("ro_default")}
def objLoop : ObjLoop := {obj_()}
end CryoCat.Gen.C08
"""


# ================================================================== generators, adapter, judge
import math, random as _random, copy as _copy
from collections import Counter

PROP = "C08"
COUNT = {"quick": 400, "thorough": 6000, "search": 1500}
PARALLEL = True
FIELDS = DOCUMENTED
IDX = {f: i for i, f in enumerate(FIELDS)}
KEY_FIELDS = ["tomo_id", "object_id", "subtomo_id", "class", "geom1", "geom2", "score", "subtomo_mean"]
NAN_FIELDS = ["x", "y", "z", "shift_x", "shift_y", "shift_z", "geom3", "geom4", "geom5", "phi", "psi", "theta"]
NANB = 0x7FF8000000000000
ZEROB = 0
OPS = ["subset", "remove", "split", "intersect", "dropdup", "merge_renumber", "merge_dropdup", "renumber_particles", "renumber_objects"]

RULE = ("histories: a base particle list of 0..200 rows (key fields tomo_id/object_id/subtomo_id/class/geom1/geom2/score/subtomo_mean from small "
        "domains with gaps, so values repeat; subtomo_id unsorted with duplicates; object ids include 0 and negatives; NaN holes only in the 12 "
        "non-key fields; the frame's column order is shuffled in 30% of the cases) followed by 1..10 operations (thorough: up to 40) drawn from "
        "subset / remove / split+pick / intersection / drop_duplicates / merge_and_renumber / merge_and_drop_duplicates / renumber_particles / "
        "renumber_objects_sequentially; arguments are chosen against a pure-Python row-set simulation of the current table so that most ops hit "
        "existing values (requested values as list / tuple / ndarray / scalar, repeated and absent values, empty value lists; second operands of "
        "intersection repeat ids; merge inputs are Motl objects or bare DataFrames, some empty). After every op the whole table (column names and "
        "all cells, bit-exact) is compared with the Lean model, and the real output of every op (plus all parts of a split and the column names) is sent to the "
        "Lean verified checkers, which decide the clauses of the statement (Python evaluators cross-check them). "
        "non-trivial = base >= 4 rows, >= 3 ops of >= 2 kinds, and >= 2 ops acting on a non-empty table; distinct = distinct (base, ops) content")
ASSUMPTIONS = [
    "key fields (the feature compared / the id / the decision column of an op) hold no NaN, so == is reflexive; NaN occurs only in the 12 non-key fields",
    "numpy float64 ==, <, + on the generated key values (small integers and halves) = Lean Float ==, <, + (IEEE binary64 both; compared bit for bit on every case)",
    "Motl.load(DataFrame) replaces missing values by 0.0 (check_df_type: fillna(0.0)); get_motl_intersection and merge inputs given as DataFrames therefore "
    "return 0.0 where a surviving row had NaN. The model contains this fill explicitly and the 'no other field changed' clause is read modulo it (reported to the integrator)",
    "pandas: boolean-mask selection and concat keep row order; Series.unique / factorize number by first appearance; sort_values on two keys is a stable "
    "lexicographic sort; drop_duplicates keeps the first; groupby iterates its keys in ascending order; isin is exact float membership",
]
TRUSTED = ["spec findings are decided by the Lean verified checkers (Model/C08_Check.lean; check_*_sound / check_*_complete / check_history_rows) on the REAL "
           "output of every op; trusted around them: the adapter that brings a frame into canonical column order and IEEE bit patterns, the driver's cell "
           "comparison (same bit pattern, one pattern for every NaN) standing for equality (hypothesis heqv), and that a raised exception is reported as such",
           "offset certificates for merge_and_drop_duplicates are computed in Python but NOT trusted (the checker verifies them; a wrong one can only cause a rejection)",
           "the pure-Python clause evaluators are a cross-check only (a disagreement with the Lean checker is reported as a corr finding)"]


def canon(b):
    """canonical bit pattern (all NaNs -> one)"""
    return NANB if (b & 0x7FF0000000000000) == 0x7FF0000000000000 and (b & 0x000FFFFFFFFFFFFF) else b


def fb(x):
    return canon(f2b(x))


def fz(row):
    """row after fillna(0.0)"""
    return tuple(ZEROB if c == NANB else c for c in row)


# ------------------------------------------------------------------ pure-Python row-set model (rows = lists of bit patterns)
def val(row, f):
    return b2f(row[IDX[f]])


def setf(row, f, v):
    r = list(row); r[IDX[f]] = fb(v); return r


def py_uniq(xs):
    out = []
    for x in xs:
        if not any(x == y for y in out):
            out.append(x)
    return out


def py_dropdup(rows, dup, dec, asc):
    srt = sorted(rows, key=lambda r: (val(r, dup), val(r, dec) if asc else -val(r, dec)))
    seen, out = [], []
    for r in srt:
        if val(r, dup) not in seen:
            seen.append(val(r, dup)); out.append(list(r))
    return out


def py_merge(inputs):
    out, add = [], 0.0
    for df, rows in inputs:
        rows = [list(fz(r)) for r in rows] if df else [list(r) for r in rows]
        if not rows:
            continue
        mn = min(val(r, "object_id") for r in rows)
        if mn <= add:
            rows = [setf(r, "object_id", val(r, "object_id") + (add - mn + 1)) for r in rows]
        out += rows
        add = max(val(r, "object_id") for r in rows)
    return out


def inputs_of(op, cur):
    return [(x["df"], x["rows"]) for x in op["before"]] + [(op["self_df"], cur)] + [(x["df"], x["rows"]) for x in op["after"]]


def py_step(rows, op):
    k = op["op"]
    if k == "subset":
        return [list(r) for v in op["vs"] for r in rows if val(r, op["f"]) == b2f(v)]
    if k == "remove":
        return [list(r) for r in rows if all(val(r, op["f"]) != b2f(v) for v in op["vs"])]
    if k == "split":
        u = py_uniq([val(r, op["f"]) for r in rows])
        return [list(r) for r in rows if val(r, op["f"]) == u[op["pick"]]] if op["pick"] < len(u) else []
    if k == "intersect":
        ids = {b2f(fz(r)[IDX[op["f"]]]) for r in op["other"]}
        return [list(fz(r)) for r in rows if b2f(fz(r)[IDX[op["f"]]]) in ids]
    if k == "dropdup":
        return py_dropdup(rows, op["dup"], op["dec"], op["asc"])
    if k == "merge_renumber":
        m = py_merge(inputs_of(op, rows))
        return [setf(r, "subtomo_id", float(i + 1)) for i, r in enumerate(m)]
    if k == "merge_dropdup":
        return py_dropdup(py_merge(inputs_of(op, rows)), "subtomo_id", "score", False)
    if k == "renumber_particles":
        return [setf(r, "subtomo_id", float(i + 1)) for i, r in enumerate(rows)]
    if k == "renumber_objects":
        start = b2f(op["start"])
        keys = []
        for t in sorted(py_uniq([val(r, "tomo_id") for r in rows])):
            for o in py_uniq([val(r, "object_id") for r in rows if val(r, "tomo_id") == t]):
                keys.append((t, o))
        return [setf(r, "object_id", start + float(keys.index((val(r, "tomo_id"), val(r, "object_id"))))) for r in rows]
    raise ValueError(k)


# ------------------------------------------------------------------ generators
def _domain(rng, f):
    if f == "tomo_id":
        return rng.choice([[1, 2, 3], [1, 2, 5, 9], [3, 7], [2], [10, 4, 1, 6, 8]])
    if f == "object_id":
        return rng.choice([[1, 2, 3, 4], [0, 1, 2], [5, 9, 2, 7, 11], [1], [-2, 0, 3, 4], [1, 2, 3, 4, 5, 6, 7, 8]])
    if f == "class":
        return [1, 2, 3]
    if f in ("geom1", "geom2", "subtomo_mean"):
        return rng.choice([[0, 1, 2], [0.5, 1.5, 2.5, 3.0], [7]])
    if f == "score":
        return rng.choice([[0.25, 0.5, 0.75, 1.0], [k / 16 for k in range(17)], [0.5]])
    raise KeyError(f)


def _payload(rng):
    k = rng.random()
    if k < 0.22:
        return float("nan")
    if k < 0.5:
        return float(rng.randint(-20, 400))
    if k < 0.8:
        return rng.uniform(-180, 180)
    return rng.gauss(0, 1e3)


def _rows(rng, n, doms, id_pool, nan_ok=True):
    rows = []
    for _ in range(n):
        r = [0.0] * 20
        for f in FIELDS:
            if f == "subtomo_id":
                r[IDX[f]] = float(rng.choice(id_pool))
            elif f in doms:
                r[IDX[f]] = float(rng.choice(doms[f]))
            else:
                v = _payload(rng)
                r[IDX[f]] = v if (nan_ok or not math.isnan(v)) else 0.0
        rows.append([fb(x) for x in r])
    return rows


def _size(rng, tier):
    k = rng.random()
    if k < 0.05:
        return 0
    if k < 0.15:
        return rng.randint(1, 3)
    if k < 0.70:
        return rng.randint(4, 30)
    if k < 0.93:
        return rng.randint(31, 100 if tier != "search" else 40)
    return rng.randint(101, 200) if tier != "search" else rng.randint(4, 12)


def _other_list(rng, cur, doms, id_pool, maxn):
    """a second list related to `cur`: some of its rows (payload re-drawn, ids repeated) plus fresh rows"""
    out = []
    k = rng.randint(0, min(len(cur), maxn))
    for r in (rng.sample(cur, k) if k else []):
        r = list(r)
        for f in NAN_FIELDS:
            if rng.random() < 0.5:
                r[IDX[f]] = fb(_payload(rng))
        out.append(r)
        if rng.random() < 0.3:
            out.append(list(r))  # repeated id in the second list
    out += _rows(rng, rng.randint(0, max(0, maxn - len(out))) if rng.random() < 0.8 else 0, doms, id_pool)
    rng.shuffle(out)
    return out


def _values(rng, cur, f, doms):
    present = py_uniq([val(r, f) for r in cur])
    pool = present if present else [1.0]
    kind = rng.choices(["list", "tuple", "ndarray", "scalar"], [0.4, 0.15, 0.3, 0.15])[0]
    if kind == "scalar":
        vs = [rng.choice(pool)] if rng.random() < 0.85 else [97.0]
    else:
        n = rng.choice([0, 1, 1, 2, 2, 3, 4]) if rng.random() < 0.9 else len(cur)  # len(values) == len(rows): the D20 shape
        vs = [rng.choice(pool) if rng.random() < 0.85 else float(rng.choice([97, 0, -1, 2.5])) for _ in range(n)]
    return kind, [fb(v) for v in vs]


def _gen_op(rng, cur, doms, id_pool, tier):
    kind = rng.choices(OPS, [16, 12, 10, 14, 12, 9, 7, 8, 12])[0]
    if kind in ("subset", "remove"):
        f = rng.choice(["tomo_id", "tomo_id", "object_id", "class", "subtomo_id", "geom1", "score"])
        vk, vs = _values(rng, cur, f, doms)
        if kind == "remove" and vk == "tuple":
            vk = "list"   # remove_feature documents list / ndarray / scalar
        return dict(op=kind, f=f, vs=vs, vkind=vk)
    if kind == "split":
        f = rng.choice(["tomo_id", "tomo_id", "object_id", "class", "geom2"])
        n = len(py_uniq([val(r, f) for r in cur]))
        return dict(op="split", f=f, pick=rng.randrange(n) if n else 0)
    if kind == "intersect":
        f = rng.choice(["subtomo_id", "subtomo_id", "subtomo_id", "tomo_id", "object_id", "class"])
        return dict(op="intersect", f=f, other=_other_list(rng, cur, doms, id_pool, 25 if tier != "thorough" else 60))
    if kind == "dropdup":
        dup = rng.choice(["subtomo_id", "subtomo_id", "object_id", "tomo_id", "class"])
        dec = rng.choice([f for f in ["score", "score", "geom1", "geom2", "subtomo_mean"] if f != dup])
        return dict(op="dropdup", dup=dup, dec=dec, asc=rng.random() < 0.4)
    if kind in ("merge_renumber", "merge_dropdup"):
        def inp():
            n = 0 if rng.random() < 0.2 else rng.randint(1, 12)
            return dict(df=rng.random() < 0.4, rows=_rows(rng, n, doms, id_pool))
        nb, na = rng.choice([0, 0, 1, 2]), rng.choice([0, 1, 1, 2])
        return dict(op=kind, before=[inp() for _ in range(nb)], after=[inp() for _ in range(na)], self_df=rng.random() < 0.4)
    if kind == "renumber_particles":
        return dict(op=kind)
    return dict(op="renumber_objects", start=fb(float(rng.choice([1, 1, 1, 0, 5, 10, 100]))), default=rng.random() < 0.3)


def gen_case(rng, tier):
    n = _size(rng, tier)
    doms = {f: _domain(rng, f) for f in KEY_FIELDS if f != "subtomo_id"}
    pool_n = max(1, int(max(n, 4) * rng.choice([0.5, 0.8, 1.5])))
    id_pool = rng.sample(range(1, 4 * pool_n + 1), pool_n)   # unsorted, with gaps; rows draw with repetition
    base = _rows(rng, n, doms, id_pool)
    cols = list(FIELDS)
    if rng.random() < 0.3:
        rng.shuffle(cols)
    nops = rng.randint(1, 10)
    if tier == "thorough" and rng.random() < 0.05:
        nops = rng.randint(11, 40)
    ops, cur = [], base
    for _ in range(nops):
        op = _gen_op(rng, cur, doms, id_pool, tier)
        if op["op"] == "renumber_objects" and op.get("default"):
            op["start"] = fb(1.0)
        ops.append(op)
        cur = py_step(cur, op)
        if len(cur) > 400:
            break
    return dict(base=base, cols=cols, ops=ops)


def generate(rng, tier, n):
    for _ in range(n):
        yield gen_case(rng, tier)


def shrink(case):
    ops, base = case["ops"], case["base"]
    for k in range(len(ops) - 1, 0, -1):          # a shorter prefix
        yield dict(case, ops=ops[:k])
    for k in range(len(ops) - 1):                  # drop one earlier op
        yield dict(case, ops=ops[:k] + ops[k + 1:])
    if case.get("cols") != FIELDS:
        yield dict(case, cols=list(FIELDS))
    if len(base) > 1:
        yield dict(case, base=base[: len(base) // 2])
        yield dict(case, base=base[len(base) // 2:])
        for i in range(min(len(base), 12)):
            yield dict(case, base=base[:i] + base[i + 1:])
    for k, op in enumerate(ops):                   # smaller operands
        for key in ("other",):
            if key in op and len(op[key]) > 1:
                yield dict(case, ops=ops[:k] + [dict(op, **{key: op[key][: len(op[key]) // 2]})] + ops[k + 1:])
                yield dict(case, ops=ops[:k] + [dict(op, **{key: op[key][len(op[key]) // 2:]})] + ops[k + 1:])
        for key in ("before", "after"):
            if key in op and op[key]:
                yield dict(case, ops=ops[:k] + [dict(op, **{key: op[key][1:]})] + ops[k + 1:])
                for j, x in enumerate(op[key]):
                    if len(x["rows"]) > 1:
                        nx = dict(x, rows=x["rows"][: len(x["rows"]) // 2])
                        yield dict(case, ops=ops[:k] + [dict(op, **{key: op[key][:j] + [nx] + op[key][j + 1:]})] + ops[k + 1:])
        if "vs" in op and len(op["vs"]) > 1 and op.get("vkind") != "scalar":
            yield dict(case, ops=ops[:k] + [dict(op, vs=op["vs"][1:])] + ops[k + 1:])
    # NaN holes -> plain numbers
    if any(c == NANB for r in base for c in r):
        yield dict(case, base=[[fb(1.0) if c == NANB else c for c in r] for r in base])


# ------------------------------------------------------------------ implementation adapter
def _table(df):
    import numpy as np
    cols = [str(c) for c in df.columns]
    if sorted(cols) == sorted(FIELDS):
        arr = df[FIELDS].to_numpy(dtype=float)
    else:
        arr = df.to_numpy(dtype=float)
    return dict(cols=cols, rows=[[fb(x) for x in row] for row in arr.tolist()])


def _frame(rows, cols=None):
    import pandas as pd
    vals = [[b2f(b) for b in r] for r in rows]
    df = pd.DataFrame(vals, columns=FIELDS, dtype=float) if vals else pd.DataFrame({c: [] for c in FIELDS}, dtype=float)
    return df[cols] if cols else df


def _vals(op):
    import numpy as np
    vs = [b2f(v) for v in op["vs"]]
    k = op.get("vkind", "list")
    if k == "scalar":
        return vs[0]
    if k == "tuple":
        return tuple(vs)
    if k == "ndarray":
        return np.array(vs, dtype=float)
    return vs


def run_impl(case):
    import warnings, io, contextlib
    from cryocat import cryomotl
    Motl = cryomotl.Motl
    steps = []
    with warnings.catch_warnings(), contextlib.redirect_stdout(io.StringIO()):
        warnings.simplefilter("ignore")
        m = Motl(_frame(case["base"], case.get("cols")))
        for k, op in enumerate(case["ops"]):
            kind = op["op"]
            rec = {}
            try:
                if kind == "subset":
                    m = m.get_motl_subset(_vals(op), feature_id=op["f"])
                elif kind == "remove":
                    m.remove_feature(op["f"], _vals(op))
                elif kind == "split":
                    parts = m.split_by_feature(op["f"])
                    rec["parts"] = [_table(p.df) for p in parts]
                    m = parts[op["pick"]] if op["pick"] < len(parts) else Motl(_frame([]))
                elif kind == "intersect":
                    m = Motl.get_motl_intersection(m, Motl(_frame(op["other"])), feature_id=op["f"])
                elif kind == "dropdup":
                    m.drop_duplicates(duplicates_column=op["dup"], decision_column=op["dec"], decision_sort_ascending=op["asc"])
                elif kind in ("merge_renumber", "merge_dropdup"):
                    mk = lambda x: _frame(x["rows"]) if x["df"] else Motl(_frame(x["rows"]))
                    lst = [mk(x) for x in op["before"]] + [m.df if op["self_df"] else m] + [mk(x) for x in op["after"]]
                    m = Motl.merge_and_renumber(lst) if kind == "merge_renumber" else Motl.merge_and_drop_duplicates(lst)
                elif kind == "renumber_particles":
                    m.renumber_particles()
                elif kind == "renumber_objects":
                    if op.get("default"):
                        m.renumber_objects_sequentially()
                    else:
                        s = b2f(op["start"])
                        m.renumber_objects_sequentially(starting_number=int(s) if s == int(s) else s)
                else:
                    raise ValueError(kind)
            except Exception as e:
                import traceback, os
                where = ""
                for fr in reversed(traceback.extract_tb(e.__traceback__)):
                    if "/cryocat/" in fr.filename:
                        where = f"{os.path.basename(fr.filename)}:{fr.lineno}"; break
                steps.append(dict(error=f"{type(e).__name__}: {str(e)[:200]}", where=where))
                break
            rec.update(_table(m.df))
            rec["type"] = type(m).__name__
            steps.append(rec)
    return dict(steps=steps)


def _wire_op(op):
    k = op["op"]
    if k in ("subset", "remove"):
        return dict(op=k, f=op["f"], vs=op["vs"])
    if k == "split":
        return dict(op=k, f=op["f"], pick=op["pick"])
    if k == "intersect":
        return dict(op=k, f=op["f"], other=op["other"])
    if k == "dropdup":
        return dict(op=k, dup=op["dup"], dec=op["dec"], asc=bool(op["asc"]))
    if k in ("merge_renumber", "merge_dropdup"):
        return dict(op=k, before=op["before"], after=op["after"], self_df=bool(op["self_df"]))
    if k == "renumber_objects":
        return dict(op=k, start=op["start"])
    return dict(op=k)


def py_merge_offsets(inputs):
    """object-number offset per input as the documented loop computes them (0 for empty / unshifted inputs)"""
    offs, add = [], 0.0
    for df, rows in inputs:
        if not rows:
            offs.append(0.0); continue
        objs = [val(r, "object_id") for r in rows]
        c = (add - min(objs) + 1) if min(objs) <= add else 0.0
        offs.append(c)
        add = max(objs) + c
    return offs


def _offset_hints(op, prev, cur):
    """UNTRUSTED certificates for the Lean checker of merge_and_drop_duplicates (one offset per input):
    the offsets read off the real output where a surviving row identifies its input uniquely (else the
    documented ones), and the documented ones. The checker verifies whichever it is given."""
    ins = inputs_of(op, prev)
    doc = py_merge_offsets(ins)
    seen = list(doc)
    cnt = Counter(_mask(fz(r), ["object_id"]) for df, rows in ins for r in rows)
    outidx = {}
    for c in cur:
        outidx.setdefault(_mask(fz(c), ["object_id"]), c)
    for i, (df, rows) in enumerate(ins):
        for r in rows:
            key = _mask(fz(r), ["object_id"])
            if cnt[key] == 1 and key in outidx:
                seen[i] = val(outidx[key], "object_id") - val(r, "object_id"); break
    hints = [seen] if seen == doc else [seen, doc]
    return [[fb(x) for x in h] for h in hints]


def _schema_ok(t):
    return sorted(t["cols"]) == sorted(FIELDS)


def _check_request(case, obs):
    """the REAL output of every op for the Lean verified checkers; stops after the first step that raised or
    whose table cannot be brought into the canonical column order (the Lean side then rejects its schema)"""
    steps, ops = [], []
    prev = case["base"]
    for op, st in zip(case["ops"], obs.get("steps", [])):
        if "error" in st:
            break
        tabs = [st] + (st.get("parts") or [])
        good = all(_schema_ok(t) for t in tabs)
        rec = dict(cols=st["cols"], rows=st["rows"] if good else [])
        if "parts" in st:
            rec["parts"] = [dict(cols=p["cols"], rows=p["rows"] if good else []) for p in st["parts"]]
        if op["op"] == "merge_dropdup" and good:
            rec["hints"] = _offset_hints(op, prev, st["rows"])
        steps.append(rec); ops.append(_wire_op(op))
        if not good:
            break
        prev = st["rows"]
    return dict(op="check", base=case["base"], ops=ops, obs=steps)


def requests(case, obs):
    return [dict(op="history", base=case["base"], ops=[_wire_op(o) for o in case["ops"]]), _check_request(case, obs)]


# ------------------------------------------------------------------ the statement, clause by clause, on the real output
def _ms(rows):
    return Counter(tuple(r) for r in rows)


def _mask(row, fields):
    r = list(row)
    for f in fields:
        r[IDX[f]] = None
    return tuple(r)


def _fmt_row(r):
    return "{" + ", ".join(f"{f}={b2f(r[IDX[f]]):g}" for f in ("subtomo_id", "tomo_id", "object_id", "class", "score")) + "}"


def clauses(op, prev, cur, parts=None):
    """findings (clause, detail) for one op: `prev` -> `cur` as the REAL code produced them. Only what the statement says."""
    out = []
    k = op["op"]
    P, C = _ms(prev), _ms(cur)
    if k == "subset":
        exp = [tuple(r) for v in op["vs"] for r in prev if val(r, op["f"]) == b2f(v)]
        if [tuple(r) for r in cur] != exp:
            out.append(("subset-holds-exactly-the-matching-rows-grouped-by-value", f"{op['f']} in {[b2f(v) for v in op['vs']]} ({op.get('vkind')}): got {len(cur)} rows, the matching rows are {len(exp)}"
                        + ("" if _ms(exp) != C else " (same rows, wrong order)")))
    elif k == "remove":
        vs = [b2f(v) for v in op["vs"]]
        exp = _ms([r for r in prev if all(val(r, op["f"]) != v for v in vs)])
        if C != exp:
            out.append(("remove-is-complement-of-selection", f"remove {op['f']} in {vs}: {len(cur)} rows left, complement of the selection has {sum(exp.values())}"))
    elif k == "split":
        allrows = [r for p in parts for r in p]
        if _ms(allrows) != P:
            out.append(("split-partitions-the-list", f"split by {op['f']}: parts hold {len(allrows)} rows, list has {len(prev)}"))
        heads = []
        for p in parts:
            vs = py_uniq([val(r, op["f"]) for r in p])
            if len(vs) != 1:
                out.append(("split-part-has-one-value", f"a part holds values {vs} of {op['f']}"))
            heads += vs[:1]
        if len(py_uniq(heads)) != len(heads):
            out.append(("split-parts-have-distinct-values", f"values of the parts: {heads}"))
    elif k == "intersect":
        ids = {b2f(fz(r)[IDX[op["f"]]]) for r in op["other"]}
        exp = [r for r in prev if b2f(fz(r)[IDX[op["f"]]]) in ids]
        if _ms([fz(r) for r in cur]) != _ms([fz(r) for r in exp]):
            out.append(("intersection-keeps-exactly-first-list-rows-with-id-in-second", f"on {op['f']}: got {len(cur)} rows, first-list rows whose id occurs in the second: {len(exp)}"))
        else:
            bad = _ms(cur) - (_ms(exp) + _ms([fz(r) for r in exp]))
            if bad:
                out.append(("other-fields-unchanged", f"intersection changed a cell other than a missing value: {_fmt_row(next(iter(bad)))}"))
    elif k in ("dropdup", "merge_dropdup"):
        if k == "dropdup":
            src, dup, dec, asc = [tuple(r) for r in prev], op["dup"], op["dec"], op["asc"]
            member = lambda r: tuple(r) in P
        else:
            ins = inputs_of(op, prev)
            src = [tuple(r) for df, rows in ins for r in rows]
            dup, dec, asc = "subtomo_id", "score", False
            pool = _ms([_mask(x, ["object_id"]) for r in src for x in (r, fz(r))])
            member = lambda r: _mask(r, ["object_id"]) in pool
        ids = [val(r, dup) for r in cur]
        if len(py_uniq(ids)) != len(ids):
            out.append(("dropdup-one-row-per-id", f"{dup} values after dropping duplicates repeat: {sorted(ids)[:12]}"))
        if set(ids) != {val(r, dup) for r in src}:
            out.append(("dropdup-every-id-survives", f"ids before {sorted({val(r, dup) for r in src})[:12]} after {sorted(set(ids))[:12]}"))
        for r in cur:
            if not member(r):
                out.append(("other-fields-unchanged", f"row after drop_duplicates is not a row of the input: {_fmt_row(r)}")); break
            same = [val(s, dec) for s in src if val(s, dup) == val(r, dup)]
            best = min(same) if asc else max(same)
            if same and val(r, dec) != best:
                out.append(("dropdup-keeps-best-scoring-row", f"{dup}={val(r, dup):g}: kept {dec}={val(r, dec):g}, best is {best:g} ({'ascending' if asc else 'descending'})")); break
        if k == "merge_dropdup":
            out += _object_clauses(ins, cur, by_position=False)
    elif k == "merge_renumber":
        ins = inputs_of(op, prev)
        n = sum(len(rows) for _, rows in ins)
        got = [val(r, "subtomo_id") for r in cur]
        if sorted(got) != [float(i) for i in range(1, n + 1)]:
            out.append(("merge-renumber-subtomo-1..N", f"N={n}, subtomo ids {got[:12]}{'...' if len(got) > 12 else ''}"))
        src = [r for df, rows in ins for r in rows]
        if _ms([_mask(fz(r), ["subtomo_id", "object_id"]) for r in cur]) != _ms([_mask(fz(r), ["subtomo_id", "object_id"]) for r in src]):
            out.append(("other-fields-unchanged", "merge_and_renumber: rows (ids masked) differ from the union of the inputs"))
        else:
            out += _object_clauses(ins, cur, by_position=True)
    elif k == "renumber_particles":
        got = [val(r, "subtomo_id") for r in cur]
        if got != [float(i) for i in range(1, len(prev) + 1)]:
            out.append(("renumber-particles-1..N", f"N={len(prev)}, subtomo ids {got[:12]}"))
        if [_mask(r, ["subtomo_id"]) for r in cur] != [_mask(r, ["subtomo_id"]) for r in prev]:
            out.append(("other-fields-unchanged", "renumber_particles changed a field other than subtomo_id"))
    elif k == "renumber_objects":
        if [_mask(r, ["object_id"]) for r in cur] != [_mask(r, ["object_id"]) for r in prev]:
            out.append(("other-fields-unchanged", "renumber_objects_sequentially changed a field other than object_id (or the rows)"))
        else:
            old = [(val(r, "tomo_id"), val(r, "object_id")) for r in prev]
            new = [val(r, "object_id") for r in cur]
            fwd, bwd = {}, {}
            for o, nw in zip(old, new):
                if fwd.setdefault(o, nw) != nw or bwd.setdefault(nw, o) != o:
                    out.append(("renumber-objects-keeps-grouping", f"(tomo, object) {o} -> {nw} while {bwd.get(nw)} -> {nw} / {o} -> {fwd.get(o)}")); break
            start = b2f(op["start"])
            want = sorted(start + i for i in range(len(set(old))))
            if not out and sorted(set(new)) != want:
                out.append(("renumber-objects-consecutive", f"start {start:g}: new object numbers {sorted(set(new))[:12]}, wanted {want[:12]}"))
    if k in ("subset", "remove", "split") and not out:
        for r in (cur if k != "split" else [r for p in parts for r in p]):
            if tuple(r) not in P:
                out.append(("other-fields-unchanged", f"{k}: a surviving row is not a row of the list: {_fmt_row(r)}")); break
    return out


def _object_clauses(ins, cur, by_position):
    """object numbers never collide across inputs; each input keeps its grouping (uniform offset)"""
    out = []
    blocks = []
    if by_position:
        pos = 0
        for df, rows in ins:
            blocks.append(list(zip(rows, cur[pos:pos + len(rows)]))); pos += len(rows)
    else:
        # after drop_duplicates rows are identified by content (ids masked); ambiguous rows are skipped
        cnt = Counter(_mask(fz(r), ["object_id"]) for df, rows in ins for r in rows)
        for df, rows in ins:
            idx = {_mask(fz(r), ["object_id"]): r for r in rows if cnt[_mask(fz(r), ["object_id"])] == 1}
            blocks.append([(idx[_mask(fz(c), ["object_id"])], c) for c in cur if _mask(fz(c), ["object_id"]) in idx])
    seen = {}
    for bi, blk in enumerate(blocks):
        offs = {val(c, "object_id") - val(r, "object_id") for r, c in blk}
        if len(offs) > 1:
            out.append(("merge-keeps-each-inputs-grouping", f"input {bi}: object offsets {sorted(offs)}")); break
        for r, c in blk:
            o = val(c, "object_id")
            if seen.setdefault(o, bi) != bi:
                out.append(("merge-object-numbers-never-collide", f"object number {o:g} used by inputs {seen[o]} and {bi}")); return out
    return out


def judge(case, obs, resps):
    """spec findings are decided by the Lean VERIFIED CHECKERS (`check` request: Model/C08_Check.lean, theorems
    check_*_sound / check_*_complete / check_history_rows) applied to the REAL output of every operation; a raised
    exception is a spec finding by itself. The Python clause evaluators (`clauses`) only cross-check the checker
    (a disagreement is a corr finding) and supply the human-readable detail. Then the table is compared with the model."""
    out = []
    steps = obs.get("steps", [])
    if "error" in obs:
        return [dict(kind="spec", clause="raises", detail=obs["error"] + " @" + obs.get("where", ""))]
    model = resps[0] if resps else {"error": "no response"}
    check = resps[1] if len(resps) > 1 else {"error": "no checker response"}
    prev = case["base"]
    for k, (op, st) in enumerate(zip(case["ops"], steps)):
        name = op["op"]
        if "error" in st:
            return [dict(kind="spec", clause=f"{name}-raises", detail=f"op {k} {name}: {st['error']} @{st.get('where','')}")]
        if "error" in check or k >= len(check.get("verdicts", [])):
            return [dict(kind="corr", clause="checker-error", detail=f"op {k} {name}: no verdict from the Lean checker: {str(check)[:300]}")]
        verdict = check["verdicts"][k]
        tabs = [st] + (st.get("parts") or [])
        if not verdict["schema"]:
            t = next((t for t in tabs if not _schema_ok(t)), st)
            missing = [f for f in FIELDS if f not in t["cols"]]
            extra = [c for c in t["cols"] if c not in FIELDS]
            return [dict(kind="spec", clause="exactly-the-20-fields", detail=f"op {k} {name}: table has {len(t['cols'])} columns; missing {missing}, extra {extra}")]
        if not all(_schema_ok(t) for t in tabs):
            return [dict(kind="corr", clause="checker-vs-python-evaluator", detail=f"op {k} {name}: the Lean schema check accepted column names {st['cols']}")]
        cur = st["rows"]
        parts = [p["rows"] for p in st["parts"]] if "parts" in st else None
        try:
            fs = clauses(op, prev, cur, parts)
        except Exception as e:
            import traceback
            fs = [("clause-evaluator-crashed", f"{type(e).__name__}: {e} {traceback.format_exc()[-400:]}")]
        if fs and fs[0][0] == "clause-evaluator-crashed":
            return [dict(kind="corr", clause=fs[0][0], detail=f"op {k} {name}: {fs[0][1]}")]
        if not verdict["ok"]:
            pyd = dict(fs)
            failed = verdict["failed"] or ["checker-rejected"]
            note = "" if fs else " [the Python cross-check evaluator saw no failing clause]"
            return [dict(kind="spec", clause=c, detail=f"op {k} {name}: Lean checker rejects the real output: " + pyd.get(c, "; ".join(d for _, d in fs) or f"{len(prev)} rows in, {len(cur)} rows out") + note)
                    for c in failed]
        if fs:
            return [dict(kind="corr", clause="checker-vs-python-evaluator",
                         detail=f"op {k} {name}: the Lean checker accepts the real output but the Python evaluator reports {c}: {d}") for c, d in fs]
        # correspondence with the Lean model (exact, bit for bit)
        if "error" in model:
            return [dict(kind="corr", clause="model-error", detail=str(model))]
        if model["states"][k] != cur:
            mrows = model["states"][k]
            i = next((i for i, (a, b) in enumerate(zip(mrows, cur)) if a != b), min(len(mrows), len(cur)))
            det = f"op {k} {name}: model has {len(mrows)} rows, implementation {len(cur)}; first difference at row {i}"
            if i < len(mrows) and i < len(cur):
                j = next(j for j in range(20) if mrows[i][j] != cur[i][j])
                det += f", field {FIELDS[j]}: model {b2f(mrows[i][j])!r}, implementation {b2f(cur[i][j])!r}"
            return [dict(kind="corr", clause=f"{name}-vs-model", detail=det)]
        if parts is not None and model["parts"][k] != parts:
            return [dict(kind="corr", clause="split-parts-vs-model", detail=f"op {k}: parts differ from the model's (count {len(parts)} vs {len(model['parts'][k])})")]
        prev = cur
    if len(steps) != len(case["ops"]):
        out.append(dict(kind="corr", clause="history-truncated", detail=f"{len(steps)} of {len(case['ops'])} ops observed"))
    elif "error" not in check and not check.get("run_ok", False):
        out.append(dict(kind="corr", clause="checker-run-vs-steps", detail="every step was accepted but checkRun (the function check_history_rows is about) is false"))
    return out


def nontrivial(case, obs):
    ops = case["ops"]
    if len(case["base"]) < 4 or len(ops) < 3 or len({o["op"] for o in ops}) < 2:
        return False
    steps = obs.get("steps", [])
    sizes = [len(case["base"])] + [len(s.get("rows", [])) for s in steps]
    return sum(1 for s in sizes[:len(ops)] if s > 0) >= 2


def _bucket(n):
    return "0" if n == 0 else ("1-3" if n <= 3 else ("4-30" if n <= 30 else ("31-100" if n <= 100 else ">100")))


def stats(case, obs, resps):
    steps = obs.get("steps", [])
    d = {"base_rows": _bucket(len(case["base"])), "n_ops": str(len(case["ops"])), "op": [o["op"] for o in case["ops"]],
         "column_order": "canonical" if case.get("cols", FIELDS) == FIELDS else "shuffled"}
    prev = case["base"]
    branch = []
    for op, st in zip(case["ops"], steps):
        if "rows" not in st:
            branch.append(op["op"] + ":raised"); break
        cur = st["rows"]
        k = op["op"]
        tag = "empty-in" if not prev else ("empty-out" if not cur else ("all-kept" if len(cur) == len(prev) and k in ("subset", "remove", "intersect", "dropdup") else "some"))
        branch.append(f"{k}:{tag}")
        if "vkind" in op:
            branch.append(f"{k}:values-{op['vkind']}")
            if len(set(op["vs"])) < len(op["vs"]):
                branch.append(f"{k}:repeated-values")
        if k == "intersect":
            ids = [r[IDX[op["f"]]] for r in op["other"]]
            if len(set(ids)) < len(ids):
                branch.append("intersect:second-list-repeats-id")
            keep = {b2f(fz(r)[IDX[op["f"]]]) for r in op["other"]}
            if any(c == NANB for r in prev if b2f(fz(r)[IDX[op["f"]]]) in keep for c in r):
                branch.append("intersect:surviving-row-had-missing-value(filled-with-0)")
        if k in ("dropdup", "merge_dropdup") and prev:
            dup, dec = (op["dup"], op["dec"]) if k == "dropdup" else ("subtomo_id", "score")
            grp = {}
            for r in prev:
                grp.setdefault(val(r, dup), []).append(val(r, dec))
            if any(len(v) > 1 and sorted(v)[-1] == sorted(v)[-2] for v in grp.values()):
                branch.append(f"{k}:tie-on-best")
        if k in ("merge_renumber", "merge_dropdup"):
            ins = inputs_of(op, prev)
            branch.append(f"{k}:{len(ins)}-inputs")
            if any(not rows for _, rows in ins):
                branch.append(f"{k}:has-empty-input")
            if any(df for df, _ in ins):
                branch.append(f"{k}:has-dataframe-input")
        prev = cur
    d["branch"] = branch
    d["final_rows"] = _bucket(len(prev))
    chk = resps[1] if len(resps) > 1 and isinstance(resps[1], dict) else {}
    d["lean_checker"] = [f"{op['op']}:{'accepted' if v.get('ok') and v.get('schema') else 'rejected:' + ','.join(v.get('failed') or ['schema'])}"
                         for op, v in zip(case["ops"], chk.get("verdicts", []))] or ["no-verdict"]
    d["lean_checker_history"] = "accepted (check_history_rows applies)" if chk.get("run_ok") else "not accepted"
    return d


def sample_view(case):
    def opv(o):
        v = {k: x for k, x in o.items() if k not in ("other", "before", "after", "vs")}
        if "vs" in o:
            v["vs"] = [b2f(x) for x in o["vs"]]
        if "other" in o:
            v["other_rows"] = len(o["other"])
        for k in ("before", "after"):
            if k in o:
                v[k] = [dict(df=x["df"], rows=len(x["rows"])) for x in o[k]]
        if "start" in o:
            v["start"] = b2f(o["start"])
        return v
    return dict(base_rows=len(case["base"]), cols=case.get("cols"), first_row=[b2f(b) for b in case["base"][0]] if case["base"] else None,
                ops=[opv(o) for o in case["ops"]])


def probes(rng):
    """library assumptions the model relies on, probed on small frames"""
    import numpy as np, pandas as pd
    out = []
    df = pd.DataFrame(dict(a=[2.0, 1.0, 2.0, 1.0, 2.0], b=[0.5, 0.5, 0.5, 0.25, 0.5], c=[0.0, 1.0, 2.0, 3.0, 4.0]))
    s = df.sort_values(by=["a", "b"], ascending=[True, False])
    out.append(dict(name="pandas sort_values on two keys is stable (ties keep table order)", ok=s["c"].tolist() == [1.0, 3.0, 0.0, 2.0, 4.0], detail=str(s["c"].tolist())))
    out.append(dict(name="pandas drop_duplicates keeps the first", ok=s.drop_duplicates(subset="a")["c"].tolist() == [1.0, 0.0], detail=""))
    out.append(dict(name="Series.unique / factorize number by first appearance", ok=df["a"].unique().tolist() == [2.0, 1.0] and df["a"].factorize()[0].tolist() == [0, 1, 0, 1, 0], detail=""))
    out.append(dict(name="groupby iterates keys in ascending order", ok=list(df.groupby("a").groups.keys()) == [1.0, 2.0], detail=""))
    out.append(dict(name="isin is exact float membership", ok=df["b"].isin(pd.Series([0.25, 7.0, 0.25])).tolist() == [False, False, False, True, False], detail=""))
    return out


LEVEL_TEXT = ("Lean 4 verified checkers deciding the clauses of the statement on the REAL output of every operation (checkSchema/checkSubset/checkRemove/checkSplit/"
              "checkIntersect/checkDropDup/checkMergeRenumber/checkMergeDropDup/checkRenumberParticles/checkRenumberObjects with check_*_sound and check_*_complete, "
              "check_history_rows for an accepted observed history), plus Lean 4 theorems about an executable model of get_motl_subset / remove_feature / split_by_feature / get_motl_intersection / drop_duplicates / "
              "merge_and_renumber / merge_and_drop_duplicates / renumber_particles / renumber_objects_sequentially, for all lists, all value lists and all "
              "operation sequences, no size bound (subset_spec, remove_spec, remove_subset_complement, split_partition, split_disjoint, intersect_spec, "
              "dropDup_spec, mergeRenumber_ids, mergeRenumber_objects, renumberParticles_spec, renumberObjects_spec, history_rows, selection_history_rows, "
              "split_flatten_eq_stable_sort, subset_eq_stable_sort, mergeRenumber_then_selections_nodup); "
              "the model is tied to the source by regenerated operators/defaults/expressions and by loop-structure records extracted from ast shapes and EXECUTED by the "
              "model (Gen/C08.lean: SelectLoop for get_motl_subset / remove_feature / split_by_feature, ObjLoop for renumber_objects_sequentially; 13 documented-value theorems) and by a "
              "bit-exact differential run of random operation histories through the real Motl API against the compiled model")
LEVEL_NOTE = ("trusted: Lean kernel; translator anchors; pandas semantics listed in assumptions (probed each run); the schema clause (exactly 20 fields) is a "
              "type in the model (history_schema) and is decided for the code by checkSchema on the real column names (check_schema_iff); NaN->0.0 filling by Motl.load is modelled explicitly")
TECHNIQUE = "Lean 4 proof (list induction, permutation/partition lemmas, sortedness invariants, ordered-ring arithmetic) + regenerated operators + bit-exact differential histories"
DESIGN_REF = "DESIGN.md section 4, C08"
