"""C01 — EM particle-list files round-trip for any column order (DESIGN.md section 4, C01)."""
import os, struct, tempfile, ast, math
import numpy as np
import core
from core import f2b, b2f

PROP = "C01"
COUNT = {"quick": 300, "thorough": 5000, "search": 1500}
PARALLEL = True
DOCUMENTED = ["score", "geom1", "geom2", "subtomo_id", "tomo_id", "object_id", "subtomo_mean", "x", "y", "z",
              "shift_x", "shift_y", "shift_z", "geom3", "geom4", "geom5", "phi", "psi", "theta", "class"]
RULE = ("tables of N particles with the 20 fields in a random column permutation (identity, single transposition or full "
        "shuffle), cell values drawn from small integers / normals / float32 half-ulp ties / subnormal range / near float32 "
        "overflow / +-0 / NaN holes, written through Motl.write_out(...,'emmotl') and EmMotl.write_out; non-trivial = N>=2, "
        "permutation != identity, >=1 NaN and >=1 value not representable in float32; distinct = distinct (cols, rows) content")
ASSUMPTIONS = ["numpy astype(np.single) = IEEE round-to-nearest-even = Lean Float.toFloat32 (compared bit for bit on every case)",
               "emfile.write stores the array it is given in C order after a 512-byte header (checked by the harness's own EM parser)"]
TRUSTED = ["harness EM header parser (props/c01.py parse_em)"]


# ------------------------------------------------------------------ translator
def _no_doc(fn):
    """function body without its docstring, unparsed"""
    body = fn.body[1:] if (fn.body and isinstance(fn.body[0], ast.Expr) and isinstance(getattr(fn.body[0], "value", None), ast.Constant)
                           and isinstance(fn.body[0].value.value, str)) else fn.body
    return body


def translate(src):
    rel = "cryocat/cryomotl.py"
    cols = src.anchor("Motl.motl_columns", lambda: src.literal(src.class_attr(rel, "Motl", "motl_columns")))

    def read_guard():
        """`if not len(<x>) == K: raise` / `if len(<x>) != K: raise`  ->  K   (structural: no variable names)"""
        fn = src.find(rel, "EmMotl.read_in")
        for st in ast.walk(fn):
            if not (isinstance(st, ast.If) and any(isinstance(b, ast.Raise) for b in st.body)):
                continue
            t, neg = st.test, False
            if isinstance(t, ast.UnaryOp) and isinstance(t.op, ast.Not):
                t, neg = t.operand, True
            if isinstance(t, ast.Compare) and len(t.ops) == 1 and isinstance(t.comparators[0], ast.Constant) \
                    and isinstance(t.left, ast.Call) and isinstance(t.left.func, ast.Name) and t.left.func.id == "len":
                rejects_unless_equal = (neg and isinstance(t.ops[0], ast.Eq)) or ((not neg) and isinstance(t.ops[0], ast.NotEq))
                if rejects_unless_equal and isinstance(t.comparators[0].value, int):
                    return int(t.comparators[0].value)
        raise core.AnchorMissing("EmMotl.read_in: no `if not len(..) == K: raise` guard")

    n20 = src.anchor("EmMotl.read_in:rejects-unless-K-columns", read_guard)

    def write_feed():
        """the expression whose .to_numpy() is written: must select Motl.motl_columns by name and fillna(0.0)"""
        fn = src.find(rel, "EmMotl.write_out")
        body = _no_doc(fn)
        assigns = {}
        for st in body:
            if isinstance(st, ast.Assign) and len(st.targets) == 1 and isinstance(st.targets[0], ast.Name):
                assigns.setdefault(st.targets[0].id, []).append(st.value)
        feed = None
        for st in body:
            for n in ast.walk(st):
                if isinstance(n, ast.Call) and isinstance(n.func, ast.Attribute) and n.func.attr == "to_numpy":
                    feed = n.func.value
        if feed is None:
            raise core.AnchorMissing("EmMotl.write_out: no .to_numpy() call")
        seen, exprs = set(), [feed]
        while exprs:  # follow local names back to their definitions
            e = exprs.pop()
            for n in ast.walk(e):
                if isinstance(n, ast.Name) and n.id in assigns and n.id not in seen:
                    seen.add(n.id)
                    exprs.extend(assigns[n.id])
            yield_txt = ast.unparse(e).replace(" ", "")
            write_feed.txt = getattr(write_feed, "txt", "") + "|" + yield_txt
        txt = write_feed.txt
        write_feed.txt = ""
        selects = any(k in txt for k in ("[Motl.motl_columns]", "[self.motl_columns]", "columns=Motl.motl_columns", ",Motl.motl_columns]"))
        fills = ".fillna(0.0)" in txt or ".fillna(0)" in txt
        return [selects, fills]

    wf = src.anchor("EmMotl.write_out:to_numpy-feed(selects motl_columns, fillna 0)", write_feed)

    def cast_single():
        fn = src.find(rel, "EmMotl.write_out")
        txt = "".join(ast.unparse(st).replace(" ", "") for st in _no_doc(fn))
        return any(k in txt for k in (".astype(np.single)", ".astype(np.float32)", "dtype=np.single", "dtype=np.float32"))

    cs = src.anchor("EmMotl.write_out:astype(np.single)", cast_single)
    cols = cols if isinstance(cols, list) and all(isinstance(c, str) for c in cols) else DOCUMENTED
    sel, fills = (wf if isinstance(wf, list) else [False, False])
    return f"""-- GENERATED by harness/props/c01.py from {rel}; do not edit
import CryoCat.Model.Particle
namespace CryoCat.Gen.C01
def anchorsOk : Bool := {"true" if src.ok else "false"}
def motlColumnNames : List String := {core.lean_str_list(cols)}
def readExpectedColumns : Nat := {n20 if n20 is not None else 20}
def writeSelectsCanonical : Bool := {"true" if sel else "false"}
def writeFillsMissingWithZero : Bool := {"true" if fills else "false"}
def writeCastsSingle : Bool := {"true" if cs else "false"}
end CryoCat.Gen.C01
"""


# ------------------------------------------------------------------ independent EM parser
def parse_em(path):
    raw = open(path, "rb").read()
    machine, _, _, dtype = raw[0], raw[1], raw[2], raw[3]
    nx, ny, nz = struct.unpack("<3i", raw[4:16])
    payload = raw[512:]
    n = nx * ny * nz
    ok = (len(payload) == 4 * n)
    data = list(struct.unpack(f"<{len(payload)//4}I", payload[: 4 * (len(payload) // 4)]))
    return dict(machine=machine, dtype=dtype, dims=[nx, ny, nz], size_ok=ok, data=data)


# ------------------------------------------------------------------ generators
def _value(rng):
    k = rng.random()
    if k < 0.30:
        return float(rng.randint(-50, 500))
    if k < 0.55:
        return rng.gauss(0, 100)
    if k < 0.65:  # exact half-ulp tie of float32
        base = np.float32(rng.uniform(1, 1000))
        nxt = np.nextafter(base, np.float32(np.inf))
        return (float(base) + float(nxt)) / 2
    if k < 0.72:
        return rng.choice([1e-40, -3e-42, 1.1754944e-38, 1e-46])  # subnormal / underflow range
    if k < 0.78:
        return rng.choice([3.4e38, -3.3e38, 1e30])
    if k < 0.83:
        return rng.choice([0.0, -0.0])
    if k < 0.93:
        return float("nan")
    return rng.uniform(-1, 1) * 10 ** rng.randint(-6, 6)


def _perm(rng):
    cols = list(DOCUMENTED)
    k = rng.random()
    if k < 0.1:
        return cols
    if k < 0.4:
        i, j = rng.sample(range(20), 2)
        cols[i], cols[j] = cols[j], cols[i]
        return cols
    rng.shuffle(cols)
    return cols


def generate(rng, tier, n):
    maxn = {"quick": 40, "thorough": 2000, "search": 12}[tier]
    if tier == "thorough":  # every transposition of two columns
        for i in range(20):
            for j in range(i + 1, 20):
                cols = list(DOCUMENTED); cols[i], cols[j] = cols[j], cols[i]
                yield dict(cols=cols, rows=[[f2b(float(c + 1)) for c in range(20)], [f2b(_value(rng)) for _ in range(20)]], build="dict")
    for t in range(n):
        N = 1 if rng.random() < 0.05 else (rng.randint(1, maxn) if rng.random() < 0.15 else rng.randint(1, min(maxn, 40)))
        if rng.random() < 0.06:
            N = 20                                     # the one N at which particle and field axes look alike
        cols = _perm(rng)
        rows = [[f2b(_value(rng)) for _ in range(20)] for _ in range(N)]
        if rng.random() < 0.08:                        # a particle with every field missing must come back as 20 zeros
            rows[rng.randrange(N)] = [f2b(float("nan"))] * 20
        if rng.random() < 0.10:                        # tiny non-zero magnitudes (below float32 eps, above its smallest subnormal)
            rows[rng.randrange(N)][rng.randrange(20)] = f2b(rng.choice([3e-8, -7.5e-10, 1e-20, -2.5e-30, 1.2e-7]))
        case = dict(cols=cols, rows=rows, build=rng.choice(["dict", "reindex", "late_nan"]))
        k = rng.random()                              # row labels of the DataFrame (a list is its rows in order, whatever the labels)
        if k < 0.45 and N >= 2:
            case["index"] = rng.choice(["permuted", "offset", "sparse", "duplicated"])
        case["default_type"] = rng.random() < 0.3      # G1: Motl.write_out(p) without motl_type (default must be 'emmotl')
        case["same_path_twice"] = rng.random() < 0.2   # G2: the path already holds another (longer) list before the write
        if N >= 2 and rng.random() < 0.25:             # history: load the written file, drop particles, write again
            keep = sorted(rng.sample(range(N), rng.randint(1, N - 1)))
            case["reload_keep"] = keep
        if rng.random() < 0.04:  # malformed header: the constructor must refuse
            bad = list(cols)
            if rng.random() < 0.5:
                bad[rng.randrange(20)] = "extra"
            else:
                bad = bad[:-1]
                case["rows"] = [r[:-1] for r in rows]
            case["cols"] = bad
            case["malformed"] = True
        yield case


def shrink(case):
    if case.get("malformed"):
        return
    rows = case["rows"]
    if len(rows) > 1:
        yield dict(case, rows=rows[:1])
        yield dict(case, rows=rows[: len(rows) // 2])
        yield dict(case, rows=rows[len(rows) // 2:])
    # small distinct integers
    simple = [[f2b(float(100 * i + j + 1)) for j in range(20)] for i in range(len(rows))]
    if rows != simple:
        yield dict(case, rows=simple)
    # undo displaced columns one at a time
    cols = case["cols"]
    for i, c in enumerate(cols):
        if c != DOCUMENTED[i]:
            j = cols.index(DOCUMENTED[i])
            new = list(cols); new[i], new[j] = new[j], new[i]
            newrows = [list(r) for r in rows]
            for r in newrows:
                r[i], r[j] = r[j], r[i]
            if new != cols and new != DOCUMENTED:
                yield dict(case, cols=new, rows=newrows)


# ------------------------------------------------------------------ implementation
def run_impl(case):
    import pandas as pd
    from cryocat import cryomotl
    cols, rows = case["cols"], case["rows"]
    vals = [[b2f(b) for b in r] for r in rows]
    if case.get("build") == "reindex" and not case.get("malformed"):
        base = pd.DataFrame({c: [v[cols.index(c)] for v in vals] for c in DOCUMENTED}, dtype=float)
        df = base[cols]
    else:
        df = pd.DataFrame({c: [v[i] for v in vals] for i, c in enumerate(cols)}, dtype=float)
    n = len(df)
    ik = case.get("index")
    if ik == "permuted":
        df.index = [(7 * i + 3) % n if math.gcd(7, n) == 1 else (n - 1 - i) for i in range(n)]
    elif ik == "offset":
        df.index = [i + 5 for i in range(n)]
    elif ik == "sparse":
        df.index = [3 * (n - i) for i in range(n)]
    elif ik == "duplicated":
        df.index = [i // 2 for i in range(n)]
    out = {}
    late = case.get("build") == "late_nan" and not case.get("malformed")
    with tempfile.TemporaryDirectory(prefix="c01_") as td:
        for path_kind in ("motl", "emmotl"):
            p = os.path.join(td, f"{path_kind}.em")
            if case.get("same_path_twice") and not case.get("malformed"):
                # the same path first receives a different, longer list (and is loaded once): state must not carry over
                other = pd.DataFrame({c: np.arange(len(df) + 3, dtype=float) + k for k, c in enumerate(DOCUMENTED)})
                cryomotl.EmMotl(other).write_out(p)
                cryomotl.Motl.load(p)
            wo = (lambda m: m.write_out(p)) if case.get("default_type") else (lambda m: m.write_out(p, "emmotl"))
            try:
                if late:
                    # holes appear AFTER construction (the constructor's own fillna cannot help the writer)
                    mm = (cryomotl.Motl if path_kind == "motl" else cryomotl.EmMotl)(df.fillna(1.0))
                    if list(mm.df.columns) == list(df.columns) and len(mm.df) == len(df):
                        mm.df = pd.DataFrame(np.where(df.isna().to_numpy(), np.nan, mm.df.to_numpy(dtype=float)), columns=mm.df.columns, index=mm.df.index)
                    if path_kind == "motl":
                        wo(mm)
                    else:
                        mm.write_out(p)
                elif path_kind == "motl":
                    wo(cryomotl.Motl(df.copy()))
                else:
                    cryomotl.EmMotl(df.copy()).write_out(p)
            except ValueError as e:
                out[path_kind] = {"reject": "format"}
                continue
            em = parse_em(p)
            m = cryomotl.Motl.load(p)
            em["loaded_cols"] = [str(c) for c in m.df.columns]
            em["loaded"] = [[f2b(x) for x in row] for row in m.df.to_numpy(dtype=float).tolist()]
            em["loaded_type"] = type(m).__name__
            em["loaded_dtypes"] = sorted({str(t) for t in m.df.dtypes})
            if case.get("reload_keep") and path_kind == "emmotl":
                keep = case["reload_keep"]
                ids = [i for i in range(len(m.df)) if i not in keep]
                m.df = m.df.drop(index=m.df.index[ids]).reset_index(drop=True) if rng_free_choice(case) else m.df.iloc[keep]
                p2 = os.path.join(td, "again.em")
                m.write_out(p2)
                em2 = parse_em(p2)
                m2 = cryomotl.Motl.load(p2)
                em["reload"] = dict(dims=em2["dims"], dtype=em2["dtype"], size_ok=em2["size_ok"], data=em2["data"],
                                    loaded=[[f2b(x) for x in row] for row in m2.df.to_numpy(dtype=float).tolist()])
            out[path_kind] = em
    return out


def rng_free_choice(case):
    """deterministic per case: alternate between dropping rows with a reset index and keeping a sparse index"""
    return (len(case["rows"]) + len(case.get("reload_keep", []))) % 2 == 0


def requests(case, obs):
    if case.get("malformed"):
        return []
    return [dict(op="roundtrip", cols=case["cols"], rows=case["rows"])]


def _expected(case):
    """the property, evaluated independently of model and implementation"""
    cols, rows = case["cols"], case["rows"]
    data = []
    for r in rows:
        named = dict(zip(cols, r))
        for f in DOCUMENTED:
            v = b2f(named[f])
            v = 0.0 if math.isnan(v) else v
            data.append(int(np.array([v], dtype=np.float64).astype(np.float32).view(np.uint32)[0]))
    return data


def judge(case, obs, resps):
    out = []
    if "error" in obs:
        return [dict(kind="spec", clause="raises", detail=obs["error"] + " @" + obs.get("where", ""))]
    if case.get("malformed"):
        for k, o in obs.items():
            if "reject" not in o:
                out.append(dict(kind="spec", clause="accepts-malformed-header", detail=f"{k}: header {case['cols']} accepted"))
        return out
    exp = _expected(case)
    N = len(case["rows"])
    model = resps[0]
    for k, o in obs.items():
        if "reject" in o:
            out.append(dict(kind="spec", clause="rejects-valid-table", detail=f"{k}: {case['cols']}")); continue
        if o["dims"] != [20, N, 1] or o["dtype"] != 5 or not o["size_ok"]:
            out.append(dict(kind="spec", clause="file-shape", detail=f"{k}: dims={o['dims']} dtype={o['dtype']} size_ok={o['size_ok']}"))
        elif o["data"] != exp:
            i = next(i for i, (a, b) in enumerate(zip(o["data"], exp)) if a != b)
            out.append(dict(kind="spec", clause="file-field-order-or-value",
                            detail=f"{k}: particle {i//20} field {DOCUMENTED[i%20]}: file holds bits {o['data'][i]:#x}, property demands {exp[i]:#x}"))
        if o.get("loaded_dtypes") not in (["float64"], ["float32"]):
            out.append(dict(kind="spec", clause="loaded-values", detail=f"{k}: loaded table has column dtypes {o.get('loaded_dtypes')} (numbers expected)"))
        if o.get("machine") != 6:
            out.append(dict(kind="spec", clause="file-shape", detail=f"{k}: machine code {o.get('machine')} (6 = little-endian PC expected)"))
        if "reload" in o:
            keep = case["reload_keep"]
            exp2 = [b for i in keep for b in exp[20 * i:20 * i + 20]]
            r2 = o["reload"]
            if r2["dims"] != [20, len(keep), 1] or r2["dtype"] != 5 or not r2["size_ok"]:
                out.append(dict(kind="spec", clause="reload-file-shape", detail=f"{k}: after load / drop particles / write again: dims={r2['dims']} for {len(keep)} particles, payload ok={r2['size_ok']}"))
            elif r2["data"] != exp2:
                out.append(dict(kind="spec", clause="reload-values", detail=f"{k}: after load / drop particles / write again the file does not hold the kept particles"))
            elif r2["loaded"] != [[f2b(float(np.array([b], dtype=np.uint32).view(np.float32)[0])) for b in exp2[20 * i:20 * i + 20]] for i in range(len(keep))]:
                out.append(dict(kind="spec", clause="reload-values", detail=f"{k}: second load differs from the kept particles"))
        if o["loaded_cols"] != DOCUMENTED:
            out.append(dict(kind="spec", clause="loaded-header", detail=f"{k}: {o['loaded_cols']}"))
        exp_loaded = [[f2b(float(np.array([b], dtype=np.uint32).view(np.float32)[0])) for b in exp[20 * i:20 * i + 20]] for i in range(N)]
        if o["loaded"] != exp_loaded:
            out.append(dict(kind="spec", clause="loaded-values", detail=f"{k}: loaded table differs from float32-rounded named fields"))
        # correspondence with the Lean model (same defs as the theorems)
        if "error" in model:
            out.append(dict(kind="corr", clause="model-rejects", detail=str(model)))
        else:
            if model["file"]["dims"] != o["dims"] or model["file"]["data"] != o["data"]:
                out.append(dict(kind="corr", clause="file-vs-model", detail=f"{k}: file differs from writeEm"))
            mt = model["table"]
            if "error" in mt or mt["cols"] != o["loaded_cols"] or mt["rows"] != o["loaded"]:
                out.append(dict(kind="corr", clause="load-vs-model", detail=f"{k}: loaded table differs from readEm(writeEm)"))
    return out


def nontrivial(case, obs):
    if case.get("malformed") or len(case["rows"]) < 2 or case["cols"] == DOCUMENTED:
        return False
    vals = [b2f(b) for r in case["rows"] for b in r]
    has_nan = any(math.isnan(v) for v in vals)
    inexact = any((not math.isnan(v)) and float(np.float32(v)) != v for v in vals)
    return has_nan and inexact


def stats(case, obs, resps):
    n = len(case["rows"])
    perm = "malformed" if case.get("malformed") else ("identity" if case["cols"] == DOCUMENTED else
            ("transposition" if sum(a != b for a, b in zip(case["cols"], DOCUMENTED)) == 2 else "shuffle"))
    return {"N": "1" if n == 1 else ("20" if n == 20 else ("2-10" if n <= 10 else ("11-40" if n <= 40 else ">40"))), "perm": perm, "build": case.get("build", "dict"),
            "history": "load-drop-write" if case.get("reload_keep") else "single round trip",
            "row_index": case.get("index", "default"), "default_motl_type": bool(case.get("default_type")), "path_reused": bool(case.get("same_path_twice")),
            "all_nan_row": any(all(math.isnan(b2f(b)) for b in r) for r in case["rows"])}


def sample_view(case):
    return dict(cols=case["cols"], n_rows=len(case["rows"]), first_row=[b2f(b) for b in case["rows"][0]], build=case.get("build"), malformed=case.get("malformed", False))

LEVEL_TEXT = ("Lean 4 theorems about an executable model of EmMotl.write_out/read_in, for every column order, every N>=1 and all cell values "
              "(em_roundtrip, em_roundtrip_named, em_write_perm_invariant, em_layout, em_offset, accepted_iff, em_field_order); the model is tied to the "
              "source by regenerated tables (Motl.motl_columns, the 20 in read_in, by-name selection in write_out) and by a bit-exact differential "
              "run of the real writer/loader against the model on generated tables")
LEVEL_NOTE = ("trusted: Lean kernel; translator anchors; harness EM parser; numpy float32 cast = Float.toFloat32 (compared bit-exactly each run); "
              "emfile library I/O is modelled, not verified")
TECHNIQUE = "Lean 4 proof (list induction, by-name lookup under permutation) + regenerated tables + bit-exact differential correspondence"
DESIGN_REF = "DESIGN.md section 4, C01"
