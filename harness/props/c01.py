"""C01 — EM particle-list files round-trip for any column order (DESIGN.md section 4, C01)."""
import os, struct, tempfile, ast, math
import numpy as np
import core
from core import f2b, b2f

PROP = "C01"
COUNT = {"quick": 300, "thorough": 5000, "search": 1500}
PARALLEL = True
DOCUMENTED = ["score", "geom1", "geom2", "subtomo_id", "tomo_id", "object_id", "subtomo_mean", "x", "y", "z",
              "shift_x", "shift_y", "shift_z", "geom3", "geom4", "geom5", "phi", "psi", "theta", "class"]
RULE = ("tables of N particles (N = 1..40, plus fixed 64/65/256/257/1000 and one list of 32769..40000 particles in quick, up to 4099 and one of 65537..66000 in thorough) with the 20 fields in a "
        "random column permutation (identity, single transposition or full shuffle); cell values from small integers / normals / "
        "2-3-decimal numbers / float32 half-ulp ties of either sign over the whole exponent range (subnormal, tiny, ordinary, huge) / "
        "underflow range / float32 max / +-0 / NaN holes; repeated rows and repeated id pairs; int64-typed columns; non-default row "
        "labels; written through Motl.write_out (motl_type omitted, 'emmotl', keyword, 'EMMOTL'/'EmMotl') and EmMotl.write_out, loaded "
        "through Motl.load(p) / Motl.load(p,'emmotl') / keyword / EmMotl(p), str and pathlib paths; the bytes of every real file are "
        "judged by the Lean checker checkFile and compared with the model's encodeEm(writeGen); non-trivial = N>=2, permutation != "
        "identity, >=1 NaN and >=1 value not representable in float32; distinct = distinct case content")
ASSUMPTIONS = ["numpy astype(np.single) = IEEE round-to-nearest-even = Lean Float.toFloat32 (compared bit for bit on every case, and against numpy's own cast in the Python oracle)",
               "emfile.write lays down the 512-byte header modelled by emHeader and the array in C order, little-endian (compared byte for byte with the model's encodeEm on every case)"]
TRUSTED = ["hex transport of the file bytes to the driver (Drv/C01 parseHex/toHex)", "harness EM header parser (props/c01.py parse_em) for the Python-side oracle only"]


# ------------------------------------------------------------------ translator
# Structural (AST) anchors only: no substring tests on unparsed text, local variable names are free, type annotations,
# docstrings and message texts are never looked at.
_SINGLE = {"single", "float32", "f4", "<f4", "=f4", "f"}
_DOUBLE = {"double", "float64", "f8", "<f8", "=f8", "d", "float", "float_"}


def _body(fn):
    """function body without its docstring"""
    b = fn.body
    if b and isinstance(b[0], ast.Expr) and isinstance(getattr(b[0], "value", None), ast.Constant) and isinstance(b[0].value.value, str):
        return b[1:]
    return b


class _Inline(ast.NodeTransformer):
    """replace loaded local names by the expression last assigned to them (binding occurrence decides, not the spelling)"""

    def __init__(self, env):
        self.env = env

    def visit_Name(self, node):
        if isinstance(node.ctx, ast.Load) and node.id in self.env:
            return self.env[node.id]
        return node


def _flow(stmts, env, sink):
    """walk straight-line statements in order, keeping for every local name the expression it holds (locals inlined);
    `sink(call_node_with_inlined_args)` sees every call statement / call inside an expression statement"""
    import copy
    for st in stmts:
        if isinstance(st, ast.Assign) and len(st.targets) == 1 and isinstance(st.targets[0], ast.Name):
            env[st.targets[0].id] = _Inline(env).visit(copy.deepcopy(st.value))
        elif isinstance(st, ast.AnnAssign) and isinstance(st.target, ast.Name) and st.value is not None:  # `x: T = v` is `x = v`
            env[st.target.id] = _Inline(env).visit(copy.deepcopy(st.value))
        elif isinstance(st, ast.AugAssign) and isinstance(st.target, ast.Name):
            cur = env.get(st.target.id, ast.Name(id=st.target.id, ctx=ast.Load()))
            env[st.target.id] = ast.BinOp(left=cur, op=st.op, right=_Inline(env).visit(copy.deepcopy(st.value)))
        elif isinstance(st, ast.Expr) and isinstance(st.value, ast.Call) and isinstance(st.value.func, ast.Attribute) \
                and st.value.func.attr in ("append", "extend") and isinstance(st.value.func.value, ast.Name) \
                and isinstance(env.get(st.value.func.value.id), ast.List) and len(st.value.args) == 1:
            # `parts = []; for …: parts.append(<block>)` — the list holds what was appended (block-wise writers)
            lst = env[st.value.func.value.id]
            env[st.value.func.value.id] = ast.List(elts=list(lst.elts) + [_Inline(env).visit(copy.deepcopy(st.value.args[0]))], ctx=ast.Load())
        elif isinstance(st, (ast.Expr, ast.Return)) and st.value is not None:
            sink(_Inline(env).visit(copy.deepcopy(st.value)))
        for fld in ("body", "orelse", "finalbody"):
            sub = getattr(st, fld, None)
            if isinstance(sub, list) and not isinstance(st, (ast.FunctionDef, ast.AsyncFunctionDef, ast.ClassDef)):
                _flow([x for x in sub if isinstance(x, ast.stmt)], env, sink)


def _is_motl_columns(e):
    """`Motl.motl_columns` / `self.motl_columns` / `EmMotl.motl_columns` / `type(self).motl_columns`, optionally in list(...)"""
    if isinstance(e, ast.Call) and isinstance(e.func, ast.Name) and e.func.id == "list" and len(e.args) == 1 and not e.keywords:
        e = e.args[0]
    return isinstance(e, ast.Attribute) and e.attr == "motl_columns"


def _dtype_name(e):
    """np.single / numpy.float32 / "float32" / 'single' / np.dtype("f4") / float  ->  lower-case dtype name"""
    if isinstance(e, ast.Call) and isinstance(e.func, ast.Attribute) and e.func.attr == "dtype" and len(e.args) == 1:
        e = e.args[0]
    if isinstance(e, ast.Constant) and isinstance(e.value, str):
        return e.value.lower()
    if isinstance(e, ast.Attribute):
        return e.attr.lower()
    if isinstance(e, ast.Name):
        return e.id.lower()
    return None


def _number(e):
    if isinstance(e, ast.UnaryOp) and isinstance(e.op, (ast.USub, ast.UAdd)) and isinstance(e.operand, ast.Constant):
        v = e.operand.value
        return (-v if isinstance(e.op, ast.USub) else v) if isinstance(v, (int, float)) and not isinstance(v, bool) else None
    if isinstance(e, ast.Constant) and isinstance(e.value, (int, float)) and not isinstance(e.value, bool):
        return e.value
    return None


def _written_array(fn):
    """the expression (locals inlined) handed to `emfile.write(path, <array>, …)` in EmMotl.write_out. DENY BY DEFAULT at
    statement level: the body may only bind locals, set `self.header` and call `emfile.write` once; any other statement
    (a loop, an in-place call on the table, a re-binding of `self.df`, …) is something the model of the writer does not
    know and fails the anchor, quoted."""
    found = []

    def is_write(n):
        return isinstance(n, ast.Call) and isinstance(n.func, ast.Attribute) and n.func.attr == "write" \
            and isinstance(n.func.value, ast.Name) and n.func.value.id == "emfile"

    for st in _body(fn):
        local_bind = (isinstance(st, ast.Assign) and len(st.targets) == 1 and (isinstance(st.targets[0], ast.Name) or (
            isinstance(st.targets[0], ast.Tuple) and all(isinstance(x, ast.Name) for x in st.targets[0].elts)))) \
            or (isinstance(st, ast.AnnAssign) and isinstance(st.target, ast.Name))
        header_bind = isinstance(st, ast.Assign) and len(st.targets) == 1 and isinstance(st.targets[0], ast.Attribute) \
            and isinstance(st.targets[0].value, ast.Name) and st.targets[0].value.id == "self" and st.targets[0].attr == "header"
        if not (local_bind or header_bind or (isinstance(st, ast.Expr) and is_write(st.value)) or isinstance(st, ast.Pass)):
            raise core.AnchorMissing("EmMotl.write_out: statement `" + ast.unparse(st).splitlines()[0][:100] + "` is not one the model of the writer "
                                     "knows (local bindings, `self.header = …`, one `emfile.write(path, array, …)`)")

    def sink(expr):
        for n in ast.walk(expr):
            if is_write(n):
                arr = n.args[1] if len(n.args) >= 2 else next((k.value for k in n.keywords if k.arg == "data"), None)
                if arr is not None:
                    found.append(arr)
    _flow(_body(fn), {}, sink)
    if len(found) != 1:
        raise core.AnchorMissing(f"EmMotl.write_out: expected exactly one `emfile.write(path, array, …)` call, found {len(found)}")
    return found[0]


def _np_func(e, names):
    return isinstance(e, ast.Call) and isinstance(e.func, ast.Attribute) and e.func.attr in names \
        and isinstance(e.func.value, ast.Name) and e.func.value.id in ("np", "numpy")


def _full_slice(e):
    return isinstance(e, ast.Slice) and e.lower is None and e.upper is None and e.step is None


def _writer_ops(e, facts):
    """DENY BY DEFAULT on the written-array expression: it must be built from `self.df` by operations that keep every
    particle, its position and its numbers (selection of columns by `motl_columns`, `.fillna(<number>)`, `.to_numpy()` /
    `.values` / `.copy()`, `.reshape(…)`, casts, `+ 0`); `facts` collects selection / fill literals / cast dtypes.
    Anything else (sort_index, iloc[:k], clip, round, np.where, drop_duplicates, …) raises AnchorMissing with the
    offending sub-expression quoted."""
    def unknown(n, why="is not an operation the model of the writer knows"):
        raise core.AnchorMissing(f"EmMotl.write_out: `{ast.unparse(n)[:110]}` {why} (known: `self.df[Motl.motl_columns]`, "
                                 "`.fillna(0.0)`, `.to_numpy()`, `.reshape(…)`, `.astype(np.single)`)")

    def shape_expr(x):      # arguments of reshape: constants and extents of a (valid) array expression
        if isinstance(x, ast.Tuple):
            for el in x.elts:
                shape_expr(el)
        elif (isinstance(x, ast.Constant) and isinstance(x.value, int)) or isinstance(x, ast.Name):   # a literal or a local count
            pass
        elif isinstance(x, ast.UnaryOp) and isinstance(x.op, ast.USub) and isinstance(x.operand, ast.Constant):
            pass
        elif isinstance(x, ast.Subscript) and isinstance(x.value, ast.Attribute) and x.value.attr == "shape" and isinstance(x.slice, ast.Constant):
            _writer_ops(x.value.value, {"sel": [], "fill": [], "cast": []})
        elif isinstance(x, ast.Call) and isinstance(x.func, ast.Name) and x.func.id == "len" and len(x.args) == 1:
            _writer_ops(x.args[0], {"sel": [], "fill": [], "cast": []})
        else:
            unknown(x, "is not a shape the model of the writer knows")

    if isinstance(e, ast.Attribute) and isinstance(e.value, ast.Name) and e.value.id == "self" and e.attr == "df":
        return
    if isinstance(e, ast.Attribute) and e.attr == "values":
        return _writer_ops(e.value, facts)
    if isinstance(e, ast.BinOp) and isinstance(e.op, (ast.Add, ast.Sub)):
        if _number(e.right) == 0:
            return _writer_ops(e.left, facts)
        if _number(e.left) == 0 and isinstance(e.op, ast.Add):
            return _writer_ops(e.right, facts)
        unknown(e)
    if isinstance(e, ast.Subscript):
        base, sl = e.value, e.slice
        if isinstance(base, ast.Attribute) and base.attr in ("loc", "iloc") and isinstance(sl, ast.Tuple) and len(sl.elts) == 2 and _full_slice(sl.elts[0]):
            if _is_motl_columns(sl.elts[1]) and base.attr == "loc":
                facts["sel"].append(True)
                return _writer_ops(base.value, facts)
            if _full_slice(sl.elts[1]):
                return _writer_ops(base.value, facts)
            unknown(e)
        if _is_motl_columns(sl):
            facts["sel"].append(True)
            return _writer_ops(base, facts)
        unknown(e, "selects rows or columns in a way the model of the writer does not know")
    if isinstance(e, ast.Call):
        kw = {k.arg: k.value for k in e.keywords if k.arg}
        if _np_func(e, ("asarray", "array", "ascontiguousarray", "asanyarray")) and len(e.args) == 1 and set(kw) <= {"dtype", "copy", "order"}:
            if "dtype" in kw:
                facts["cast"].append(_dtype_name(kw["dtype"]))
            return _writer_ops(e.args[0], facts)
        if _np_func(e, ("reshape",)) and len(e.args) == 2 and not kw:
            shape_expr(e.args[1])
            return _writer_ops(e.args[0], facts)
        if isinstance(e.func, ast.Attribute):
            m, recv = e.func.attr, e.func.value
            if m == "fillna" and (len(e.args) + len(kw)) == 1 and (e.args or "value" in kw):
                v = _number(e.args[0] if e.args else kw["value"])
                if v is None:
                    unknown(e, "fills with something that is not a number literal (was `.fillna(0.0)`);")
                facts["fill"].append(v)
                return _writer_ops(recv, facts)
            if m in ("to_numpy", "copy") and not e.args and set(kw) <= {"dtype", "copy", "deep"}:
                if "dtype" in kw:
                    facts["cast"].append(_dtype_name(kw["dtype"]))
                return _writer_ops(recv, facts)
            if m == "astype" and (len(e.args) == 1 or "dtype" in kw) and set(kw) <= {"dtype", "copy"}:
                facts["cast"].append(_dtype_name(e.args[0] if e.args else kw["dtype"]))
                return _writer_ops(recv, facts)
            if m == "reshape" and not kw:
                for x in e.args:
                    shape_expr(x)
                return _writer_ops(recv, facts)
            if m in ("reindex", "filter") and not e.args and len(kw) == 1 and _is_motl_columns(kw.get("columns", kw.get("items"))):
                facts["sel"].append(True)
                return _writer_ops(recv, facts)
    unknown(e)


def translate(src):
    rel = "cryocat/cryomotl.py"
    cols = src.anchor("Motl.motl_columns", lambda: src.literal(src.class_attr(rel, "Motl", "motl_columns")))
    # every function on the two paths of the property is looked up, so that the framework's binding / live-object
    # obligations (defined once, documented decorators, not monkey-patched) cover it
    for qn in ("Motl.__init__", "Motl.check_df_correct_format", "Motl.check_df_type", "Motl.load", "Motl.write_out",
               "EmMotl.__init__", "EmMotl.convert_to_motl", "EmMotl.read_in", "EmMotl.write_out"):
        src.anchor(f"def:{qn}", lambda qn=qn: (src.find(rel, qn), True)[1])

    def read_guard():
        """`if not <a> == K: raise` / `if <a> != K: raise` (K an int literal on either side)  ->  K; names are free"""
        fn = src.find(rel, "EmMotl.read_in")
        ks = []
        for st in ast.walk(fn):
            if not (isinstance(st, ast.If) and any(isinstance(b, ast.Raise) for b in st.body)):
                continue
            t, neg = st.test, False
            if isinstance(t, ast.UnaryOp) and isinstance(t.op, ast.Not):
                t, neg = t.operand, True
            if isinstance(t, ast.Compare) and len(t.ops) == 1:
                sides = [t.left, t.comparators[0]]
                consts = [s.value for s in sides if isinstance(s, ast.Constant) and isinstance(s.value, int) and not isinstance(s.value, bool)]
                rejects_unless_equal = (neg and isinstance(t.ops[0], ast.Eq)) or ((not neg) and isinstance(t.ops[0], ast.NotEq))
                if rejects_unless_equal and len(consts) == 1:
                    ks.append((int(consts[0]), ast.unparse(st.test)))
        if len({k for k, _ in ks}) != 1:
            raise core.AnchorMissing("EmMotl.read_in: expected one guard `if not <columns> == K: raise` "
                                     f"(was `if not len(parsed_emfile[0][0]) == 20`), found {[t for _, t in ks]}")
        return ks[0][0]

    n20 = src.anchor("EmMotl.read_in:rejects-unless-K-columns", read_guard)

    def write_facts():
        """facts about the array EmMotl.write_out hands to emfile.write, read off its data-flow expression (every node of
        which must be a known, particle-preserving operation — see _writer_ops):
        [selected by `[…motl_columns]`, fill literal of `.fillna(<number>)`, last cast is to single precision]"""
        arr = _written_array(src.find(rel, "EmMotl.write_out"))
        facts = {"sel": [], "fill": [], "cast": []}
        _writer_ops(arr, facts)
        shown = ast.unparse(arr)
        shown = shown if len(shown) < 160 else shown[:157] + "..."
        if len(set(facts["fill"])) > 1:
            raise core.AnchorMissing(f"EmMotl.write_out: several different fill values {sorted(set(facts['fill']))} (was one `.fillna(0.0)`)")
        if not facts["fill"]:
            # a missing anchor never changes the model: the documented literal stays, the obligation fails and says why
            raise core.AnchorMissing(f"EmMotl.write_out: `.fillna(0.0)` not found in the written array `{shown}`")
        fill = facts["fill"][0]
        if float(fill) != int(fill):
            raise core.AnchorMissing(f"EmMotl.write_out: fill value {fill} is not an integer (was `.fillna(0.0)`)")
        names = set(facts["cast"])
        single = bool(names) and names <= (_SINGLE | _DOUBLE) and bool(names & _SINGLE)   # to single, never through a narrower type
        return [bool(facts["sel"]), int(fill), single]

    def _default_of(fn, arg):
        """documented default of keyword `arg` in the signature (annotations ignored)"""
        names = [a.arg for a in fn.args.args]
        if arg not in names:
            raise core.AnchorMissing(f"{fn.name}: no parameter `{arg}`")
        k = names.index(arg) - (len(names) - len(fn.args.defaults))
        if k < 0 or not isinstance(fn.args.defaults[k], ast.Constant) or not isinstance(fn.args.defaults[k].value, str):
            raise core.AnchorMissing(f"{fn.name}: parameter `{arg}` has no string default (was `{arg}=\"emmotl\"`)")
        return fn.args.defaults[k].value

    def _em_branch(fn, arg):
        """the branch of the `if <arg>[.lower()] == "emmotl":` chain  ->  (lowers, its body statements)"""
        for st in ast.walk(fn):
            if isinstance(st, ast.If) and isinstance(st.test, ast.Compare) and len(st.test.ops) == 1 and isinstance(st.test.ops[0], ast.Eq):
                l, r = st.test.left, st.test.comparators[0]
                if isinstance(l, ast.Constant):
                    l, r = r, l
                if isinstance(r, ast.Constant) and r.value == "emmotl":
                    if isinstance(l, ast.Name) and l.id == arg:
                        return False, st.body
                    if isinstance(l, ast.Call) and isinstance(l.func, ast.Attribute) and l.func.attr == "lower" and not l.args \
                            and isinstance(l.func.value, ast.Name) and l.func.value.id == arg:
                        return True, st.body
        raise core.AnchorMissing(f"{fn.name}: no branch `if {arg}[.lower()] == \"emmotl\":`")

    def write_dispatch():
        """Motl.write_out: [default of motl_type, type compared case-insensitively, the emmotl branch is `EmMotl(self.df).write_out(<path>)`]"""
        fn = src.find(rel, "Motl.write_out")
        lowers, body = _em_branch(fn, "motl_type")
        path = fn.args.args[1].arg
        ok = len(body) == 1 and isinstance(body[0], ast.Expr) and ast.dump(body[0].value) == ast.dump(ast.parse(f"EmMotl(self.df).write_out({path})", mode="eval").body)
        if not ok:
            raise core.AnchorMissing("Motl.write_out: the emmotl branch is `" + "; ".join(ast.unparse(b) for b in body)[:100] + f"` (was `EmMotl(self.df).write_out({path})`)")
        return [_default_of(fn, "motl_type"), lowers, True]

    def load_dispatch():
        """Motl.load: [default of motl_type, the emmotl branch is `return EmMotl(<input>)`]"""
        fn = src.find(rel, "Motl.load")
        lowers, body = _em_branch(fn, "motl_type")
        inp = fn.args.args[1].arg
        ok = len(body) == 1 and isinstance(body[0], ast.Return) and body[0].value is not None \
            and ast.dump(body[0].value) == ast.dump(ast.parse(f"EmMotl({inp})", mode="eval").body)
        if not ok:
            raise core.AnchorMissing("Motl.load: the emmotl branch is `" + "; ".join(ast.unparse(b) for b in body)[:100] + f"` (was `return EmMotl({inp})`)")
        return [_default_of(fn, "motl_type"), lowers, True]

    wd = src.anchor("Motl.write_out:dispatch(default motl_type, lower(), emmotl branch)", write_dispatch)
    ld = src.anchor("Motl.load:dispatch(default motl_type, emmotl branch)", load_dispatch)
    wd = wd if isinstance(wd, list) else ["emmotl", True, True]      # documented fallbacks
    ld = ld if isinstance(ld, list) else ["emmotl", False, True]
    wf = src.anchor("EmMotl.write_out:array-written(selects motl_columns, fill literal, cast single)", write_facts)
    cols = cols if isinstance(cols, list) and all(isinstance(c, str) for c in cols) else DOCUMENTED
    sel, fill, cs = (wf if isinstance(wf, list) else [True, 0, True])   # documented fallbacks: a missing anchor never changes the model
    fill_txt = "none" if fill is None else f"some ({fill})"
    return f"""-- GENERATED by harness/props/c01.py from {rel}; do not edit
import CryoCat.Model.Particle
namespace CryoCat.Gen.C01
def anchorsOk : Bool := {"true" if src.ok else "false"}
def motlColumnNames : List String := {core.lean_str_list(cols)}
def readExpectedColumns : Nat := {n20 if n20 is not None else 20}
def writeSelectsCanonical : Bool := {"true" if sel else "false"}
def writeFill : Option Int := {fill_txt}
def writeCastsSingle : Bool := {"true" if cs else "false"}
def motlWriteOutDefault : String := {core.lean_str(wd[0])}
def motlWriteOutLowers : Bool := {"true" if wd[1] else "false"}
def motlWriteOutEmBranch : Bool := {"true" if wd[2] else "false"}
def motlLoadDefault : String := {core.lean_str(ld[0])}
def motlLoadLowers : Bool := {"true" if ld[1] else "false"}
def motlLoadEmBranch : Bool := {"true" if ld[2] else "false"}
end CryoCat.Gen.C01
"""


def _f64(rows):
    """rows of binary64 bit patterns -> float64 array (vectorised: one case may hold 10^5..10^6 cells)"""
    return np.array(rows, dtype=np.uint64).view(np.float64) if rows and rows[0] else np.zeros((len(rows), 0))


def _bits64(a):
    """float64 array -> rows of bit patterns (python ints)"""
    return np.ascontiguousarray(a, dtype=np.float64).view(np.uint64).tolist()


# ------------------------------------------------------------------ independent EM parser
def parse_em(raw):
    """the harness's own reader of the EM byte layout (512-byte header: machine, 2 unused bytes, data-type code, three
    little-endian int32 extents x/y/z; payload little-endian). Only used for the Python-side oracle and for messages; the
    verdict on the bytes themselves comes from the Lean checker `checkFile`."""
    if len(raw) < 512:
        return dict(machine=None, dtype=None, dims=[0, 0, 0], size_ok=False, data=[])
    machine, dtype = raw[0], raw[3]
    nx, ny, nz = struct.unpack("<3i", raw[4:16])
    payload = raw[512:]
    ok = (len(payload) == 4 * nx * ny * nz)
    data = np.frombuffer(payload[: 4 * (len(payload) // 4)], dtype="<u4")
    return dict(machine=machine, dtype=dtype, dims=[nx, ny, nz], size_ok=ok, data=data)


# ------------------------------------------------------------------ generators
F32_MAX = float(np.finfo(np.float32).max)


def _tie(rng):
    """an exact half-ulp tie of float32 (midpoint of two neighbouring float32 numbers), of either sign, over the whole
    exponent range: ordinary magnitudes, tiny normals, subnormals (incl. half of the smallest subnormal) and huge values"""
    k = rng.random()
    if k < 0.5:
        base = np.float32(rng.uniform(1, 1000))
    elif k < 0.65:
        base = np.float32(rng.uniform(1, 2) * 2.0 ** rng.randint(-126, -100))     # tiny normal
    elif k < 0.8:
        base = np.float32(rng.randint(0, 50) * 2.0 ** -149)                        # subnormal grid (0 -> tie between 0 and 2^-149)
    else:
        base = np.float32(rng.uniform(1, 1.9) * 2.0 ** rng.randint(100, 126))     # huge, midpoint stays below float32 max
    nxt = np.nextafter(base, np.float32(np.inf))
    v = (float(base) + float(nxt)) / 2
    return -v if rng.random() < 0.5 else v


def _value(rng):
    k = rng.random()
    if k < 0.28:
        return float(rng.randint(-50, 500))
    if k < 0.50:
        return rng.gauss(0, 100)
    if k < 0.56:
        return round(rng.uniform(-360, 360), rng.choice([1, 2, 3]))   # decimal angles / scores off the dyadic grid
    if k < 0.66:
        return _tie(rng)
    if k < 0.72:
        return rng.choice([1e-40, -3e-42, 1.1754944e-38, 1e-46, -1e-46])  # subnormal / underflow range
    if k < 0.78:
        return rng.choice([3.4e38, -3.3e38, 1e30, F32_MAX, -F32_MAX])
    if k < 0.83:
        return rng.choice([0.0, -0.0])
    if k < 0.93:
        return float("nan")
    return rng.uniform(-1, 1) * 10 ** rng.randint(-6, 6)


def _perm(rng):
    cols = list(DOCUMENTED)
    k = rng.random()
    if k < 0.1:
        return cols
    if k < 0.4:
        i, j = rng.sample(range(20), 2)
        cols[i], cols[j] = cols[j], cols[i]
        return cols
    rng.shuffle(cols)
    return cols


def _duplicate(rng, rows, cols):
    """particle lists legitimately hold repeated rows / repeated ids: the round trip keeps every one of them"""
    N = len(rows)
    kind = rng.choice(["adjacent", "nonadjacent", "all_equal", "id_pairs", "nan_twin"])
    if kind == "adjacent" or (kind == "nonadjacent" and N < 3):
        i = rng.randrange(N - 1)
        rows[i + 1] = list(rows[i]); kind = "adjacent"
    elif kind == "nonadjacent":
        i = rng.randrange(N - 2); j = rng.randrange(i + 2, N)
        rows[j] = list(rows[i])
    elif kind == "all_equal":
        for i in range(1, N):
            rows[i] = list(rows[0])
    elif kind == "id_pairs":                       # same (tomo_id, subtomo_id) on several particles, other fields differ
        ti, si = cols.index("tomo_id"), cols.index("subtomo_id")
        for i in range(N):
            rows[i][ti] = f2b(float(1 + (i % 2))); rows[i][si] = f2b(float(7 + (i // 2) % 2))
    else:                                          # two particles equal, both with holes in the same places
        i = rng.randrange(N - 1)
        rows[i][rng.randrange(20)] = f2b(float("nan"))
        rows[rng.randrange(i + 1, N)] = list(rows[i])
    return kind


FIXED_N = {"quick": [64, 65, 256, 257, 1000], "thorough": [64, 65, 256, 257, 1000, 1024, 4096, 4099], "search": []}


def _one(rng, N, tier):
    cols = _perm(rng)
    rows = [[f2b(_value(rng)) for _ in range(20)] for _ in range(N)]
    if rng.random() < 0.08:                        # a particle with every field missing must come back as 20 zeros
        rows[rng.randrange(N)] = [f2b(float("nan"))] * 20
    if rng.random() < 0.10:                        # tiny non-zero magnitudes (below float32 eps, above its smallest subnormal)
        rows[rng.randrange(N)][rng.randrange(20)] = f2b(rng.choice([3e-8, -7.5e-10, 1e-20, -2.5e-30, 1.2e-7]))
    case = dict(cols=cols, rows=rows, build=rng.choice(["dict", "reindex", "late_nan"]))
    if rng.random() < 0.15:                        # H3: integer-typed columns (ids, class … read from an all-integer text table are int64)
        k = rng.choice([1, 3, 20])
        ints = rng.sample(cols, k)
        for r in rows:
            for c in ints:
                # ids / classes, and now and then integers that float32 cannot hold (2^24+1 is a half-ulp tie)
                r[cols.index(c)] = f2b(float(rng.randint(-3, 300) if rng.random() < 0.9 else rng.choice([16777217, -16777219, 33554435, 2147483647, 123456789])))
        case["int_cols"] = sorted(ints)
    if N >= 2 and rng.random() < 0.18:             # repeated rows / repeated ids (after the integer columns: copies stay copies)
        case["dup"] = _duplicate(rng, rows, cols)
    k = rng.random()                               # row labels of the DataFrame (a list is its rows in order, whatever the labels)
    if k < 0.45 and N >= 2:
        case["index"] = rng.choice(["permuted", "offset", "sparse", "duplicated"])
    # G1/H3: every way the documented API lets a user ask for an EM file and load it again
    case["wtype"] = rng.choice([None, None, "emmotl", "emmotl", "kw:emmotl", "EMMOTL", "EmMotl"])   # None: keyword omitted (default)
    case["load"] = rng.choice(["default", "default", "typed", "kw", "ctor"])
    case["path"] = rng.choice(["str", "str", "pathlib"])
    _r = rng.random()   # G2: the path already holds another list before the write (and was loaded once): "same" = a list of the SAME length
    case["same_path_twice"] = ("same" if _r < 0.1 else True) if _r < 0.2 else False   # (same N = same EM header: a cache keyed by path + header shows only here)
    if N >= 2 and rng.random() < 0.3:              # history: the held list is re-ordered / relabelled between construction and writing
        order = list(range(N))
        kind = rng.choice(["shuffle", "reverse", "sort_values", "rotate"])
        if kind == "shuffle":
            rng.shuffle(order)
        elif kind == "reverse":
            order.reverse()
        elif kind == "rotate":
            order = order[1:] + order[:1]
        else:                                      # m.df.sort_values(<first column>): NaN last, stable
            key = [b2f(r[0]) for r in rows]
            order.sort(key=lambda i: (math.isnan(key[i]), 0.0 if math.isnan(key[i]) else key[i]))
        case["held"] = dict(order=order, how=kind, labels=rng.choice([None, None, "reversed", "constant"]))
    if N >= 2 and rng.random() < 0.25:             # history: load the written file, drop particles, write again
        keep = sorted(rng.sample(range(N), rng.randint(1, N - 1)))
        case["reload_keep"] = keep
    if rng.random() < 0.04 and tier != "fixed":    # malformed header (outside the quantifier; the model's constructor refuses it)
        bad = list(cols)
        if rng.random() < 0.5:
            bad[rng.randrange(20)] = "extra"
        else:
            bad = bad[:-1]
            case["rows"] = [r[:-1] for r in rows]
        case["cols"] = bad
        case["malformed"] = True
        case.pop("int_cols", None)
    return case


BIG_N = {"quick": [(32769, 40000)], "thorough": [(32769, 40000), (65537, 66000)], "search": [(32769, 34000)]}


def _big(rng, N):
    """a list longer than any plausible conversion block (N > 2^15, in thorough also > 2^16): rows cycle through a small
    pool of ordinary random rows and every particle is stamped with its own subtomo_id (= position + 1, exact in
    float32), so a repeated, lost or shifted particle shows in the file's extents, in the cell that carries the stamp
    and in the loaded table. Plain options (one round trip per path) keep the case cheap."""
    cols = _perm(rng)
    pool = [[f2b(_value(rng)) for _ in range(20)] for _ in range(61)]
    si = cols.index("subtomo_id")
    rows = []
    for i in range(N):
        r = list(pool[i % 61]); r[si] = f2b(float(i + 1)); rows.append(r)
    return dict(cols=cols, rows=rows, build="dict", wtype=rng.choice([None, "emmotl"]), load="default", path="str", same_path_twice=False, big=True)


def generate(rng, tier, n):
    maxn = {"quick": 40, "thorough": 2000, "search": 12}[tier]
    if tier == "thorough":  # every transposition of two columns
        for i in range(20):
            for j in range(i + 1, 20):
                cols = list(DOCUMENTED); cols[i], cols[j] = cols[j], cols[i]
                yield dict(cols=cols, rows=[[f2b(float(c + 1)) for c in range(20)], [f2b(_value(rng)) for _ in range(20)]], build="dict")
    for N in FIXED_N[tier]:                            # counts around powers of two / block sizes and one large list, always present
        yield _one(rng, N, "fixed")
    for lo, hi in BIG_N[tier]:                        # one list beyond 2^15 particles (block-wise writers/readers), always present
        yield _big(rng, rng.randint(lo, hi))
    if tier in ("quick", "thorough"):                 # the smallest repeated list: N = 2, both particles identical
        two = _one(rng, 2, "fixed"); two["rows"][1] = list(two["rows"][0]); two["dup"] = "two_identical"
        two.pop("reload_keep", None)
        yield two
    for t in range(n):
        N = 1 if rng.random() < 0.05 else (rng.randint(1, maxn) if rng.random() < 0.15 else rng.randint(1, min(maxn, 40)))
        if rng.random() < 0.06:
            N = 20                                     # the one N at which particle and field axes look alike
        yield _one(rng, N, tier)


def shrink(case):
    if case.get("malformed"):
        return
    rows = case["rows"]
    if len(rows) > 5000:
        # a large list fails for its length (every evaluation costs seconds): only shorter prefixes are tried, from the
        # shortest up, so the replay ends just above the length at which the failure starts
        n = len(rows)
        for m_ in (1, 2, 64, n // 2, 3 * n // 4, 7 * n // 8, 15 * n // 16, 63 * n // 64, 255 * n // 256):
            if 0 < m_ < n:
                c = dict(case, rows=rows[:m_]); c.pop("reload_keep", None)
                yield c
        return
    base = {k: v for k, v in case.items() if k != "reload_keep"} if case.get("reload_keep") else case
    if len(rows) > 1:
        n = len(rows)
        for lo, hi in ((0, 1), (0, 2), (0, n // 2), (n // 2, n), (0, n - 1)):
            if 0 < hi - lo < n:
                c = dict(base, rows=rows[lo:hi])
                if case.get("held"):      # the re-ordering restricted to the particles that are left
                    c["held"] = dict(case["held"], order=[i - lo for i in case["held"]["order"] if lo <= i < hi])
                if case.get("reload_keep") and lo == 0:
                    keep = [i for i in case["reload_keep"] if i < hi]
                    if keep and len(keep) < hi:
                        c["reload_keep"] = keep
                yield c
    # small distinct integers (keeping which rows are copies of which, so that a failure about repeated rows survives)
    first = {}
    simple = []
    for i, r in enumerate(rows):
        j = first.setdefault(tuple(r), i)
        simple.append([f2b(float(100 * j + k + 1)) for k in range(len(r))])
    if rows != simple:
        yield dict(case, rows=simple)
    # plain options one at a time
    for k, plain in (("held", None), ("index", None), ("int_cols", None), ("wtype", "emmotl"), ("load", "default"), ("path", "str"), ("same_path_twice", False), ("build", "dict")):
        if case.get(k) not in (plain, None) or (k in case and case[k] is None and plain is not None):
            c = dict(case); c.pop(k, None)
            if plain is not None:
                c[k] = plain
            yield c
    # undo displaced columns one at a time
    cols = case["cols"]
    for i, c in enumerate(cols):
        if c != DOCUMENTED[i]:
            j = cols.index(DOCUMENTED[i])
            new = list(cols); new[i], new[j] = new[j], new[i]
            newrows = [list(r) for r in rows]
            for r in newrows:
                r[i], r[j] = r[j], r[i]
            if new != cols and new != DOCUMENTED:
                yield dict(case, cols=new, rows=newrows)


# ------------------------------------------------------------------ implementation
def _in_cryocat(e):
    import traceback
    return any("/cryocat/" in fr.filename for fr in traceback.extract_tb(e.__traceback__))


def run_impl(case):
    import pandas as pd, pathlib
    from cryocat import cryomotl
    cols, rows = case["cols"], case["rows"]
    malformed = bool(case.get("malformed"))
    vals = _f64(rows).tolist()
    if case.get("build") == "reindex" and not malformed:
        base = pd.DataFrame({c: [v[cols.index(c)] for v in vals] for c in DOCUMENTED}, dtype=float)
        df = base[cols]
    else:
        df = pd.DataFrame({c: [v[i] for v in vals] for i, c in enumerate(cols)}, dtype=float)
    for c in case.get("int_cols") or []:
        col = df[c]
        if not col.isna().any() and (col == col.round()).all():
            df[c] = col.astype("int64")
    n = len(df)
    ik = case.get("index")
    if ik == "permuted":
        df.index = [(7 * i + 3) % n if math.gcd(7, n) == 1 else (n - 1 - i) for i in range(n)]
    elif ik == "offset":
        df.index = [i + 5 for i in range(n)]
    elif ik == "sparse":
        df.index = [3 * (n - i) for i in range(n)]
    elif ik == "duplicated":
        df.index = [i // 2 for i in range(n)]
    out = {}
    late = case.get("build") == "late_nan" and not malformed
    wtype = case.get("wtype", "emmotl" if not case.get("default_type") else None)
    load_kind = case.get("load", "default")

    def write_motl(m, p):
        if wtype is None:
            m.write_out(p)                       # documented default of motl_type
        elif wtype.startswith("kw:"):
            m.write_out(p, motl_type=wtype[3:])
        else:
            m.write_out(p, wtype)                # 'emmotl' / 'EMMOTL' / 'EmMotl' (the type is matched case-insensitively)

    def load(p):
        q = pathlib.Path(p) if case.get("path") == "pathlib" else p     # loading documents str and Path
        if load_kind == "typed":
            return cryomotl.Motl.load(q, "emmotl")
        if load_kind == "kw":
            return cryomotl.Motl.load(q, motl_type="emmotl")
        if load_kind == "ctor":
            return cryomotl.EmMotl(q)
        return cryomotl.Motl.load(q)

    with tempfile.TemporaryDirectory(prefix="c01_") as td:
        for path_kind in ("motl", "emmotl"):
            p = os.path.join(td, f"{path_kind}.em")
            cls = cryomotl.Motl if path_kind == "motl" else cryomotl.EmMotl
            if case.get("same_path_twice") and not malformed:
                # the same path first receives a different list - longer, or of the same length - and is loaded once: state must not carry over
                other = pd.DataFrame({c: np.arange(len(df) + (0 if case.get("same_path_twice") == "same" else 3), dtype=float) + k for k, c in enumerate(DOCUMENTED)})
                cryomotl.EmMotl(other).write_out(p)
                cryomotl.Motl.load(p)
            stage = "construct"
            try:
                if late:
                    # holes appear AFTER construction (the constructor's own fillna cannot help the writer)
                    mm = cls(df.fillna(1.0))
                    if sorted(map(str, mm.df.columns)) != sorted(map(str, df.columns)) or len(mm.df) != len(df):
                        out[path_kind] = {"dropped": "constructor changed the table's shape; holes cannot be re-installed"}
                        continue
                    kept = list(mm.df.columns)       # by column NAME: the constructor may keep any column order
                    mask = df.isna()[kept].to_numpy()
                    mm.df = pd.DataFrame(np.where(mask, np.nan, mm.df.to_numpy(dtype=float)), columns=kept, index=mm.df.index)
                else:
                    mm = cls(df.copy())
                h = case.get("held")
                if h and not malformed:
                    # the user re-orders the held list between construction and writing (labels travel with the rows, so
                    # they are no longer 0..n-1 in order), and possibly relabels it
                    mm.df = mm.df.iloc[h["order"]]
                    if h.get("labels") == "reversed":
                        mm.df.index = list(range(len(mm.df) - 1, -1, -1))
                    elif h.get("labels") == "constant":
                        mm.df.index = [0] * len(mm.df)
                stage = "write"
                if path_kind == "motl":
                    write_motl(mm, p)
                else:
                    mm.write_out(p)
            except Exception as e:
                if malformed and _in_cryocat(e):
                    # H1: a refusal is a refusal whatever exception type / message the library chooses
                    out[path_kind] = {"reject": type(e).__name__, "stage": stage}
                    continue
                if malformed:
                    out[path_kind] = {"library_raised": f"{type(e).__name__}: {str(e)[:200]}", "stage": stage}
                    continue
                raise
            em = {"hex": open(p, "rb").read().hex()}     # the file itself; judged on bytes by the Lean checker
            m = load(p)
            em["loaded_cols"] = [str(c) for c in m.df.columns]
            # the particles are read BY FIELD NAME (the statement fixes no column order for the loaded table)
            by_name = sorted(em["loaded_cols"]) == sorted(DOCUMENTED)
            em["loaded"] = _bits64((m.df[DOCUMENTED] if by_name else m.df).to_numpy(dtype=float))
            em["loaded_type"] = type(m).__name__
            em["loaded_dtypes"] = sorted({str(t) for t in m.df.dtypes})
            if case.get("reload_keep") and path_kind == "emmotl" and len(m.df) == len(rows):   # (a wrong particle count is already a finding)
                keep = case["reload_keep"]
                ids = [i for i in range(len(m.df)) if i not in keep]
                m.df = m.df.drop(index=m.df.index[ids]).reset_index(drop=True) if rng_free_choice(case) else m.df.iloc[keep]
                p2 = os.path.join(td, "again.em")
                m.write_out(p2)
                m2 = cryomotl.Motl.load(p2)
                em["reload"] = dict(hex=open(p2, "rb").read().hex(), loaded=_bits64((m2.df[DOCUMENTED] if sorted(map(str, m2.df.columns)) == sorted(DOCUMENTED) else m2.df).to_numpy(dtype=float)))
            out[path_kind] = em
    return out


def rng_free_choice(case):
    """deterministic per case: alternate between dropping rows with a reset index and keeping a sparse index"""
    return (len(case["rows"]) + len(case.get("reload_keep", []))) % 2 == 0


def _held(case):
    """the particle list as HELD when it is written: the constructed list, re-ordered by the user in between when the case
    says so (`held.order`: m.df = m.df.iloc[order], what sort_values / sample / a boolean mask + concat leave behind) —
    "the same particles in the same order" is about this list"""
    h = case.get("held")
    return [case["rows"][i] for i in h["order"]] if h and not case.get("malformed") else case["rows"]


def requests(case, obs):
    """one `roundtrip` request per table: the model's file (bytes), the model's loaded table, and the verdict of the Lean
    checker `checkFile` on the bytes of every REAL file handed over; the load/drop/write-again file is judged against the
    table of the kept particles"""
    if case.get("malformed"):
        return [dict(op="accepts", cols=case["cols"])]
    files = {k: o["hex"] for k, o in obs.items() if isinstance(o, dict) and "hex" in o} if "error" not in obs else {}
    held = _held(case)
    reqs = [dict(op="roundtrip", cols=case["cols"], rows=held, files=files)]
    wt = case.get("wtype", "emmotl" if not case.get("default_type") else None)
    if wt is not None:                                   # absent key = the keyword was omitted in the real call
        reqs[0]["wtype"] = wt[3:] if wt.startswith("kw:") else wt
    if case.get("load", "default") in ("typed", "kw"):
        reqs[0]["ltype"] = "emmotl"
    for k, o in (obs.items() if "error" not in obs else []):
        if isinstance(o, dict) and "reload" in o:
            reqs.append(dict(op="roundtrip", cols=case["cols"], rows=[held[i] for i in case["reload_keep"]], files={"reload": o["reload"]["hex"]}))
    return reqs


def _expected(case):
    """the property, evaluated independently of model and implementation: per particle the 20 NAMED fields in the
    documented order, missing -> 0, everything else -> its single-precision rounding (float32 bit patterns)"""
    cols, rows = case["cols"], _held(case)
    a = _f64(rows)[:, [cols.index(f) for f in DOCUMENTED]]     # by NAME: the column of the table that carries field f
    a = np.where(np.isnan(a), 0.0, a)
    with np.errstate(over="ignore", under="ignore"):
        return np.ascontiguousarray(a.astype(np.float32)).reshape(-1).view(np.uint32)


def _same32(a, b):
    """lists of float32 bit patterns equal AS NUMBERS: the statement asks for values "equal to" the single-precision
    rounding, and -0.0 == +0.0; every other value (NaN included: missing reads back as 0) must match bit for bit.
    Returns the first differing index or None."""
    if len(a) != len(b):
        return min(len(a), len(b))
    x, y = np.asarray(a, dtype=np.uint64), np.asarray(b, dtype=np.uint64)
    bad = (x != y) & ~(((x & 0x7FFFFFFF) == 0) & ((y & 0x7FFFFFFF) == 0))
    idx = np.flatnonzero(bad)
    return int(idx[0]) if len(idx) else None


def _same64(a, b):
    """the same for float64 bit patterns (rows of the loaded table)"""
    if [len(r) for r in a] != [len(r) for r in b]:
        return 0
    if a == b:
        return None
    x, y = np.array(a, dtype=np.uint64).reshape(-1), np.array(b, dtype=np.uint64).reshape(-1)
    m = np.uint64(0x7FFFFFFFFFFFFFFF)
    bad = (x != y) & ~(((x & m) == 0) & ((y & m) == 0))
    idx = np.flatnonzero(bad)
    return int(idx[0]) if len(idx) else None


def _widen(bits32):
    w = np.asarray(bits32, dtype=np.uint32)
    return _bits64(w[: 20 * (len(w) // 20)].view(np.float32).astype(np.float64).reshape(-1, 20))


def _file_findings(k, raw, exp, n, verdict, model_file, clause_shape, clause_value):
    """findings about one real file: the Lean checker's verdict on its bytes (spec), the Python oracle on the same
    bytes (spec, independent of model and implementation), and the byte comparison with the model's file (corr)"""
    out = []
    em = parse_em(raw)
    v = (verdict or {}).get("verdict")
    py = None
    if em["dims"] != [20, n, 1] or em["dtype"] != 5 or em["machine"] != 6 or not em["size_ok"]:
        py = (clause_shape, f"{k}: dims={em['dims']} (20 x {n} x 1 expected) dtype={em['dtype']} machine={em['machine']} payload-size-ok={em['size_ok']}")
    else:
        i = _same32(em["data"], exp)
        if i is not None:
            py = (clause_value, f"{k}: particle {i//20} field {DOCUMENTED[i%20]}: file holds bits {int(em['data'][i]):#x}, property demands {int(exp[i]):#x}")
    if v is None:
        out.append(dict(kind="corr", clause="no-verdict", detail=f"{k}: the driver returned no verdict for this file: {verdict}"))
        if py:
            out.append(dict(kind="spec", clause=py[0], detail=py[1] + " [Python oracle]"))
    elif v != "ok":
        if v == "value":
            i = verdict["index"]
            d = f"{k}: particle {i//20} field {DOCUMENTED[i%20]}: file holds bits {verdict['have']:#x}, property demands {verdict['want']:#x}"
            out.append(dict(kind="spec", clause=clause_value, detail=d + " [Lean checkFile on the file's bytes]"))
        else:
            d = f"{k}: not a valid float32 EM volume of extents 20 x {n} x 1: {verdict}" + (f"; {py[1]}" if py else "")
            out.append(dict(kind="spec", clause=clause_shape, detail=d + " [Lean checkFile on the file's bytes]"))
        if py is None:
            out.append(dict(kind="corr", clause="checker-vs-oracle", detail=f"{k}: Lean verdict {verdict} but the Python oracle accepts the file"))
    elif py is not None:
        out.append(dict(kind="spec", clause=py[0], detail=py[1] + " [Python oracle]"))
        out.append(dict(kind="corr", clause="checker-vs-oracle", detail=f"{k}: the Python oracle rejects a file the Lean checker accepts"))
    if model_file is not None:
        mraw = bytes.fromhex(model_file["hex"])
        if mraw[:512] != raw[:512]:
            j = next((j for j in range(min(512, len(raw))) if mraw[j] != raw[j]), min(512, len(raw)))
            out.append(dict(kind="corr", clause="file-vs-model", detail=f"{k}: header byte {j} differs from the model's encodeEm ({raw[j:j+1].hex()} vs {mraw[j:j+1].hex()})"))
        elif len(mraw) != len(raw) or _same32(np.frombuffer(mraw[512:], dtype="<u4"), em["data"]) is not None:
            out.append(dict(kind="corr", clause="file-vs-model", detail=f"{k}: payload differs from the model's encodeEm(writeGen)"))
    return out


def judge(case, obs, resps):
    out = []
    if "error" in obs:
        if not obs.get("where"):   # G4: no frame inside cryocat/
            return [dict(kind="corr", clause="harness-or-library-raised", detail=obs["error"])]
        return [dict(kind="spec", clause="raises", detail=obs["error"] + " @" + obs.get("where", ""))]
    if case.get("malformed"):
        # outside the quantifier of the property (the table does not hold exactly the 20 fields): the model's constructor
        # refuses it; an implementation that does not is a model/implementation difference, not a violated clause
        model_accepts = bool(resps and resps[0].get("accepted"))
        for k, o in obs.items():
            if "library_raised" in o:
                out.append(dict(kind="corr", clause="harness-or-library-raised", detail=f"{k}: {o['library_raised']} during {o['stage']}"))
            elif "reject" not in o and not model_accepts:
                out.append(dict(kind="corr", clause="accepts-malformed-header", detail=f"{k}: header {case['cols']} accepted, the model's constructor refuses it"))
            elif "reject" in o and o.get("stage") != "construct" and not model_accepts:
                out.append(dict(kind="corr", clause="malformed-header-refused-late", detail=f"{k}: header {case['cols']} passed the constructor and failed in write_out with {o['reject']}"))
        return out
    exp = _expected(case)
    N = len(case["rows"])
    model = resps[0]
    model_ok = "error" not in model
    if not model_ok:
        out.append(dict(kind="corr", clause="model-rejects", detail=str(model)))
    elif model.get("dispatch") != {"write": True, "load": True}:
        out.append(dict(kind="corr", clause="dispatch-vs-model", detail=f"the model's Motl.write_out / Motl.load do not reach the EM writer / reader "
                        f"for motl_type {case.get('wtype')!r} / load {case.get('load')!r}: {model.get('dispatch')}"))
    for k, o in obs.items():
        if "dropped" in o:
            continue
        raw = bytes.fromhex(o["hex"])
        out += _file_findings(k, raw, exp, N, model.get("verdicts", {}).get(k) if model_ok else None, model["file"] if model_ok else None,
                              "file-shape", "file-field-order-or-value")
        if o.get("loaded_dtypes") not in (["float64"], ["float32"]):
            # the statement is silent about the dtype of the loaded table (its values are compared as numbers below)
            out.append(dict(kind="corr", clause="loaded-dtypes", detail=f"{k}: loaded table has column dtypes {o.get('loaded_dtypes')}, the model's reader gives float64"))
        if "reload" in o:
            keep = case["reload_keep"]
            exp2 = exp.reshape(-1, 20)[keep].reshape(-1)
            r2 = o["reload"]
            m2 = resps[1] if len(resps) > 1 and "error" not in resps[1] else None
            f2 = _file_findings(k + "/after load, drop particles, write again", bytes.fromhex(r2["hex"]), exp2, len(keep),
                                m2["verdicts"].get("reload") if m2 else None, m2["file"] if m2 else None, "reload-file-shape", "reload-values")
            out += f2
            if not f2 and _same64(r2["loaded"], _widen(exp2)) is not None:
                out.append(dict(kind="spec", clause="reload-values", detail=f"{k}: second load differs from the kept particles"))
        if o["loaded_cols"] != DOCUMENTED:
            if sorted(o["loaded_cols"]) != sorted(DOCUMENTED):    # a named field is missing / an unknown one appears
                out.append(dict(kind="spec", clause="loaded-header", detail=f"{k}: loaded table has fields {o['loaded_cols']}"))
            else:                                                 # all 20 fields there, in another column order: the statement fixes none
                out.append(dict(kind="corr", clause="loaded-column-order", detail=f"{k}: {o['loaded_cols']} (the model's reader names them in the documented order)"))
        if o.get("loaded_type") != "EmMotl":
            out.append(dict(kind="corr", clause="loaded-type", detail=f"{k}: loading returned a {o.get('loaded_type')}, the model's dispatcher an EmMotl"))
        if len(o["loaded"]) != N:
            out.append(dict(kind="spec", clause="loaded-values", detail=f"{k}: {len(o['loaded'])} particles loaded, {N} written"))
        elif _same64(o["loaded"], _widen(exp)) is not None:
            i = _same64(o["loaded"], _widen(exp))
            out.append(dict(kind="spec", clause="loaded-values", detail=f"{k}: loaded table differs from float32-rounded named fields (particle {i//20} field {DOCUMENTED[i%20]})"))
        # correspondence of the loaded table with the Lean model (same defs as the theorems)
        if model_ok:
            mt = model["table"]
            if "error" in mt or mt["cols"] != o["loaded_cols"] or _same64(mt["rows"], o["loaded"]) is not None:
                out.append(dict(kind="corr", clause="load-vs-model", detail=f"{k}: loaded table differs from readEm(writeGen)"))
    return out


def probes(rng):
    """facts about the driver's number operations that no kernel-checked lemma can state (Lean's Float is opaque):
    the fill value `floatOps.bits32 (floatOps.ofInt 0)` IS the float32 +0.0, `ofInt 0` is +0.0, NaN is recognised"""
    try:
        r = core.run_driver([dict(prop=PROP, op="zero_bits")])[0]
        ok = r == {"bits32": 0, "bits64": 0, "nan_is_nan": True, "zero_is_nan": False}
        return [dict(name="float-zero-bits", ok=ok, detail="" if ok else f"driver floatOps: {r}")]
    except Exception as e:
        return [dict(name="float-zero-bits", ok=False, detail=f"{type(e).__name__}: {e}")]


def nontrivial(case, obs):
    if case.get("malformed") or len(case["rows"]) < 2 or case["cols"] == DOCUMENTED:
        return False
    vals = _f64(case["rows"])
    nan = np.isnan(vals)
    with np.errstate(over="ignore", under="ignore", invalid="ignore"):
        inexact = bool(((vals.astype(np.float32).astype(np.float64) != vals) & ~nan).any())
    return bool(nan.any()) and inexact


def stats(case, obs, resps):
    n = len(case["rows"])
    perm = "malformed" if case.get("malformed") else ("identity" if case["cols"] == DOCUMENTED else
            ("transposition" if sum(a != b for a, b in zip(case["cols"], DOCUMENTED)) == 2 else "shuffle"))
    nb = "1" if n == 1 else ("20" if n == 20 else ("2-10" if n <= 10 else ("11-40" if n <= 40 else ("41-999" if n < 1000 else ("1000-4095" if n < 4096 else ("4096-32768" if n <= 32768 else ">32768"))))))
    return {"N": nb, "perm": perm, "build": case.get("build", "dict"),
            "history": "load-drop-write" if case.get("reload_keep") else "single round trip",
            "held_list": (case["held"].get("how", "given") + "/labels:" + str(case["held"].get("labels"))) if case.get("held") else "as constructed",
            "row_index": case.get("index", "default"), "write_type": str(case.get("wtype", "emmotl")), "load_call": case.get("load", "default"),
            "load_path": case.get("path", "str"), "path_reused": bool(case.get("same_path_twice")),
            "repeated_rows": case.get("dup", "none"), "int64_columns": len(case.get("int_cols") or []),
            "late_nan_dropped": sum(1 for o in obs.values() if isinstance(o, dict) and "dropped" in o) if isinstance(obs, dict) else 0,
            "reject_type": [o["reject"] for o in obs.values() if isinstance(o, dict) and "reject" in o] if isinstance(obs, dict) else [],
            "all_nan_row": bool(np.isnan(_f64(case["rows"])).all(axis=1).any()), "beyond_2^15_particles": n > 32768}


def sample_view(case):
    return dict(cols=case["cols"], n_rows=len(case["rows"]), first_row=[b2f(b) for b in case["rows"][0]], build=case.get("build"), malformed=case.get("malformed", False),
                **{k: case[k] for k in ("dup", "int_cols", "index", "wtype", "load", "path") if case.get(k) is not None},
                **({"held": {k: v for k, v in case["held"].items() if k != "order"}} if case.get("held") else {}))

LEVEL_TEXT = ("Lean 4 theorems about an executable model of EmMotl.write_out/read_in and of the EM byte layout, for every column order, every N>=1 "
              "and all cell values (em_roundtrip, em_roundtrip_named, em_roundtrip_gen, em_roundtrip_bytes, decodeEm_encodeEm, checkFile_ok_iff, "
              "em_file_bytes_valid, em_write_same_named, em_layout, em_offset, accepted_iff, em_field_order); the model's writer is a function of "
              "facts regenerated from the source (Motl.motl_columns, the 20 in read_in, by-name selection, fill literal, single-precision cast) and "
              "the bytes of every real file are judged by the verified Lean checker and compared with the model's bytes")
LEVEL_NOTE = ("trusted: Lean kernel; translator anchors; hex transport of file bytes; numpy float32 cast = Float.toFloat32 (compared bit-exactly each run); "
              "emfile's header layout is modelled (compared byte for byte each run), its reader is not modelled (Motl.load is compared with readEm of the model's file)")
TECHNIQUE = "Lean 4 proof (list induction, by-name lookup under permutation, byte-level encode/decode) + regenerated facts + verified checker on the real file's bytes + bit-exact differential correspondence"
DESIGN_REF = "DESIGN.md section 4, C01"
