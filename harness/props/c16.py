"""C16 — dose filtering applies the Grant-Grigorieff exposure attenuation (DESIGN.md section 4, C16)."""
import os, ast, math, tempfile
from fractions import Fraction
import numpy as np
import core
from core import f2b, b2f

PROP = "C16"
COUNT = {"quick": 150, "thorough": 3000, "search": 500}
PARALLEL = True

# ------------------------------------------------------------------ translator
REL = "cryocat/tiltstack.py"
# documented skeletons, used only as fall-back text when an anchor is missing (Props/C16 states them again)
DOC = dict(
    qExpr="np.exp(-dose/(2*(a*freq_array**b+c)))",
    ftExpr="np.fft.fftshift(np.fft.fft2(image))",
    outExpr="np.fft.ifft2(np.fft.ifftshift(ft*q))",
    retExpr="filtered_image.real",
    cenX="ts.width//2", cenY="ts.height//2",
    rstepX="1/(ts.width*pixel_size)", rstepY="1/(ts.height*pixel_size)",
    freqExpr="np.sqrt((x-cen_x)**2*rstep_x**2+(y-cen_y)**2*rstep_y**2)",
    freqStore="frequency_array[y,x]=d",
    loopRangeX="range(ts.width)", loopRangeY="range(ts.height)", loopRangeZ="range(ts.n_tilts)",
    imageExpr="ts.data[z,:,:]",
    pairExpr="ts.data[z,:,:]=dose_filter_single_image(image,total_dose[z],frequency_array)",
    doseLoad="ioutils.total_dose_load(total_dose)",
    pixelCast="float(pixel_size)",
    returnExpr="ts.correct_order()",
)


def _assign_value(fn, target):
    """value node of the (single) top-level-or-nested assignment `target = ...` inside fn"""
    hits = []
    for n in ast.walk(fn):
        if isinstance(n, ast.Assign) and len(n.targets) == 1 and core.norm_expr(n.targets[0]) == target:
            hits.append(n.value)
    if len(hits) != 1:
        raise core.AnchorMissing(f"{fn.name}: expected exactly one assignment to {target}, found {len(hits)}")
    return hits[0]


def _const(fn, name):
    v = _assign_value(fn, name)
    txt = ast.unparse(v).replace(" ", "")
    try:
        val = ast.literal_eval(v)
    except Exception:
        raise core.AnchorMissing(f"{fn.name}: {name} is not a numeric literal: {txt}")
    if isinstance(val, bool) or not isinstance(val, (int, float)):
        raise core.AnchorMissing(f"{fn.name}: {name} is not a numeric literal: {txt}")
    fr = Fraction(txt)  # exact decimal value of the literal as written in the source
    if float(fr) != float(val):
        raise core.AnchorMissing(f"{fn.name}: {name} literal {txt} not a plain decimal")
    return [fr.numerator, fr.denominator]


def _for_loops(fn):
    return [n for n in ast.walk(fn) if isinstance(n, ast.For)]


def translate(src):
    single = src.anchor("dose_filter_single_image", lambda: src.find(REL, "dose_filter_single_image").name)
    stack = src.anchor("dose_filter", lambda: src.find(REL, "dose_filter").name)
    vals = {}

    def in_single(f):
        return lambda: f(src.find(REL, "dose_filter_single_image"))

    def in_stack(f):
        return lambda: f(src.find(REL, "dose_filter"))

    a = src.anchor("dose_filter_single_image:a", in_single(lambda fn: _const(fn, "a")))
    b = src.anchor("dose_filter_single_image:b", in_single(lambda fn: _const(fn, "b")))
    c = src.anchor("dose_filter_single_image:c", in_single(lambda fn: _const(fn, "c")))
    vals["qExpr"] = src.anchor("dose_filter_single_image:q", in_single(lambda fn: core.norm_expr(_assign_value(fn, "q"))))
    vals["ftExpr"] = src.anchor("dose_filter_single_image:ft", in_single(lambda fn: core.norm_expr(_assign_value(fn, "ft"))))
    vals["outExpr"] = src.anchor("dose_filter_single_image:filtered_image", in_single(lambda fn: core.norm_expr(_assign_value(fn, "filtered_image"))))

    def ret(fn):
        r = [n for n in ast.walk(fn) if isinstance(n, ast.Return)]
        if len(r) != 1 or r[0].value is None:
            raise core.AnchorMissing(f"{fn.name}: expected one return")
        return core.norm_expr(r[0].value)

    vals["retExpr"] = src.anchor("dose_filter_single_image:return", in_single(ret))
    vals["cenX"] = src.anchor("dose_filter:cen_x", in_stack(lambda fn: core.norm_expr(_assign_value(fn, "cen_x"))))
    vals["cenY"] = src.anchor("dose_filter:cen_y", in_stack(lambda fn: core.norm_expr(_assign_value(fn, "cen_y"))))
    vals["rstepX"] = src.anchor("dose_filter:rstep_x", in_stack(lambda fn: core.norm_expr(_assign_value(fn, "rstep_x"))))
    vals["rstepY"] = src.anchor("dose_filter:rstep_y", in_stack(lambda fn: core.norm_expr(_assign_value(fn, "rstep_y"))))
    vals["freqExpr"] = src.anchor("dose_filter:d", in_stack(lambda fn: core.norm_expr(_assign_value(fn, "d"))))

    def store(fn):
        hits = [n for n in ast.walk(fn) if isinstance(n, ast.Assign) and isinstance(n.targets[0], ast.Subscript)
                and core.norm_expr(n.targets[0]).startswith("frequency_array[")]
        if len(hits) != 1:
            raise core.AnchorMissing("dose_filter: frequency_array[..] = .. store")
        return core.norm_expr(hits[0].targets[0]) + "=" + core.norm_expr(hits[0].value)

    vals["freqStore"] = src.anchor("dose_filter:frequency_array-store", in_stack(store))

    def loop_range(var):
        def f(fn):
            hits = [n for n in _for_loops(fn) if core.norm_expr(n.target) == var]
            if len(hits) != 1:
                raise core.AnchorMissing(f"dose_filter: for {var} in ...")
            return core.norm_expr(hits[0].iter)
        return f

    vals["loopRangeX"] = src.anchor("dose_filter:for-x", in_stack(loop_range("x")))
    vals["loopRangeY"] = src.anchor("dose_filter:for-y", in_stack(loop_range("y")))
    vals["loopRangeZ"] = src.anchor("dose_filter:for-z", in_stack(loop_range("z")))
    vals["imageExpr"] = src.anchor("dose_filter:image", in_stack(lambda fn: core.norm_expr(_assign_value(fn, "image"))))

    def pair(fn):
        hits = [n for n in ast.walk(fn) if isinstance(n, ast.Assign) and "dose_filter_single_image" in ast.unparse(n.value)]
        if len(hits) != 1:
            raise core.AnchorMissing("dose_filter: call of dose_filter_single_image")
        return core.norm_expr(hits[0].targets[0]) + "=" + core.norm_expr(hits[0].value)

    vals["pairExpr"] = src.anchor("dose_filter:per-tilt-pairing", in_stack(pair))
    vals["doseLoad"] = src.anchor("dose_filter:total_dose", in_stack(lambda fn: core.norm_expr(_assign_value(fn, "total_dose"))))
    vals["pixelCast"] = src.anchor("dose_filter:pixel_size", in_stack(lambda fn: core.norm_expr(_assign_value(fn, "pixel_size"))))
    vals["returnExpr"] = src.anchor("dose_filter:return", in_stack(ret))

    def dose_passthrough():
        fn = src.find("cryocat/ioutils.py", "total_dose_load")
        first = fn.body[1] if isinstance(fn.body[0], ast.Expr) else fn.body[0]
        if not isinstance(first, ast.If):
            raise core.AnchorMissing("total_dose_load: leading isinstance chain")
        t = core.norm_expr(first.test) + "->" + core.norm_expr(first.body[0].value)
        nxt = first.orelse[0]
        t += ";" + core.norm_expr(nxt.test) + "->" + core.norm_expr(nxt.body[0].value)
        return t

    dl = src.anchor("ioutils.total_dose_load:array-passthrough", dose_passthrough)

    def frac(v, d):
        v = v if v is not None else d
        return f"({v[0]}, {v[1]})"

    lines = [f"-- GENERATED by harness/props/c16.py from {REL} and cryocat/ioutils.py; do not edit",
             "namespace CryoCat.Gen.C16",
             f"def anchorsOk : Bool := {'true' if src.ok else 'false'}",
             "/-- the literals `a`, `b`, `c` of `dose_filter_single_image` as exact decimal fractions (numerator, denominator) -/",
             f"def ggA : Int × Int := {frac(a, [0, 1])}",
             f"def ggB : Int × Int := {frac(b, [0, 1])}",
             f"def ggC : Int × Int := {frac(c, [0, 1])}"]
    for k in DOC:
        v = vals.get(k)
        lines.append(f"def {k} : String := {core.lean_str(v if isinstance(v, str) else '<missing>')}")
    lines.append(f"def doseLoadPassthrough : String := {core.lean_str(dl if isinstance(dl, str) else '<missing>')}")
    lines.append("end CryoCat.Gen.C16")
    return "\n".join(lines) + "\n"


# ------------------------------------------------------------------ documentation constants
RULE = ("stacks of 1..10 images, width and height drawn independently from 4..64 (even and odd; half of the draws from 4..12, "
        "30% from 4..24, 20% from 4..64), pixel size 0.5..10 A (uniform, typical values, and the end points), per-image doses on the "
        "1/8 grid in 0..300 e/A^2 in random order (0 and 300 forced in often), images: random (integers/8 + offset), pure plane waves at a "
        "chosen integer frequency incl. Nyquist and DC offset, impulses, constants; float64 (80%) and float32 stacks; doses passed as "
        "list / float64 ndarray / float32 ndarray / one-value-per-line text file; xyz and zyx array orders; entry points dose_filter (85%) "
        "and dose_filter_single_image (15%, with a harness-built fftshifted |fftfreq| array). Modes: plain, linear (third image = "
        "alpha*first + beta*second, equal doses), monotone (one image, several doses), compose (filter d1 then d2 vs once d1+d2), and a 3% "
        "malformed stream (dose list shorter than the stack -> must raise). The 2-D DFT (numpy) of every output image is compared at EVERY "
        "frequency with gain * DFT(input): gain from the Lean driver executing Model/C16 `doseFilter` at Float, and independently from the "
        "formula of the statement. non-trivial = valid case with >= 2 images, >= 2 distinct doses, some gain < 0.99; distinct = distinct case content")
ASSUMPTIONS = [
    "numpy.fft.fft2/ifft2 are linear and mutually inverse, fftshift/ifftshift rotate indices by floor(n/2)/ceil(n/2) (probed on every run: probes fft-roundtrip, fftshift-index)",
    "a Hermitian-even real multiplier applied to the DFT of a real image gives a real image, so taking `.real` drops rounding noise only (probe even-multiplier-real; hypothesis `IsDFT.even_mult` of the image-level theorems)",
    "IEEE float64 arithmetic of numpy ~ exact real arithmetic: the gain measured from the real code is compared with the model at Float with relative tolerance 1e-9 (+1e-12 absolute) on float64 stacks, 1e-4 on float32 stacks; the largest deviation seen is recorded in the evidence histograms",
    "numpy `0.0 ** -1.665 = inf`, `exp(-d/inf) = 1`: the zero-frequency gain is exactly 1 (the driver evaluates the branch-free source expression at Float next to the model's case split and both are compared: clause qliteral-vs-model)",
    "Lean `Float.exp/pow/sqrt` (C libm) agree with numpy's within 1e-12 relative (checked on every case: model gain vs. the statement's formula evaluated in Python)",
]
TRUSTED = ["numpy.fft used by the harness to measure the gain (same library the code under test uses; its linearity/inversion is probed)",
           "harness evaluation of the statement's formula (props/c16.py _spec_gain), independent of model and implementation"]
LEVEL_TEXT = ("Lean 4 theorems about an executable polymorphic model of dose_filter / dose_filter_single_image, instantiated at the reals with "
              "Real.exp, Real.rpow, Real.sqrt: the multiplier on every raw DFT coefficient is exp(-d/(2(0.245 f^-1.665 + 2.81))) with f the physical "
              "frequency of that coefficient (fftshift index arithmetic proved for even and odd sizes), DC gain 1, gain(0)=1, gain(d1)gain(d2)=gain(d1+d2), "
              "0<gain<=1, antitone in dose, Hermitian-even; and, for any Fourier service satisfying the stated DFT laws, the image-level consequences "
              "(spectrum multiplied, zero dose = identity, linear, power never increases, more dose attenuates more, d1 then d2 = d1+d2, DC and mean unchanged, "
              "per-image dose pairing, short dose list rejected). Tied to the source by regenerated constants and expression skeletons and by a per-frequency "
              "differential run of the real functions against the driver executing the same definitions at Float")
LEVEL_NOTE = ("trusted: Lean kernel; translator anchors; numpy.fft as the measuring instrument and as the Fourier service (its DFT laws are hypotheses of the "
              "image-level theorems, probed each run); float64 vs real arithmetic within the stated tolerances")
TECHNIQUE = "Lean 4 proof over the reals (Mathlib exp/rpow/sqrt, index arithmetic by omega) + regenerated constants/expression skeletons + per-frequency differential correspondence"
DESIGN_REF = "DESIGN.md section 4, C16"

A_DOC, B_DOC, C_DOC = 0.245, -1.665, 2.81  # the statement's constants (NOT read from the source)


# ------------------------------------------------------------------ generators
def _size(rng):
    k = rng.random()
    hi = 12 if k < 0.5 else (24 if k < 0.8 else 64)
    return rng.randint(4, hi)


def _px(rng):
    k = rng.random()
    if k < 0.15:
        return rng.choice([0.5, 10.0, 1.0, 1.327, 2.654, 3.5])
    if k < 0.55:
        return 0.5 * 20.0 ** rng.random()  # log-uniform: small pixel sizes (high frequencies, strong attenuation) as often as large
    return rng.uniform(0.5, 10.0)


def _dose(rng, hi=300.0):
    k = rng.random()
    if k < 0.08:
        return 0.0
    if k < 0.14:
        return hi
    if k < 0.5:
        return rng.randint(0, int(hi * 8)) / 8.0
    return rng.randint(0, int(min(hi, 60.0) * 8)) / 8.0


def _image(rng, W, H):
    k = rng.random()
    off = rng.choice([0.0, 0.0, rng.randint(-80, 80) / 8.0, 100.0])
    if k < 0.45:
        return dict(kind="random", seed=rng.randrange(1 << 30), offset=off)
    if k < 0.85:
        kx = rng.choice([rng.randint(-(W // 2), (W - 1) // 2), -(W // 2), 0, 1])
        ky = rng.choice([rng.randint(-(H // 2), (H - 1) // 2), -(H // 2), 0, 1])
        return dict(kind="wave", kx=kx, ky=ky, phase=rng.randint(0, 15), amp=rng.choice([1.0, 0.5, 8.0]), offset=off)
    if k < 0.95:
        return dict(kind="delta", y=rng.randrange(H), x=rng.randrange(W), amp=rng.choice([1.0, -2.0, 16.0]), offset=off)
    return dict(kind="const", offset=off if off != 0.0 else 3.0)


def generate(rng, tier, n):
    for t in range(n):
        W, H = _size(rng), _size(rng)
        k = rng.random()
        mode = "plain" if k < 0.55 else ("linear" if k < 0.67 else ("monotone" if k < 0.79 else ("compose" if k < 0.94 else "plain")))
        api = "single" if (mode == "plain" and rng.random() < 0.25) else "stack"
        N = rng.choice([1, 2, 3, rng.randint(1, 10), rng.randint(1, 10)])
        if tier == "search":
            W, H, N = rng.randint(4, 9), rng.randint(4, 9), min(N, 4)
        hi = 150.0 if mode == "compose" else 300.0
        if mode == "linear":
            N = 3
            d = _dose(rng)
            images = [_image(rng, W, H), _image(rng, W, H),
                      dict(kind="lincomb", alpha=rng.choice([1.0, -1.0, 0.5, 2.0, 3.25]), beta=rng.choice([1.0, -0.5, 4.0, -2.75]))]
            doses = [d, d, d]
        elif mode == "monotone":
            N = max(N, 2)
            images = [_image(rng, W, H)] + [dict(kind="copy") for _ in range(N - 1)]
            doses = [_dose(rng) for _ in range(N)]
        else:
            images = [_image(rng, W, H) for _ in range(N)]
            doses = [_dose(rng, hi) for _ in range(N)]
            if N >= 2 and rng.random() < 0.5:  # ascending accumulated dose, then shuffled: "in any order"
                step = rng.randint(1, 240) / 8.0
                doses = [min(hi, step * (i + 1)) for i in range(N)]
                if rng.random() < 0.7:
                    rng.shuffle(doses)
        case = dict(W=W, H=H, px=f2b(_px(rng)), doses=[f2b(d) for d in doses], images=images, mode=mode, api=api,
                    dtype="f8" if rng.random() < 0.8 else "f4",
                    dose_src=rng.choice(["list", "list", "ndarray", "ndarray", "ndarray32", "txt"]),
                    order_in=rng.choice(["xyz", "xyz", "zyx"]), order_out=rng.choice(["xyz", "xyz", "zyx"]))
        if mode == "compose":
            case["doses2"] = [f2b(_dose(rng, 150.0)) for _ in range(N)]
        if api == "single":
            case["dose_src"] = "list"
        if mode == "plain" and api == "stack" and N >= 2 and rng.random() < 0.12:
            case["doses"] = case["doses"][: rng.randint(0, N - 1)]
            case["malformed"] = "short-doses"
            case["dose_src"] = rng.choice(["list", "ndarray"])
        yield case


def _shrunk_image(im):
    if im["kind"] in ("lincomb", "copy"):
        return im
    return dict(kind="delta", y=0, x=0, amp=1.0, offset=0.0)


def shrink(case):
    N = len(case["images"])
    mode = case["mode"]
    if case.get("malformed"):
        if N > 2:
            yield dict(case, images=case["images"][:2], doses=case["doses"][:1])
        if case["W"] > 4 or case["H"] > 4:
            yield dict(case, W=4, H=4, images=[_shrunk_image(i) for i in case["images"]])
        return
    # fewer images
    if mode in ("plain", "compose") and N > 1:
        for i in range(N):
            c = dict(case, images=[case["images"][i]], doses=[case["doses"][i]])
            if "doses2" in case:
                c["doses2"] = [case["doses2"][i]]
            yield c
        if N > 2:
            h = N // 2
            c = dict(case, images=case["images"][:h], doses=case["doses"][:h])
            if "doses2" in case:
                c["doses2"] = case["doses2"][:h]
            yield c
    if mode == "monotone" and N > 2:
        for i in range(1, N):
            yield dict(case, images=case["images"][:i] + case["images"][i + 1:], doses=case["doses"][:i] + case["doses"][i + 1:])
    # plain settings
    for k, v in (("dtype", "f8"), ("dose_src", "list"), ("order_in", "xyz"), ("order_out", "xyz")):
        if case[k] != v and not (case["api"] == "single" and k == "dose_src"):
            yield dict(case, **{k: v})
    if mode != "plain" and mode != "linear" and N == 1:
        yield dict(case, mode="plain")
    # smaller images
    for W2, H2 in ((4, 4), (4, case["H"]), (case["W"], 4), (5, 4), (4, 5), (max(4, case["W"] // 2), max(4, case["H"] // 2))):
        if (W2, H2) != (case["W"], case["H"]) and W2 <= case["W"] and H2 <= case["H"]:
            ims = []
            for im in case["images"]:
                im = dict(im)
                if im["kind"] == "wave":
                    im["kx"] = max(-(W2 // 2), min((W2 - 1) // 2, im["kx"])); im["ky"] = max(-(H2 // 2), min((H2 - 1) // 2, im["ky"]))
                if im["kind"] == "delta":
                    im["x"] %= W2; im["y"] %= H2
                ims.append(im)
            yield dict(case, W=W2, H=H2, images=ims)
    # simpler images
    simple = [_shrunk_image(i) for i in case["images"]]
    if simple != case["images"]:
        yield dict(case, images=simple)
    # simpler numbers
    if b2f(case["px"]) != 1.0:
        yield dict(case, px=f2b(1.0))
        yield dict(case, px=f2b(float(round(b2f(case["px"])) or 1)))
    ds = [b2f(d) for d in case["doses"]]
    for cand in ([float(round(d)) for d in ds], [10.0 * (i + 1) for i in range(len(ds))] if mode != "linear" else [10.0] * len(ds)):
        if cand != ds:
            yield dict(case, doses=[f2b(d) for d in cand])


# ------------------------------------------------------------------ building inputs
def build_images(case):
    W, H = case["W"], case["H"]
    yy, xx = np.meshgrid(np.arange(H), np.arange(W), indexing="ij")
    out = []
    for im in case["images"]:
        k = im["kind"]
        if k == "random":
            a = np.random.default_rng(im["seed"]).integers(-64, 65, size=(H, W)) / 8.0 + im["offset"]
        elif k == "wave":
            a = im["amp"] * np.cos(2 * np.pi * (im["kx"] * xx / W + im["ky"] * yy / H) + im["phase"] * np.pi / 8) + im["offset"]
        elif k == "delta":
            a = np.full((H, W), im["offset"], dtype=float)
            a[im["y"], im["x"]] += im["amp"]
        elif k == "const":
            a = np.full((H, W), im["offset"], dtype=float)
        elif k == "copy":
            a = out[0].copy()
        elif k == "lincomb":
            a = im["alpha"] * out[0] + im["beta"] * out[1]
        else:
            raise ValueError(k)
        a = np.asarray(a, dtype=np.float64)
        if case["dtype"] == "f4":
            a = a.astype(np.float32).astype(np.float64)  # the values the float32 stack really holds
        out.append(a)
    return out


def _stack(case, imgs):
    arr = np.stack(imgs, axis=0).astype(np.float32 if case["dtype"] == "f4" else np.float64)  # (n, H, W)
    return arr.transpose(2, 1, 0).copy() if case["order_in"] == "xyz" else arr


def _doses_arg(case, doses, td):
    src = case["dose_src"]
    if src == "list":
        return list(doses)
    if src == "ndarray":
        return np.array(doses, dtype=np.float64)
    if src == "ndarray32":
        return np.array(doses, dtype=np.float32)
    p = os.path.join(td, "dose.txt")
    with open(p, "w") as f:
        for d in doses:
            f.write(repr(float(d)) + "\n")
    return p


def _enc(arr_nhw):
    a = np.ascontiguousarray(np.asarray(arr_nhw, dtype=np.float64))
    return dict(shape=list(a.shape), hex=a.tobytes().hex())


def _dec(o):
    return np.frombuffer(bytes.fromhex(o["hex"]), dtype=np.float64).reshape(o["shape"])


def harness_freq_array(W, H, px):
    """|frequency| in cycles per Angstrom of every position of the fftshifted spectrum (documented convention, numpy fftfreq)"""
    fx = np.fft.fftshift(np.fft.fftfreq(W, d=px))
    fy = np.fft.fftshift(np.fft.fftfreq(H, d=px))
    return np.sqrt(fx[None, :] ** 2 + fy[:, None] ** 2)


def _call_stack(ts_mod, case, stack, doses, td):
    import io, contextlib
    with contextlib.redirect_stdout(io.StringIO()):
        out = ts_mod.dose_filter(stack, b2f(case["px"]), _doses_arg(case, doses, td), output_file=None,
                                 input_order=case["order_in"], output_order=case["order_out"])
    out = np.asarray(out)
    info = dict(dtype=str(out.dtype), shape=list(out.shape))
    nhw = out.transpose(2, 1, 0) if case["order_out"] == "xyz" else out
    return nhw, info


def run_impl(case):
    import warnings
    from cryocat import tiltstack
    W, H = case["W"], case["H"]
    imgs = build_images(case)
    doses = [b2f(d) for d in case["doses"]]
    with warnings.catch_warnings(), tempfile.TemporaryDirectory(prefix="c16_") as td:
        warnings.simplefilter("ignore")
        if case["api"] == "single":
            fa = harness_freq_array(W, H, b2f(case["px"]))
            outs = []
            for im, d in zip(imgs, doses):
                arr = im.astype(np.float32) if case["dtype"] == "f4" else im.copy()
                keep = arr.copy()
                o = np.asarray(tiltstack.dose_filter_single_image(arr, d, fa))
                if not np.array_equal(arr, keep):
                    return dict(error="dose_filter_single_image modified its input", where="")
                outs.append(o)
            return dict(out=_enc(np.stack(outs, 0)), info=dict(dtype=str(outs[0].dtype), shape=list(outs[0].shape)), freq=_enc(fa))
        stack = _stack(case, imgs)
        keep = stack.copy()
        if case.get("malformed"):
            try:
                _call_stack(tiltstack, case, stack, doses, td)
            except IndexError as e:
                return dict(reject="IndexError")
            return dict(accepted=True)
        nhw, info = _call_stack(tiltstack, case, stack, doses, td)
        obs = dict(out=_enc(nhw), info=info, input_untouched=bool(np.array_equal(stack, keep)))
        if case["mode"] == "compose":
            d2 = [b2f(d) for d in case["doses2"]]
            c2 = dict(case, order_in=case["order_out"])
            second, _ = _call_stack(tiltstack, c2, np.asarray(_raw_out(nhw, case)), d2, td)
            once, _ = _call_stack(tiltstack, case, stack, [a + b for a, b in zip(doses, d2)], td)
            obs["second"] = _enc(second)
            obs["once"] = _enc(once)
        return obs


def _raw_out(nhw, case):
    """the array as dose_filter returned it (so that it can be fed back in with input_order = order_out)"""
    return nhw.transpose(2, 1, 0) if case["order_out"] == "xyz" else nhw


# ------------------------------------------------------------------ model requests
def requests(case, obs):
    W, H = case["W"], case["H"]
    if case["api"] == "single":
        return [dict(op="stack", W=W, H=H, px=case["px"], n=len(case["images"]), doses=case["doses"]),
                dict(op="arrays", W=W, H=H, px=case["px"], dose=case["doses"][0])]
    reqs = [dict(op="stack", W=W, H=H, px=case["px"], n=len(case["images"]), doses=case["doses"])]
    if case["mode"] == "compose" and not case.get("malformed"):
        reqs.append(dict(op="stack", W=W, H=H, px=case["px"], n=len(case["images"]), doses=case["doses2"]))
        reqs.append(dict(op="stack", W=W, H=H, px=case["px"], n=len(case["images"]),
                         doses=[f2b(b2f(a) + b2f(b)) for a, b in zip(case["doses"], case["doses2"])]))
    return reqs


# ------------------------------------------------------------------ the statement, evaluated independently
def _spec_gain(W, H, px, dose):
    """exp(-dose / (2*(0.245*f^-1.665 + 2.81))) at the physical frequency of every raw DFT coefficient [v,u]; 1 at f = 0"""
    fx = np.fft.fftfreq(W) * W / (W * px)  # integer frequency / (size * pixel size)  [cycles per Angstrom]
    fy = np.fft.fftfreq(H) * H / (H * px)
    f = np.sqrt(fx[None, :] ** 2 + fy[:, None] ** 2)
    g = np.ones((H, W))
    nz = f > 0
    g[nz] = np.exp(-dose / (2.0 * (A_DOC * f[nz] ** B_DOC + C_DOC)))
    return g


def _tols(case):
    return (1e-9, 1e-12, 1e-9) if case["dtype"] == "f8" else (1e-4, 1e-4, 1e-5)


def _table(t):
    return np.array([[b2f(x) for x in row] for row in t], dtype=np.float64)


def _where(dev, W, H):
    v, u = np.unravel_index(int(np.argmax(dev)), dev.shape)
    kx = u if 2 * u < W else u - W
    ky = v if 2 * v < H else v - H
    return int(v), int(u), int(kx), int(ky)


def _cmp_gain(Fi, Fo, G, tols):
    """largest violation of `Fo = G * Fi` — returns (excess>0?, description data)"""
    rel, absg, allabs = tols
    scale = float(np.max(np.abs(Fi))) or 1.0
    dev_all = np.abs(Fo - G * Fi) / scale
    strong = np.abs(Fi) >= 0.1 * scale
    meas = np.zeros_like(G)
    meas[strong] = (Fo[strong] / Fi[strong]).real
    dev_strong = np.zeros_like(G)
    dev_strong[strong] = np.abs(Fo[strong] / Fi[strong] - G[strong]) - (rel * np.abs(G[strong]) + absg)
    bad_all = dev_all > allabs
    bad_strong = dev_strong > 0
    reldev = np.zeros_like(G)
    m = strong & (G > 1e-3)
    reldev[m] = np.abs(Fo[m] / Fi[m] - G[m]) / G[m]
    return bad_all, bad_strong, dev_all, meas, float(reldev.max()) if m.any() else 0.0, float(dev_all.max())


def judge(case, obs, resps):
    out = []
    W, H = case["W"], case["H"]
    px = b2f(case["px"])
    doses = [b2f(d) for d in case["doses"]]
    N = len(case["images"])
    model = resps[0]
    if case.get("malformed"):
        if "error" in obs:
            return [dict(kind="corr", clause="short-dose-list-other-error", detail=obs["error"])]
        if model.get("error") != "reject:IndexError":
            out.append(dict(kind="corr", clause="model-accepts-short-dose-list", detail=str(model)[:200]))
        if "reject" not in obs:
            out.append(dict(kind="corr", clause="impl-accepts-short-dose-list", detail=f"{len(doses)} doses for {N} images did not raise"))
        return out
    if "error" in obs:
        return [dict(kind="spec", clause="raises", detail=obs["error"] + " @" + obs.get("where", ""))]
    if "error" in model:
        return [dict(kind="corr", clause="model-rejects", detail=str(model))]
    tols = _tols(case)
    imgs = build_images(case)
    res = _dec(obs["out"])
    want_dtype = "float32" if case["dtype"] == "f4" else "float64"
    if list(res.shape) != [N, H, W]:
        return [dict(kind="spec", clause="output-shape", detail=f"returned {obs['info']['shape']} for {N} images {W}x{H}, order_out={case['order_out']}")]
    if case["api"] == "stack" and obs["info"]["dtype"] != want_dtype:
        out.append(dict(kind="corr", clause="output-dtype", detail=f"{obs['info']['dtype']} for a {want_dtype} stack"))
    if case["api"] == "stack" and not obs.get("input_untouched", True):
        out.append(dict(kind="corr", clause="input-modified", detail="dose_filter changed the caller's array"))
    if not model.get("imagzero", False):
        out.append(dict(kind="corr", clause="model-gain-not-real", detail="driver returned a multiplier with non-zero imaginary part"))
    gains = [_table(t) for t in model["gain"]]
    Fis, Fos = [], []
    for i in range(N):
        Fi, Fo = np.fft.fft2(imgs[i]), np.fft.fft2(res[i])
        Fis.append(Fi); Fos.append(Fo)
        Gs = _spec_gain(W, H, px, doses[i])
        Gm = gains[i]
        # (a) the statement itself, at every frequency
        bad_all, bad_strong, dev_all, meas, _, _ = _cmp_gain(Fi, Fo, Gs, tols)
        if bad_all.any() or bad_strong.any():
            dev = np.where(bad_strong, 1.0 + np.abs(meas - Gs), dev_all)
            v, u, kx, ky = _where(dev, W, H)
            f = math.hypot(kx / (W * px), ky / (H * px))
            clause = "zero-frequency-changed" if (kx, ky) == (0, 0) else ("zero-dose-not-identity" if doses[i] == 0 else "attenuation")
            out.append(dict(kind="spec", clause=clause,
                            detail=f"image {i} dose {doses[i]} px {px} size {W}x{H}: DFT coefficient [v={v},u={u}] (kx={kx},ky={ky}, f={f:.6g}/A) "
                                   f"is multiplied by {Fo[v,u]/Fi[v,u] if abs(Fi[v,u])>0 else 'n/a'}; the property demands {Gs[v,u]:.12g}"))
        # (b) mean / zero frequency
        mtol = tols[2] * max(1.0, float(np.max(np.abs(imgs[i]))))
        if abs(float(res[i].mean()) - float(imgs[i].mean())) > mtol:
            out.append(dict(kind="spec", clause="mean-changed", detail=f"image {i}: mean {imgs[i].mean()!r} -> {res[i].mean()!r}"))
        # (c) zero dose = identity, pixel-wise
        if doses[i] == 0 and float(np.max(np.abs(res[i] - imgs[i]))) > mtol:
            out.append(dict(kind="spec", clause="zero-dose-not-identity", detail=f"image {i}: max pixel change {np.max(np.abs(res[i]-imgs[i]))!r}"))
        # (d) power never increases
        scale = float(np.max(np.abs(Fi))) or 1.0
        exc = np.abs(Fo) - np.abs(Fi) * (1 + tols[0]) - tols[2] * scale
        if (exc > 0).any():
            v, u, kx, ky = _where(exc, W, H)
            out.append(dict(kind="spec", clause="power-increased", detail=f"image {i}: |DFT[{v},{u}]| {abs(Fi[v,u])!r} -> {abs(Fo[v,u])!r}"))
        # (e) correspondence with the Lean model (same defs as the theorems), at every frequency
        bad_all, bad_strong, dev_all, meas, _, _ = _cmp_gain(Fi, Fo, Gm, tols)
        if bad_all.any() or bad_strong.any():
            dev = np.where(bad_strong, 1.0 + np.abs(meas - Gm), dev_all)
            v, u, kx, ky = _where(dev, W, H)
            out.append(dict(kind="corr", clause="gain-vs-model", detail=f"image {i} dose {doses[i]}: coefficient [v={v},u={u}] measured gain "
                            f"{Fo[v,u]/Fi[v,u] if abs(Fi[v,u])>0 else 'n/a'}, model {Gm[v,u]!r}"))
        # (f) model at Float vs the statement's formula
        md = np.abs(Gm - Gs) - (1e-12 * Gs + 1e-300)
        if (md > 0).any():
            v, u, kx, ky = _where(md, W, H)
            out.append(dict(kind="corr", clause="model-vs-statement", detail=f"dose {doses[i]} [v={v},u={u}]: model {Gm[v,u]!r}, statement {Gs[v,u]!r}"))
    # clauses over several images
    if case["mode"] == "linear":
        al, be = case["images"][2]["alpha"], case["images"][2]["beta"]
        lin = al * res[0] + be * res[1]
        sc = max(1.0, float(np.max(np.abs(lin))), float(np.max(np.abs(imgs[2]))))
        if float(np.max(np.abs(res[2] - lin))) > 10 * tols[2] * sc:
            out.append(dict(kind="spec", clause="not-linear", detail=f"filter({al}*x+{be}*y) differs from {al}*filter(x)+{be}*filter(y) by {np.max(np.abs(res[2]-lin))!r}"))
    if case["mode"] == "monotone":
        order = sorted(range(N), key=lambda i: doses[i])
        scale = float(np.max(np.abs(Fis[0]))) or 1.0
        for a, b in zip(order, order[1:]):
            exc = np.abs(Fos[b]) - np.abs(Fos[a]) * (1 + tols[0]) - tols[2] * scale
            if (exc > 0).any():
                v, u, kx, ky = _where(exc, W, H)
                out.append(dict(kind="spec", clause="more-dose-attenuates-less",
                                detail=f"doses {doses[a]} <= {doses[b]} but |DFT[{v},{u}]| {abs(Fos[a][v,u])!r} < {abs(Fos[b][v,u])!r}"))
                break
    if case["mode"] == "compose":
        second, once = _dec(obs["second"]), _dec(obs["once"])
        sc = max(1.0, float(np.max(np.abs(once))))
        if second.shape != once.shape or float(np.max(np.abs(second - once))) > 10 * tols[2] * sc:
            out.append(dict(kind="spec", clause="compose-differs", detail=f"filter(d2) o filter(d1) differs from filter(d1+d2) by "
                            f"{(np.max(np.abs(second-once)) if second.shape==once.shape else 'shape')!r}"))
        if len(resps) >= 3 and "gain" in resps[1] and "gain" in resps[2]:
            for i in range(N):
                g12 = gains[i] * _table(resps[1]["gain"][i])
                g = _table(resps[2]["gain"][i])
                if float(np.max(np.abs(g12 - g) - 1e-12 * g)) > 1e-300:
                    out.append(dict(kind="corr", clause="model-compose", detail=f"image {i}: model gain(d1)*gain(d2) != gain(d1+d2) at Float beyond 1e-12"))
                    break
    if case["api"] == "single" and len(resps) >= 2 and "freq" in resps[1]:
        fa = _dec(obs["freq"])
        fm = _table(resps[1]["freq"])
        if float(np.max(np.abs(fa - fm) - 1e-13 * np.abs(fa))) > 1e-300:
            out.append(dict(kind="corr", clause="freq-array-vs-model", detail="harness |fftfreq| array differs from the model's frequency_array"))
        q, ql = _table(resps[1]["q"]), _table(resps[1]["qliteral"])
        if not np.array_equal(q, ql):
            out.append(dict(kind="corr", clause="qliteral-vs-model", detail="branch-free source expression at Float differs from the model's case split"))
        sx = np.round(np.fft.fftfreq(W) * W).astype(int).tolist()
        sy = np.round(np.fft.fftfreq(H) * H).astype(int).tolist()
        if resps[1]["sfreqx"] != sx or resps[1]["sfreqy"] != sy:
            out.append(dict(kind="corr", clause="sfreq-vs-fftfreq", detail="model sfreq differs from numpy fftfreq"))
        if [b2f(x) for x in resps[1]["consts"]] != [A_DOC, B_DOC, C_DOC]:
            out.append(dict(kind="corr", clause="model-constants", detail=str([b2f(x) for x in resps[1]["consts"]])))
    return out


def nontrivial(case, obs):
    if case.get("malformed") or "error" in obs:
        return False
    ds = {b2f(d) for d in case["doses"]}
    if len(case["images"]) < 2 or len(ds) < 2 or max(ds) <= 0:
        return False
    g = _spec_gain(case["W"], case["H"], b2f(case["px"]), max(ds))
    return bool(g.min() < 0.99)


def _bucket(x):
    if x <= 0:
        return "0"
    return f"1e{int(math.floor(math.log10(x)))}"


def stats(case, obs, resps):
    W, H, N = case["W"], case["H"], len(case["images"])
    s = {"n_images": str(N), "parity(W,H)": ("even" if W % 2 == 0 else "odd") + "," + ("even" if H % 2 == 0 else "odd"),
         "size": "<=12" if max(W, H) <= 12 else ("<=24" if max(W, H) <= 24 else "<=64"), "square": str(W == H),
         "dtype": case["dtype"], "dose_src": case["dose_src"], "api": case["api"], "order(in,out)": case["order_in"] + "," + case["order_out"],
         "mode": case.get("malformed") or case["mode"], "image_kind": [im["kind"] for im in case["images"]]}
    ds = [b2f(d) for d in case["doses"]]
    s["dose"] = ["0" if d == 0 else ("300" if d == 300 else ("<10" if d < 10 else ("<60" if d < 60 else "<300"))) for d in ds]
    s["dose_order"] = "n/a" if len(ds) < 2 else ("ascending" if ds == sorted(ds) else ("descending" if ds == sorted(ds, reverse=True) else "mixed"))
    px = b2f(case["px"])
    s["px"] = "0.5-1" if px < 1 else ("1-2" if px < 2 else ("2-5" if px < 5 else "5-10"))
    if "out" in obs and resps and "gain" in resps[0] and not case.get("malformed"):
        try:
            imgs = build_images(case); res = _dec(obs["out"]); tols = _tols(case)
            worst_rel, worst_abs, gmin = 0.0, 0.0, 1.0
            for i in range(N):
                G = _table(resps[0]["gain"][i])
                _, _, _, _, r, a = _cmp_gain(np.fft.fft2(imgs[i]), np.fft.fft2(res[i]), G, tols)
                worst_rel, worst_abs, gmin = max(worst_rel, r), max(worst_abs, a), min(gmin, float(G.min()))
            s[f"max_rel_dev_gain_{case['dtype']}"] = _bucket(worst_rel)
            s[f"max_abs_dev_spectrum_{case['dtype']}"] = _bucket(worst_abs)
            s["min_model_gain"] = _bucket(gmin)
        except Exception as e:
            s["stats_error"] = type(e).__name__
    return s


def sample_view(case):
    return dict(W=case["W"], H=case["H"], px=b2f(case["px"]), doses=[b2f(d) for d in case["doses"]], images=case["images"][:4],
                mode=case["mode"], api=case["api"], dtype=case["dtype"], dose_src=case["dose_src"],
                order=(case["order_in"], case["order_out"]), malformed=case.get("malformed"))


def classify(case, obs, finding):
    return None


# ------------------------------------------------------------------ probes of the recorded library assumptions
def probes(rng):
    out = []
    r = np.random.default_rng(rng.randrange(1 << 30))
    worst = 0.0
    for (H, W) in ((4, 4), (5, 8), (7, 9), (16, 5), (33, 64)):
        x, y = r.normal(size=(H, W)), r.normal(size=(H, W))
        F = np.fft.fft2
        worst = max(worst, float(np.max(np.abs(np.fft.ifft2(F(x)) - x))), float(np.max(np.abs(F(2.5 * x - y) - (2.5 * F(x) - F(y))))) / W / H,
                    abs(F(x)[0, 0] - x.sum()) / W / H)
    out.append(dict(name="fft-roundtrip-linear-dc", ok=worst < 1e-12, detail=f"max deviation {worst:.3g}"))
    ok = True
    for n in range(1, 70):
        a = np.arange(n)
        s, i = np.fft.fftshift(a), np.fft.ifftshift(a)
        ok &= all(s[x] == (x + (n - n // 2)) % n for x in range(n)) and all(i[k] == (k + n // 2) % n for k in range(n))
        ok &= all((s[x] if 2 * s[x] < n else s[x] - n) == x - n // 2 for x in range(n))
        ok &= np.array_equal(np.round(np.fft.fftfreq(n) * n).astype(int), np.array([k if 2 * k < n else k - n for k in range(n)]))
    out.append(dict(name="fftshift-index", ok=bool(ok), detail="fftshift/ifftshift/fftfreq index maps for n = 1..69 equal Model/C16 shiftSrc/ishiftSrc/sfreq"))
    worst = 0.0
    for (H, W) in ((4, 6), (5, 7), (8, 5), (9, 9)):
        x = r.normal(size=(H, W))
        G = _spec_gain(W, H, 1.7, 40.0)
        worst = max(worst, float(np.max(np.abs(np.fft.ifft2(G * np.fft.fft2(x)).imag))))
    out.append(dict(name="even-multiplier-real", ok=worst < 1e-13, detail=f"max |imag| {worst:.3g}"))
    with np.errstate(divide="ignore"):
        z = np.exp(-np.float64(300.0) / (2 * (0.245 * np.float64(0.0) ** -1.665 + 2.81)))
    out.append(dict(name="zero-frequency-inf", ok=bool(z == 1.0), detail=f"exp(-300/(2*(a*0**b+c))) = {z!r}"))
    return out
